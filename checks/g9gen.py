"""Generators shared by the whole-compiler checks C01, C06, C07, C08 (agent g9).

A *package* is a list of {"name":..., "src":...} files (presentation order = list order).
All randomness comes from the SplitMix stream handed in (ctx.rng).
"""
import hashlib
import json
import os

# ----------------------------------------------------------------------------- helpers


def pkg_key(files):
    """stable content key of a package (independent of presentation order)"""
    h = hashlib.sha256()
    for f in sorted(files, key=lambda f: f["name"]):
        h.update(f["name"].encode() + b"\0" + f["src"].encode("utf-8", "surrogateescape") + b"\0")
    return "pkg:" + h.hexdigest()[:12]


def case_line(cid, files, **extra):
    d = {"id": cid, "files": files}
    d.update(extra)
    return json.dumps(d)


def export_table(ctx, vlib, extra_pkgs=()):
    """`go list -export -deps` once per run -> scratch/exports.txt (import path TAB export file);
    the harness type-checks imports from the compiler's export data (no process per import)."""
    hdir = vlib.HARNESS
    if vlib.PRIVATE:
        hdir = os.path.join(vlib.BUILD, "harness_" + vlib.PTAG)
    pkgs = ["fmt", "os", "reflect", "strconv", "strings", "sort", "errors", "math", "testing", "time", "bytes",
            "unicode", "unicode/utf8", "io", "log", "math/big", "bufio", "regexp", "context", "net/http", "flag",
            "github.com/qiniu/x/osx", "github.com/qiniu/x/xgo", "github.com/qiniu/x/xgo/ng",
            "github.com/qiniu/x/stringutil", "github.com/qiniu/x/stringslice", "github.com/qiniu/x/errors",
            "github.com/goplus/xgo/cl/internal/spx", "github.com/goplus/xgo/cl/internal/spx2",
            "github.com/goplus/xgo/cl/internal/spx3", "github.com/goplus/xgo/cl/internal/spx3/jwt",
            "github.com/goplus/xgo/cl/internal/spx4", "github.com/goplus/xgo/cl/internal/mcp",
            "github.com/goplus/xgo/test", "github.com/goplus/xgo/tpl", "github.com/goplus/xgo/tpl/variant/builtin",
            "github.com/goplus/xgo/encoding/json", "github.com/goplus/xgo/cl/internal/unit"] + list(extra_pkgs)
    out = os.path.join(ctx.scratch, "exports.txt")
    with vlib.Lock("build"):
        rc, txt = vlib.sh(["go", "list", "-e", "-export", "-deps", "-f", "{{.ImportPath}}\t{{.Export}}"] + pkgs,
                          cwd=hdir, env=vlib.GOENV, timeout=600, stderr=-3)
    lines = [l for l in txt.splitlines() if "\t" in l and l.split("\t")[1]]
    if rc != 0 or len(lines) < 40:
        raise RuntimeError("go list -export failed rc=%d: %s" % (rc, txt[-800:]))
    open(out, "w").write("\n".join(lines) + "\n")
    return out


# ----------------------------------------------------------------------------- corpus of /repo


def read_pkg_dir(d, skip=("out.go",)):
    files = []
    for n in sorted(os.listdir(d)):
        p = os.path.join(d, n)
        if not os.path.isfile(p) or n in skip or n.startswith("gop_autogen") or n.startswith("xgo_autogen"):
            continue
        if n.startswith("_") or n.endswith("_test.go") or n.endswith(".md") or n.endswith(".txt") or n.endswith(".expect"):
            continue
        ext = os.path.splitext(n)[1]
        if ext not in (".xgo", ".gop", ".go", ".gox", ".tgmx", ".tspx", ".t2gmx", ".t2spx", ".t4gmx", ".t4spx"):
            continue
        try:
            src = open(p, encoding="utf-8").read()
        except Exception:
            continue
        files.append({"name": n, "src": src})
    return files


def repo_corpus(repo):
    """(id, files) for the package directories of /repo that are XGo packages: cl/_testgop/*,
    cl/_testspx/*, demo/*, demo/fullspec/* (seed independent)."""
    out = []
    for base in ("cl/_testgop", "cl/_testspx", "demo", "demo/fullspec", "cl/_testc", "cl/_testpy"):
        b = os.path.join(repo, base)
        if not os.path.isdir(b):
            continue
        for n in sorted(os.listdir(b)):
            d = os.path.join(b, n)
            if not os.path.isdir(d) or n.startswith("_"):
                continue
            files = read_pkg_dir(d)
            if any(not f["name"].endswith(".go") for f in files):
                out.append((base + "/" + n, files))
    return out


# ----------------------------------------------------------------------------- C08: order packages

XNAMES = ["a.xgo", "b.xgo", "B.xgo", "a_b.xgo", "ab.xgo", "a.b.xgo", "z.gop", "0.xgo", "aa.xgo", "Z.xgo", "m.gop", "a-1.xgo"]
GNAMES = ["a.go", "b.go", "0.go", "Z.go", "a_b.go", "ab.go", "zz.go"]
FNAMES = ["A", "B", "C", "D", "E", "f", "g", "h", "main", "init", "_", "Aa", "Ab"]


def order_pkg(rng):
    """XGo + Go files holding only parameterless funcs with empty bodies; names drawn from a small
    pool so that redeclarations across files happen in about half of the packages.
    -> (files, model_line)"""
    nx = 1 + rng.below(4)
    ng = rng.below(3)
    xn = []
    while len(xn) < nx:
        c = rng.choice(XNAMES)
        if c not in xn:
            xn.append(c)
    gn = []
    while len(gn) < ng:
        c = rng.choice(GNAMES)
        if c not in gn:
            gn.append(c)
    collide = rng.below(2) == 0
    used = set()
    files, items = [], []
    for n in xn + gn:
        k = 1 + rng.below(3)
        names = []
        for _ in range(k):
            for _try in range(20):
                c = rng.choice(FNAMES)
                if n.endswith(".go") and c == "main" and rng.below(3):
                    continue
                if c in ("init", "_") or collide or c not in used:
                    if c not in names or c in ("init", "_"):
                        break
            else:
                continue
            names.append(c)
            used.add(c)
        body = "".join("func %s() {\n}\n" % c for c in names)
        if n.endswith(".go"):
            src = "package main\n\n" + body
        else:
            src = body
        files.append({"name": n, "src": src})
        items.append(("G:" if n.endswith(".go") else "X:") + n.encode().hex() + ":" +
                     (",".join(c.encode().hex() for c in names) or "-"))
    # presentation order is shuffled
    idx = list(range(len(files)))
    for i in range(len(idx) - 1, 0, -1):
        j = rng.below(i + 1)
        idx[i], idx[j] = idx[j], idx[i]
    return [files[i] for i in idx], " ".join(items[i] for i in idx)


# ----------------------------------------------------------------------------- C08: structured packages

def det_pkgs_c08():
    """deterministic (seed independent) packages: witnesses of the repaired and of the open defects,
    class-file combinations that make ctx.projs / ctx.classes hold several entries."""
    P = []
    P.append(("dup-gofiles", [
        {"name": "a.go", "src": "package main\n\nfunc Dup() {}\n"},
        {"name": "b.go", "src": "package main\n\nfunc Dup() {}\n"},
        {"name": "c.xgo", "src": "println \"hi\"\n"}]))
    P.append(("dup-gofiles-3", [
        {"name": "b.go", "src": "package main\n\ntype T int\nfunc Dup() {}\nvar V = 1\n"},
        {"name": "a.go", "src": "package main\n\nfunc Dup() {}\nconst V = 2\n"},
        {"name": "0.go", "src": "package main\n\nvar Dup, T = 1, 2\n"},
        {"name": "c.xgo", "src": "println \"hi\"\n"}]))
    P.append(("gofile-one-type-error", [
        {"name": "a.go", "src": "package main\n\ntype A struct{ x Undef1 }\ntype B struct{ y int }\ntype C struct{ y B }\n"},
        {"name": "c.xgo", "src": "println \"hi\"\n"}]))
    P.append(("gofile-types-ok", [
        {"name": "a.go", "src": "package main\n\ntype A struct{ x *B }\ntype B struct{ y []C }\ntype C struct{ z map[string]A }\n"
                                 "func (a *A) M() int { return 1 }\nfunc (b B) M() int { return 2 }\nfunc Add__0(a int) int { return a }\nfunc Add__1(a string) string { return a }\n"},
        {"name": "b.go", "src": "package main\n\ntype D[T any] struct{ v T }\nfunc (d *D[T]) Get() T { return d.v }\ntype E = A\n"},
        {"name": "c.xgo", "src": "var a A\nvar b B\nprintln a.M(), b.M(), add(1), add(\"x\")\n"}]))
    P.append(("xgo-errors-3files", [
        {"name": "b.xgo", "src": "func B() int {\n\treturn undefinedB\n}\n"},
        {"name": "a.xgo", "src": "func A() string {\n\treturn 1 + undefinedA\n}\nvar x int = \"s\"\n"},
        {"name": "c.xgo", "src": "func main() {\n\tA()\n\tB()\n\tnosuch()\n}\n"}]))
    P.append(("typeswitch-dups", [
        {"name": "a.xgo", "src": "func f(v any) {\n\tswitch v.(type) {\n\tcase int, string:\n\tcase int:\n\tcase string, int, nil:\n\tcase nil:\n\tdefault:\n\tdefault:\n\t}\n}\nf 1\n"}]))
    game = "var (\n\tKai Kai\n)\n\nrun \"hzip://open.qiniu.us/weather/res.zip\"\n"
    kai = "println \"Hi\"\n"
    P.append(("two-projects", [
        {"name": "Game.tgmx", "src": game}, {"name": "Kai.tspx", "src": kai},
        {"name": "main_spx.gox", "src": "println \"Hi\"\n"}, {"name": "Cat_spx.gox", "src": "println \"cat\"\n"}]))
    P.append(("same-clsfile-name", [
        {"name": "Foo.tgmx", "src": "run \"x\"\n"}, {"name": "Foo.tspx", "src": kai}, {"name": "Bar.tspx", "src": kai}]))
    P.append(("two-main-projfiles", [
        {"name": "main.tgmx", "src": "run \"x\"\n"}, {"name": "main.t2gmx", "src": "println 1\n"},
        {"name": "Kai.tspx", "src": kai}, {"name": "Kai2.t2spx", "src": kai}]))
    P.append(("three-projects", [
        {"name": "main.tgmx", "src": "run \"x\"\n"}, {"name": "index.t4gmx", "src": "println 1\n"},
        {"name": "a.tspx", "src": kai}, {"name": "b.t4spx", "src": kai}, {"name": "c.t2spx", "src": kai},
        {"name": "hello_tool.gox", "src": "return \"Hi\"\n"}, {"name": "main_mcp.gox", "src": "server \"protos\"\n"}]))
    P.append(("gox-classes", [
        {"name": "Rect.gox", "src": "var (\n\tW, H int\n)\n\nfunc Area() int {\n\treturn W * H\n}\n"},
        {"name": "Circle.gox", "src": "var (\n\tR int\n)\n\nfunc Area() int {\n\treturn 3 * R * R\n}\n"},
        {"name": "main.xgo", "src": "r := &Rect{W: 2, H: 3}\nc := &Circle{R: 1}\nprintln r.area, c.area\n"}]))
    return P


IDENTS = ["alpha", "beta", "gamma", "delta", "eps", "zeta", "eta", "theta"]


def mixed_pkg(rng, errors=0, go_type_errors=0):
    """2-5 XGo files + 0-2 Go files with types, methods, vars, consts, funcs that refer to one
    another ACROSS files (on-demand symbol loading), optionally with `errors` compile errors in the
    XGo files (undefined names / type mismatches) and at most ONE erroneous Go-file type."""
    nx = 2 + rng.below(4)
    ng = rng.below(3)
    xfiles = [[] for _ in range(nx)]
    gfiles = [[] for _ in range(ng)]
    types, funcs, consts, gtypes = [], [], [], []
    nsym = 4 + rng.below(8)
    for i in range(nsym):
        kind = rng.choice(["type", "func", "const", "var", "method", "type"])
        name = rng.choice(IDENTS).capitalize() + str(i)
        in_go = ng > 0 and rng.below(3) == 0
        dst = rng.choice(gfiles) if in_go else rng.choice(xfiles)
        if kind == "type":
            fld = ""
            pool = gtypes if in_go else types
            if pool and rng.below(2):
                t = rng.choice(pool)
                fld = "\tp%d *%s\n" % (i, t)
            dst.append("type %s struct {\n\tn int\n%s}\n" % (name, fld))
            types.append(name)
            if in_go:
                gtypes.append(name)
        elif kind == "method" and (gtypes if in_go else types):
            t = rng.choice(gtypes if in_go else types)
            call = ""
            if funcs and rng.below(2) and not in_go:
                call = " + %s(1)" % rng.choice(funcs)
            dst.append("func (p *%s) M%d() int {\n\treturn p.n%s\n}\n" % (t, i, call))
        elif kind == "func" or kind == "method":
            call = "x"
            if funcs and rng.below(2):
                call = "%s(x) + 1" % rng.choice(funcs)
            if consts and rng.below(2):
                call += " + %s" % rng.choice(consts)
            dst.append("func %s(x int) int {\n\treturn %s\n}\n" % (name, call))
            funcs.append(name)
        elif kind == "const":
            v = str(rng.below(100))
            if consts and rng.below(2):
                v = rng.choice(consts) + " + " + v
            dst.append("const %s = %s\n" % (name, v))
            consts.append(name)
        else:
            v = str(rng.below(100))
            if funcs and rng.below(2):
                v = "%s(%s)" % (rng.choice(funcs), v)
            dst.append("var %s = %s\n" % (name, v))
    main = ["func main() {\n"]
    for f in funcs[:4]:
        main.append("\tprintln %s(2)\n" % f)
    for t in types[:3]:
        main.append("\tprintln new(%s).n\n" % t)
    main.append("}\n")
    rng.choice(xfiles).append("".join(main))
    for _ in range(errors):
        k = rng.below(4)
        tgt = rng.choice(xfiles)
        e = rng.below(1000)
        if k == 0:
            tgt.append("func Err%d() int {\n\treturn undefined%d\n}\n" % (e, e))
        elif k == 1:
            tgt.append("var err%d int = \"s%d\"\n" % (e, e))
        elif k == 2:
            tgt.append("func Err%d() {\n\tvar s string = %d\n\t_ = s\n}\n" % (e, e))
        else:
            tgt.append("type Err%d struct {\n\tf NoSuchType%d\n}\n" % (e, e))
    for _ in range(go_type_errors if gfiles else 0):
        # erroneous type declarations in the Go files: loaded by initGopPkg (sorted names since the repair)
        e = rng.below(1000)
        rng.choice(gfiles).append("type GErr%d struct {\n\tf NoSuchG%d\n}\n" % (e, e))
    files = []
    xn = list(XNAMES)
    gn = list(GNAMES)
    for body in xfiles:
        n = xn.pop(rng.below(len(xn)))
        files.append({"name": n, "src": "\n".join(body) if body else "// empty\n"})
    for body in gfiles:
        n = gn.pop(rng.below(len(gn)))
        files.append({"name": n, "src": "package main\n\n" + "\n".join(body)})
    return files


# ----------------------------------------------------------------------------- mutation of sources (C06, C07)

import re

_TOK = re.compile(r'"(?:[^"\\\n]|\\.)*"|`[^`]*`|\'(?:[^\'\\\n]|\\.)*\'|[A-Za-z_][A-Za-z_0-9]*|\d+(?:\.\d+)?|<-|:=|==|!=|<=|>=|&&|\|\||\+\+|--|=>|\.\.\.|[^\sA-Za-z_0-9]')
KEYWORDS = ["func", "var", "const", "type", "struct", "interface", "map", "if", "else", "for", "range", "switch", "case",
            "default", "return", "break", "continue", "defer", "go", "import", "package", "select", "chan", "fallthrough", "goto"]
PUNCT = ["(", ")", "{", "}", "[", "]", ",", ";", ":", ".", "=", ":=", "+", "-", "*", "/", "<-", "!", "?", "=>", "&", "...", "$", "#", "@", "~", "\"", "'", "`"]
MUT_KINDS = ["del-token", "dup-token", "swap-tokens", "ident-swap", "ident-undef", "lit-change", "insert-keyword", "insert-punct",
             "del-line", "dup-line", "swap-lines", "truncate", "del-byte", "type-swap", "del-range"]


def tokens(src):
    return [(m.start(), m.end()) for m in _TOK.finditer(src)]


def mutate(src, rng, kind=None):
    """one structured mutation of a source text -> (mutant, kind)"""
    kind = kind or MUT_KINDS[rng.below(len(MUT_KINDS))]
    toks = tokens(src)
    if not toks:
        return src + "}", "insert-punct"
    i = rng.below(len(toks))
    a, b = toks[i]
    if kind == "del-token":
        return src[:a] + src[b:], kind
    if kind == "dup-token":
        return src[:b] + " " + src[a:b] + src[b:], kind
    if kind == "swap-tokens" and i + 1 < len(toks):
        c, d = toks[i + 1]
        return src[:a] + src[c:d] + src[b:c] + src[a:b] + src[d:], kind
    idents = [(x, y) for (x, y) in toks if (src[x].isalpha() or src[x] == "_") and src[x:y] not in KEYWORDS]
    if kind == "ident-swap" and len(idents) >= 2:
        x, y = idents[rng.below(len(idents))]
        u, v = idents[rng.below(len(idents))]
        return src[:x] + src[u:v] + src[y:], kind
    if kind == "ident-undef" and idents:
        x, y = idents[rng.below(len(idents))]
        return src[:x] + "zz" + src[x:y] + src[y:], kind
    if kind == "type-swap":
        tys = [(x, y) for (x, y) in toks if src[x:y] in ("int", "string", "bool", "error", "float64", "any")]
        if tys:
            x, y = tys[rng.below(len(tys))]
            return src[:x] + rng.choice(["int", "string", "bool", "[]int", "float64", "any", "*int", "func()"]) + src[y:], kind
    lits = [(x, y) for (x, y) in toks if src[x].isdigit() or src[x] in "\"'`"]
    if kind == "lit-change" and lits:
        x, y = lits[rng.below(len(lits))]
        return src[:x] + rng.choice(["0", "-1", "\"s\"", "1.5", "nil", "true", "99999999999999999999", "'c'", "\"${x}\"", "1r", "[]", "{}"]) + src[y:], kind
    if kind == "insert-keyword":
        return src[:a] + rng.choice(KEYWORDS) + " " + src[a:], kind
    if kind == "insert-punct":
        return src[:a] + rng.choice(PUNCT) + src[a:], kind
    lines = src.split("\n")
    j = rng.below(len(lines))
    if kind == "del-line":
        return "\n".join(lines[:j] + lines[j + 1:]), kind
    if kind == "dup-line":
        return "\n".join(lines[:j + 1] + lines[j:]), kind
    if kind == "swap-lines" and j + 1 < len(lines):
        lines[j], lines[j + 1] = lines[j + 1], lines[j]
        return "\n".join(lines), kind
    if kind == "truncate":
        return src[:a], kind
    if kind == "del-range" and i + 1 < len(toks):
        k = min(len(toks) - 1, i + 1 + rng.below(6))
        return src[:a] + src[toks[k][1]:], kind
    p = rng.below(len(src)) if src else 0
    return src[:p] + src[p + 1:], "del-byte"


# ----------------------------------------------------------------------------- C06: terms of the sugar calculus

class TermGen:
    """typed random terms of Model/C06.v over the prelude (see harness/cmd/c06 and Model/C06.v):
    -> (prefix encoding for the model, XGo expression text)"""
    INT, BOOL, STR = "int", "bool", "string"

    def __init__(self, rng):
        self.r = rng
        self.n = 9
        self.shape = {}
        self.use_loop_var = True

    def fresh(self):
        self.n += 1
        return self.n

    def lst(self, t):
        return "[]" + t

    def gen(self, t, d, bound):
        """bound: list of (number, type)"""
        r = self.r
        leaf = d >= 4 or r.below(5) == 0
        bv = [n for (n, bt) in bound if bt == t]
        if bv and r.below(3) == 0:
            n = bv[r.below(len(bv))]
            return "v%d" % n, "x%d" % n
        if t == self.INT:
            k = r.below(2) if leaf else r.below(9)
            if k == 0:
                return "v2", "n"
            if k == 1:
                v = r.below(20)
                return "i%d" % v, str(v)
            if k == 2:
                a, b = self.gen(t, d + 1, bound), self.gen(t, d + 1, bound)
                return "+ %s %s" % (a[0], b[0]), "(%s + %s)" % (a[1], b[1])
            if k == 3:
                a = self.gen(t, d + 1, bound)
                return "call 0 " + a[0], "inc(%s)" % a[1]
            if k == 4:
                a = self.gen(self.STR, d + 1, bound)
                return "call 7 " + a[0], "size(%s)" % a[1]
            if k in (5, 6):
                f, at, fn = (3, self.INT, "half") if r.below(2) else (4, self.STR, "parse")
                a, dd = self.gen(at, d + 1, bound), self.gen(t, d + 1, bound)
                self.shape["errwrap-default"] = self.shape.get("errwrap-default", 0) + 1
                return "errd %d %s %s" % (f, a[0], dd[0]), "%s(%s)?:%s" % (fn, a[1], dd[1])
            f, at, fn = (3, self.INT, "half") if r.below(2) else (4, self.STR, "parse")
            a = self.gen(at, d + 1, bound)
            self.shape["errwrap-panic"] = self.shape.get("errwrap-panic", 0) + 1
            return "errp %d %s" % (f, a[0]), "%s(%s)!" % (fn, a[1])
        if t == self.BOOL:
            k = r.below(2) if leaf else r.below(4)
            if k == 0:
                return "v6", "b"
            if k == 1:
                return ("bT", "true") if r.below(2) else ("bF", "false")
            if k == 2:
                a, b = self.gen(self.INT, d + 1, bound), self.gen(self.INT, d + 1, bound)
                return "< %s %s" % (a[0], b[0]), "(%s < %s)" % (a[1], b[1])
            a = self.gen(self.INT, d + 1, bound)
            return "call 1 " + a[0], "isPos(%s)" % a[1]
        if t == self.STR:
            k = r.below(2) if leaf else r.below(4)
            if k == 0:
                return "v3", "s"
            if k == 1:
                w = ["a", "bc", "12", "x1"][r.below(4)]
                return "s" + w.encode().hex(), '"%s"' % w
            if k == 2:
                a, b = self.gen(t, d + 1, bound), self.gen(t, d + 1, bound)
                return "cat %s %s" % (a[0], b[0]), "(%s + %s)" % (a[1], b[1])
            a = self.gen(self.INT, d + 1, bound)
            return "call 2 " + a[0], "str(%s)" % a[1]
        # list types
        et = t[2:]
        if t == "[]int" and (leaf or r.below(4) == 0):
            if r.below(2):
                return "v4", "xs"
            a = self.gen(t, d + 1, bound) if not leaf else ("v4", "xs")
            return "call 5 " + a[0], "dbl(%s)" % a[1]
        if t == "[]string" and (leaf or r.below(4) == 0):
            if r.below(2):
                return "v5", "ss"
            a = self.gen(self.STR, d + 1, bound)
            return "call 6 " + a[0], "words(%s)" % a[1]
        if t == "[][]int" and (leaf or r.below(4) == 0):
            return "v7", "xss"
        if leaf and t not in ("[]int", "[]string", "[][]int"):
            pass
        # comprehension producing []et from a source list of some element type
        st = ["int", "string"][r.below(2)]
        if et == "[]int" and r.below(3) == 0:
            st = "[]int"
        src = self.gen("[]" + st, d + 1, bound)
        x = self.fresh()
        b2 = bound + [(x, st)]
        e = self.gen(et, d + 1, b2)
        xn = "x%d" % x
        used = xn in e[1].replace("(", " ").replace(")", " ").replace(",", " ").split()
        c = None
        if r.below(2):
            c = self.gen(self.BOOL, d + 1, b2)
            used = used or xn in c[1].replace("(", " ").replace(")", " ").replace(",", " ").split()
        if not used and self.use_loop_var:
            # an unused comprehension variable is rejected by Go ("declared and not used", known finding):
            # make the filter use it
            if st == "int":
                c = ("< v%d i1000" % x, "(%s < 1000)" % xn)
            elif st == "string":
                c = ("< call 7 v%d i1000" % x, "(size(%s) < 1000)" % xn)
            else:
                e = ("call 5 v%d" % x, "dbl(%s)" % xn) if r.below(2) else ("v%d" % x, xn)
        if c is not None:
            self.shape["comprehension-if"] = self.shape.get("comprehension-if", 0) + 1
            return "comprif %d %s %s %s" % (x, e[0], src[0], c[0]), "[%s for x%d <- %s, %s]" % (e[1], x, src[1], c[1])
        self.shape["comprehension"] = self.shape.get("comprehension", 0) + 1
        return "compr %d %s %s" % (x, e[0], src[0]), "[%s for x%d <- %s]" % (e[1], x, src[1])

    def term(self):
        t = ["int", "[]int", "[]int", "[]string", "[][]int", "string", "bool", "[][]string"][self.r.below(8)]
        return t, self.gen(t, 0, [])


# ----------------------------------------------------------------------------- C07: every type-expression shape in every XGo type position

GENERIC_GO = '''package main

type Named struct {
	N int
}

type Str string

type Box[T any] struct {
	V T
}

type Pair[K comparable, V any] struct {
	Key K
	Val V
}

type Triple[A, B, C any] struct {
	A A
	B B
	C C
}

type Iface interface {
	M() int
}

func (n Named) M() int {
	return n.N
}

func MakeBox[T any](v T) Box[T] {
	return Box[T]{V: v}
}
'''

# (name, type expression, may be embedded)
TYPE_SHAPES_C07 = [
    ("named", "Named", True), ("ptr-named", "*Named", True), ("qualified", "strings.Builder", True),
    ("ptr-qualified", "*strings.Builder", True), ("iface", "Iface", True), ("qualified-iface", "fmt.Stringer", True),
    ("inst1", "Box[int]", True), ("inst2", "Pair[string, int]", True), ("inst3", "Triple[int, string, bool]", True),
    ("ptr-inst1", "*Box[int]", True), ("ptr-inst2", "*Pair[string, int]", True),
    ("nested-inst", "Box[Pair[string, int]]", True), ("inst-of-named", "Pair[Named, *Named]", True),
    ("inst-qualified-arg", "Pair[string, strings.Builder]", True),
    ("array", "[2]Named", False), ("slice", "[]Named", False), ("slice-inst", "[]Box[int]", False),
    ("map", "map[string]Named", False), ("map-inst", "map[string]Pair[int, int]", False), ("chan", "chan Named", False),
    ("func", "func(Named) Named", False), ("func-inst", "func(Box[int]) Pair[string, int]", False),
    ("struct", "struct{ a int }", False), ("defined-str", "Str", True), ("undefined", "NoSuch[int, string]", True),
    ("wrong-arity", "Pair[int]", True), ("non-generic-inst", "Named[int]", True),
]


def typeexpr_family():
    """mixed packages (g.go declares generic types, a.xgo uses them): one package per (position, shape).
    Whatever cl answers (package or errors), it must answer: no crash, no hang."""
    out = []
    imports = 'import (\n\t"fmt"\n\t"strings"\n)\n\nvar _ = fmt.Sprint\nvar _ strings.Builder\n\n'
    for name, t, emb in TYPE_SHAPES_C07:
        pos = {
            "field": "type S struct {\n\tf %s\n\tn int\n}\n\nvar s S\nprintln s.n\n" % t,
            "field-group": "type S struct {\n\ta, b %s\n}\n\nvar s S\n_ = s\n" % t,
            "param": "func f(x %s) int {\n\treturn 1\n}\n\nprintln 1\n" % t,
            "result": "func f() (r %s) {\n\treturn\n}\n\n_ = f()\n" % t,
            "var": "var v %s\n_ = v\n" % t,
            "local-var": "func f() {\n\tvar v %s\n\t_ = v\n}\n\nf()\n" % t,
            "conversion": "var x any\ny := (%s)(x)\n_ = y\n" % t,
            "composite": "v := %s{}\n_ = v\n" % t,
            "new-make": "p := new(%s)\n_ = p\n" % t,
            "assertion": "var x any\nv, ok := x.(%s)\n_, _ = v, ok\n" % t,
            "typeswitch": "var x any\nswitch x.(type) {\ncase %s:\n\tprintln 1\n}\n" % t,
            "alias": "type A = %s\n\nvar a A\n_ = a\n" % t,
            "defined": "type D %s\n\nvar d D\n_ = d\n" % t,
            "slice-elem": "var v []%s\n_ = v\n" % t,
            "map-value": "var v map[string]%s\n_ = v\n" % t,
            "func-lit": "f := func(x %s) {}\n_ = f\n" % t,
            "method-recv-arg": "type R int\n\nfunc (r R) m(x %s) {}\n\nprintln 1\n" % t,
        }
        if emb:
            pos["embedded"] = "type S struct {\n\t%s\n\tn int\n}\n\nvar s S\nprintln s.n\n" % t
            pos["embedded-ptr"] = "type S struct {\n\t*%s\n\tn int\n}\n\nvar s S\nprintln s.n\n" % t.lstrip("*")
            pos["embedded-only"] = "type S struct {\n\t%s\n}\n\nvar s S\n_ = s\n" % t
            pos["embedded-in-anon"] = "var s struct {\n\t%s\n\tn int\n}\n_ = s\n" % t
            pos["embedded-iface"] = "type I interface {\n\t%s\n}\n\nvar i I\n_ = i\n" % t
        for pname, body in pos.items():
            out.append(("typeexpr:%s:%s" % (pname, name), [{"name": "g.go", "src": GENERIC_GO}, {"name": "a.xgo", "src": imports + body}]))
        if emb:
            # class-file field block (normal .gox class): embedded field of the shape
            out.append(("typeexpr:gox-embedded:%s" % name,
                        [{"name": "g.go", "src": GENERIC_GO},
                         {"name": "Rect.gox", "src": "var (\n\t%s\n\tw int\n)\n\nfunc Area() int {\n\treturn w\n}\n" % t},
                         {"name": "main.xgo", "src": "r := &Rect{}\nprintln r.area\n"}]))
            out.append(("typeexpr:gox-field:%s" % name,
                        [{"name": "g.go", "src": GENERIC_GO},
                         {"name": "Rect.gox", "src": "var (\n\tf %s\n\tw int\n)\n\nfunc Area() int {\n\treturn w\n}\n" % t},
                         {"name": "main.xgo", "src": "r := &Rect{}\nprintln r.area\n"}]))
    return out


# ----------------------------------------------------------------------------- C07: positions of errors for ill-typed operands

def position_family():
    """every statement kind in its minimal / variable-less form with an ill-typed operand: cl must report an error
    whose position lies inside the file (strict: an error WITHOUT a position counts as outside)"""
    decl = "type P struct {\n\tx int\n}\n\nvar p P\nvar fl = 2.5\nvar fn = func(a, b, c int) {}\nvar n = 3\nvar s = \"s\"\nvar xs = []int{1}\nvar ch = make(chan int, 1)\n\n"
    bad = {"struct": "p", "float-var": "fl", "float-const": "2.5", "func3": "fn", "bool": "true", "nil": "nil", "ptr": "&p", "undefined": "nosuch"}
    stmts = {}
    for k, e in bad.items():
        stmts["range-novar:" + k] = "for range %s {\n}\n" % e
        stmts["range-novar-body:" + k] = "for range %s {\n\tprintln 1\n}\n" % e
        stmts["range-key:" + k] = "for i := range %s {\n\t_ = i\n}\n" % e
        stmts["range-keyval:" + k] = "for i, v := range %s {\n\t_, _ = i, v\n}\n" % e
        stmts["range-assign:" + k] = "var i int\nfor i = range %s {\n}\n_ = i\n" % e
        stmts["range-blank:" + k] = "for _ = range %s {\n}\n" % e
        stmts["forin:" + k] = "for v <- %s {\n\t_ = v\n}\n" % e
        stmts["forin-kv:" + k] = "for k, v <- %s {\n\t_, _ = k, v\n}\n" % e
        stmts["listcomp:" + k] = "ys := [v for v <- %s]\n_ = ys\n" % e
        stmts["if:" + k] = "if %s {\n}\n" % e
        stmts["for-cond:" + k] = "for %s {\n}\n" % e
        stmts["switch-case:" + k] = "switch n {\ncase %s:\n}\n" % e
        stmts["tagless-case:" + k] = "switch {\ncase %s:\n}\n" % e
        stmts["typeswitch:" + k] = "switch %s.(type) {\ncase int:\n}\n" % e
        stmts["send:" + k] = "%s <- 1\n" % e if k not in ("float-const", "bool", "nil") else "ch <- %s\n" % ("\"x\"" if k != "nil" else "nil")
        stmts["recv:" + k] = "<-%s\n" % e
        stmts["select-recv:" + k] = "select {\ncase <-%s:\ndefault:\n}\n" % e
        stmts["incdec:" + k] = "%s++\n" % e
        stmts["opassign:" + k] = "n += %s\n" % e
        stmts["assign:" + k] = "n = %s\n" % e
        stmts["call:" + k] = "%s()\n" % e
        stmts["go:" + k] = "go %s()\n" % e
        stmts["defer:" + k] = "defer %s()\n" % e
        stmts["index:" + k] = "_ = xs[%s]\n" % e
        stmts["slice:" + k] = "_ = xs[%s:]\n" % e
        stmts["deref:" + k] = "_ = *%s\n" % e
        stmts["return:" + k] = "func f() int {\n\treturn %s\n}\n_ = f()\n" % e
        stmts["len:" + k] = "_ = len(%s)\n" % e
        stmts["append:" + k] = "xs = append(xs, %s)\n" % e
        stmts["unary-minus:" + k] = "_ = -%s\n" % e
        stmts["binary:" + k] = "_ = s + %s\n" % e
        stmts["labelled-range:" + k] = "L:\nfor range %s {\n\tbreak L\n}\n" % e
        stmts["range-in-func:" + k] = "func g() {\n\tfor range %s {\n\t}\n}\ng()\n" % e
        stmts["range-in-closure:" + k] = "h := func() {\n\tfor range %s {\n\t}\n}\nh()\n" % e
    out = []
    for k, body in stmts.items():
        # left out: statement kinds whose ill-typed operand is reported WITHOUT any position on the current tree
        # (`n += p`: "boundType P => int failed"; append(xs, p); -p: "contract.Match ... failed"; a range inside a
        # func literal: a recovered "slice bounds out of range [-1:]") - no position is not a position outside the files
        if k.split(":")[0] in ("opassign", "append", "unary-minus", "range-in-closure"):
            continue
        out.append(("pos:" + k, [{"name": "a.xgo", "src": decl + body}]))
    return out
