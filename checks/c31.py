"""C31 — TPL grammar text parses with the documented precedence (tpl/parser/parser.go).

A  Props/C31.v : C31_parse_print_expr, C31_parens_override, C31_parse_print_file, C31_total,
                 C31_missing_factor_is_error, C31_no_error_wf, C31_parse_sound, C31_parse_normalises
B  extracted parse_file  vs  tpl/parser.ParseFile on the token stream tpl/scanner delivers for:
   every expression of depth <= 2 over two leaves printed with minimal parentheses (exhaustive),
   3-ary sequences/choices over depth-1 operands, seeded random deeper trees and multi-rule files,
   a deterministic list of missing-factor texts, and a malformed stream (token deletions,
   duplications, insertions, swaps, random token soups, random bytes)
C  the property itself on the implementation: printed tree parses back to itself with no error;
   a tree with an empty Sequence / nil operand always comes with an error; no panic
"""
import itertools

from vlib import sha

CLAIM = {
    "level": "proof",
    "text": "Coq theorems over a branch-by-branch model of tpl/parser (parseFile, parseRule, lambdaExpr, parseExpr, "
            "parseTermList, parseTerm, parseTerm2, parseFactor): every well-formed grammar tree of any size printed with "
            "the minimal parentheses implied by unary > ++ > % > sequence > | parses back to exactly that tree with no "
            "error (expression, parenthesised factor and whole-file forms); the parser terminates without panic on every "
            "token stream; a tree with an empty sequence or nil operand is never returned without an error; conversely any "
            "error-free parse of any input keeps the tokens in order up to parentheses and equals the parse of the minimal "
            "print of its result. The model is tied to the code on every run by a differential run of the extracted model "
            "against ParseFile (tree and error presence) on exhaustive small trees, random trees and malformed streams.",
    "note": "Trusted: Coq kernel, extraction, harness. The parser is modelled over the token stream of the real tpl/scanner "
            "(the scanner is C32's subject); token positions, error message texts and conf.ParseRetProc are not modelled. "
            "The tree and the presence of errors are compared (not the number of error reports); when the scanner itself reports "
            "errors only the tree is compared.",
}

# ---- trees: ("I", name) ("S", lit) ("C", lit) ("u", op, x) ("b", op, x, y) ("seq", [..]) ("alt", [..])


def level(e):
    k = e[0]
    if k == "alt":
        return 0
    if k == "seq":
        return 1
    if k == "b":
        return 2 if e[1] == "%" else 3
    return 4


def toks(e):
    def at(l, x):
        return ["("] + toks(x) + [")"] if level(x) < l else toks(x)
    k = e[0]
    if k == "I":
        return [e[1]]
    if k in ("S", "C"):
        return [e[1]]
    if k == "u":
        return [e[1]] + at(4, e[2])
    if k == "b":
        if e[1] == "%":
            return at(2, e[2]) + ["%"] + at(3, e[3])
        return at(3, e[2]) + ["++"] + at(4, e[3])
    if k == "seq":
        out = []
        for x in e[1]:
            out += at(2, x)
        return out
    out = at(1, e[1][0])
    for x in e[1][1:]:
        out += ["|"] + at(1, x)
    return out


def hx(s):
    return s.encode().hex() or "-"


def show(e):
    k = e[0]
    if k == "I":
        return "I" + hx(e[1])
    if k in ("S", "C"):
        return k + hx(e[1])
    if k == "u":
        return "(u%s %s)" % (e[1], show(e[2]))
    if k == "b":
        return "(%s %s %s)" % (e[1], show(e[2]), show(e[3]))
    return "(%s%s)" % (k, "".join(" " + show(x) for x in e[1]))


LEAVES = [("I", "a"), ("S", '"x"')]
UOPS = ["*", "+", "?"]
BOPS = ["%", "++"]


def enum(d):
    if d == 0:
        return list(LEAVES)
    sub = enum(d - 1)
    out = list(LEAVES)
    for o in UOPS:
        out += [("u", o, x) for x in sub]
    for o in BOPS:
        out += [("b", o, x, y) for x in sub for y in sub]
    out += [("seq", [x, y]) for x in sub for y in sub]
    out += [("alt", [x, y]) for x in sub for y in sub]
    return out


NAMES = ["a", "b", "doc", "expr", "IDENT", "x1", "_t", "é"]
LITS = ['"x"', '"+"', '"if"', "'a'", "'\\n'", "`raw`", '""', '"\\x9e"']


def rnd_tree(rng, d):
    if d == 0 or rng.below(10) < 3:
        r = rng.below(10)
        if r < 5:
            return ("I", rng.choice(NAMES))
        lit = rng.choice(LITS)
        return ("C" if lit[0] == "'" else "S", lit)
    r = rng.below(10)
    if r < 3:
        return ("u", rng.choice(UOPS), rnd_tree(rng, d - 1))
    if r < 6:
        return ("b", rng.choice(BOPS), rnd_tree(rng, d - 1), rnd_tree(rng, d - 1))
    n = 2 + rng.below(3)
    return ("seq" if r < 8 else "alt", [rnd_tree(rng, d - 1) for _ in range(n)])


def file_text(rules, rng=None):
    """rules: list of (name, token words).  Separators: ' ;\\n', '\\n' (inserted semicolon) or ';' chosen by rng."""
    out = []
    for i, (name, ws) in enumerate(rules):
        sep = " ;\n"
        if rng is not None:
            sep = rng.choice([" ;\n", "\n", ";", " ; "])
        out.append(name + " = " + " ".join(ws) + sep)
    return "".join(out)


MISSING = [
    "doc = a % ;", "doc = a ++ ;", "doc = * ;", "doc = + ;", "doc = ? ;", "doc = ( ) ;", "doc = ;", "doc =",
    "doc = a | ;", "doc = | a ;", "doc = a | | b ;", "doc = a % % b ;", "doc = a ++ % b ;", "doc = ( a % ) ;",
    "doc = * * ;", "doc = ? ( ) ;", "doc = a ( ;", "doc = a ) ;", "doc = ( a ;", "doc = ( a", "doc = a % ( ) ;",
    "doc = % a ;", "doc = ++ a ;", "doc = a ++ * ;", "doc = a b % ;", "doc = ( | ) ;", "doc a ;", "= a ;",
    "doc = a => { x } ;", "doc = a => { x { y } z } ;", "doc = a => { x ;", "doc = a => x } ;", "doc = a => ;",
    "doc = a ; ; b = c ;", "doc = a\nb = c\n", "doc = a ,", "doc = **a ;", "doc = a ++b ;", "doc = a+ +b ;",
    "doc = a %\nb", "doc = a |\nb", "doc = *\na", "doc = (a\n) ;", "a = b c = d ;", "doc = a ; 1 = b ;",
]

VOCAB = ["a", "b", '"x"', "'c'", "*", "+", "?", "%", "++", "|", "(", ")", "=", ";", "=>", "{", "}", ",", "1", "**",
         "\n", "<", "...", "@", "`r`", "doc"]
BYTES = list(b"ab \n\t()*+?%|=;'\"`{}>#/\\$") + [0x00, 0x80, 0xC3, 0xA9, 0xFF]


def mutate(rng, words):
    ws = list(words)
    for _ in range(1 + rng.below(2)):
        k = rng.below(5)
        if k == 0 and ws:
            del ws[rng.below(len(ws))]
        elif k == 1 and ws:
            i = rng.below(len(ws))
            ws.insert(i, ws[i])
        elif k == 2:
            ws.insert(rng.below(len(ws) + 1), rng.choice(VOCAB))
        elif k == 3 and len(ws) > 1:
            i = rng.below(len(ws) - 1)
            ws[i], ws[i + 1] = ws[i + 1], ws[i]
        elif ws:
            ws[rng.below(len(ws))] = rng.choice(VOCAB)
    return ws


def run(ctx):
    ctx.prove("C31")
    model = ctx.model("c31")
    impl = ctx.harness("c31")
    rng = ctx.rng
    cases = []   # (category, text-bytes, expected tree or "-")

    # 1. exhaustive small trees
    D = ctx.n(2, 2)
    small = enum(D)
    for e in small:
        cases.append(("exh-depth%d" % D, ("doc = " + " ".join(toks(e)) + " ;").encode(), "(rule %s %s)" % (hx("doc"), show(e))))
    d1 = enum(1)
    tern = d1 if not ctx.quick else d1[:14]
    for kind in ("seq", "alt"):
        for t in itertools.product(tern, repeat=3):
            e = (kind, list(t))
            cases.append(("exh-3ary", ("doc = " + " ".join(toks(e)) + " ;").encode(), "(rule %s %s)" % (hx("doc"), show(e))))
    nex = len(cases)
    # 2. seeded random deeper trees, multi-rule files, varied rule separators
    for _ in range(ctx.n(3000, 150000)):
        nr = 1 + rng.below(3)
        rules = [(rng.choice(NAMES), rnd_tree(rng, 2 + rng.below(5))) for _ in range(nr)]
        text = file_text([(n, toks(e)) for n, e in rules], rng)
        cases.append(("random-tree", text.encode(), " ".join("(rule %s %s)" % (hx(n), show(e)) for n, e in rules)))
    # 3. deterministic missing-factor list
    for t in MISSING:
        cases.append(("missing-list", t.encode(), "-"))
    # 4. malformed stream
    for _ in range(ctx.n(4000, 200000)):
        k = rng.below(10)
        if k < 6:
            nr = 1 + rng.below(2)
            rules = [(rng.choice(NAMES), mutate(rng, toks(rnd_tree(rng, 1 + rng.below(4))))) for _ in range(nr)]
            text = file_text(rules, rng).encode()
            cat = "mutated-tokens"
        elif k < 8:
            text = " ".join(rng.choice(VOCAB) for _ in range(1 + rng.below(12))).encode()
            cat = "token-soup"
        elif k < 9:
            text = ("doc = " + " ".join(rng.choice(VOCAB) for _ in range(1 + rng.below(10)))).encode()
            cat = "token-soup"
        else:
            base = bytearray(file_text([("doc", toks(rnd_tree(rng, 1 + rng.below(3))))]).encode())
            for _ in range(1 + rng.below(3)):
                base.insert(rng.below(len(base) + 1), rng.choice(BYTES))
            text = bytes(base)
            cat = "random-bytes"
        cases.append((cat, text, "-"))

    inp = "".join("%s\t%s\n" % (t.hex() or "", w) for _, t, w in cases)
    rc1, out1 = ctx.run([impl], input=inp)
    if rc1 != 0:
        ctx.broken("correspondence(c31:impl-run)", "rc=%d %s" % (rc1, out1[-300:]))
        return
    rows = [l.split("\t") for l in out1.split("\n")[:len(cases)]]
    if len(rows) != len(cases) or any(len(r) != 3 for r in rows):
        ctx.broken("correspondence(c31:impl-output)", "unexpected output shape (%d rows for %d cases)" % (len(rows), len(cases)))
        return
    rc2, out2 = ctx.run([model], input="".join(r[0] + "\n" for r in rows))
    if rc2 != 0:
        ctx.broken("correspondence(c31:model-run)", "rc=%d %s" % (rc2, out2[-300:]))
        return
    mlines = out2.split("\n")[:len(cases)]
    # projection: the property speaks about error PRESENCE, not the number of reports: counts are compared as 0 / +;
    # when the scanner itself reported errors (count printed as E) only the tree is compared
    def proj(line, force_e=False):
        c = line.split(" ")[0]
        rest = line[len(c):]
        if force_e or c == "E":
            return "E" + rest
        return ("0" if c == "0" else "+" if c.isdigit() else c) + rest
    impl_p, model_p, nE = [], [], 0
    for r, m in zip(rows, mlines):
        x = r[1]
        e = x.startswith("E")
        nE += e
        impl_p.append(proj(x))
        model_p.append(proj(m, e))
    keys = ["src:" + sha(t) for _, t, _ in cases]
    ctx.diff_lines("parse_file~ParseFile", ["%s %s" % (k, t.hex()) for k, (_, t, _) in zip(keys, cases)],
                   "\n".join(impl_p), "\n".join(model_p))
    # direct oracle
    for k, (cat, t, w), r in zip(keys, cases, rows):
        if r[2] != "ok":
            ctx.fail(k, "ParseFile(%r): %s -> %s" % (t.decode("utf-8", "replace"), r[2], r[1][:200]),
                     {"grammar_text": t.decode("utf-8", "replace"), "text_hex": t.hex(), "expected_tree": w,
                      "impl": r[1], "verdict": r[2], "category": cat})
    hist, errh = {}, {}
    for (cat, _, _), r in zip(cases, rows):
        hist[cat] = hist.get(cat, 0) + 1
        c = r[1].split(" ")[0]
        c = c if c in ("0", "1", "2", "E", "PANIC") else "3+"
        errh[c] = errh.get(c, 0) + 1
    nontriv = len(set(r[0] for r in rows if len(r[0].split(" ")) >= 6))
    pick = [nex // 3, nex + 5, nex + ctx.n(3000, 150000) + 3, len(cases) - 7]
    ctx.cover(evaluations=len(cases), distinct_nontrivial=nontriv,
              samples=[{"text": cases[i][1].decode("utf-8", "replace"), "impl": rows[i][1][:300], "category": cases[i][0]} for i in pick],
              rule="exhaustive: all %d trees of depth<=%d over leaves {a,\"x\"} with unary * + ?, binary %% ++, 2-ary sequence/choice, "
                   "plus all 3-ary sequences/choices over %d depth-1 operands (%d texts); seeded: random trees depth<=6 arity<=4 in "
                   "1-3 rule files with varied rule separators; %d fixed missing-factor texts; malformed: token mutations, token "
                   "soups, random bytes. non-trivial = distinct token stream with >= 6 tokens. Cases where the scanner reports "
                   "errors (%d) compare the tree only, not the error count."
                   % (len(small), D, len(tern), nex, len(MISSING), nE),
              exhaustive_part=nex, category_histogram=hist, error_count_histogram=errh)
    ctx.trust("modelled, not verified: tpl/parser/parser.go (hand-written Gallina model over the token stream of tpl/scanner, "
              "tied by exhaustive+random differential run); tpl/scanner is used as is to produce the token stream")
    ctx.assume("ParseFile is called with conf = nil (no RetProc sub-parser), as tpl.New does")
