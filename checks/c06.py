"""C06 — compiler success implies valid, well-typed Go output (cl/compile.go, cl/expr.go, cl/stmt.go).

A  Props/C06.v: a typed sugar calculus (list comprehension with/without filter, f(a)?:d, f(a)!) and
   its lowering to a Go core with closures, as cl emits it: lower_preserves_typing (in any Go scope
   agreeing on user identifiers), lower_closed, fresh_names_disjoint, capture_refuted.
B  K-diff (shape): random well-typed terms of the calculus are compiled by the real compiler as
   `vK := <term>`; the Go it writes for vK must be the model's lowering (canonical S-expressions).
C  direct oracle  err == nil  =>  the written Go parses, is accepted by go/types (in-process) and,
   for a sample, by `go build`:
   - named witnesses of the classes of Go-only checks cl does not perform (known findings);
   - a deterministic near-miss enumeration (fixed bases in corpus/C06 + /repo corpus files, fixed
     mutation stream): every failing mutant must be listed by content hash;
   - seeded well-typed programs (Go subset and XGo sugar) and the calculus programs of B, on which
     the property holds: any failure is a violation.
"""
import json
import os
from concurrent.futures import ThreadPoolExecutor

import vlib
from checks import g9diag, g9gen, g9prog

CLAIM = {
    "level": "other",
    "text": "Kernel theorem in Coq: on a typed sugar calculus (comprehensions, error wrapping) lowered to a Go core with "
            "closures exactly as cl lowers it, a well-typed sugar term whose identifiers are not the reserved temporaries "
            "lowers to a Go term of the same type in every Go scope that agrees on the user identifiers (no escape, no clash); "
            "the name hypothesis is shown necessary. The lowering model is compared with the Go the real compiler writes on "
            "every run. For the rest of the compiler the property is explored: every generated program and near-miss mutant is "
            "compiled, the written Go is parsed and type-checked with go/types, a sample is built with the Go toolchain.",
    "note": "Modelled, not verified: compileListComprehensionExpr / compileErrWrapExpr output shapes. The property is known "
            "to FAIL for whole classes of checks that only the Go compiler performs (unused variables, missing "
            "return, break/continue placement, duplicate methods/params/map keys, constant index bounds, untyped nil, unused "
            "results, capture of a user variable named _gop_ret, func without body, mixed map literal): listed findings with "
            "deterministic witnesses; the seeded random part only generates programs that avoid them.",
}

WITNESSES = {
    "unused-var": "func f() {\n\tx := 1\n}\nf()\n",
    "unused-var-multi-assign": "n, bb := 1, true\nprintln n\n",
    # repaired in /repo 3907ee6 (now `for range xs`): kept as regression inputs, no longer listed findings
    "blank-forin": "xs := [1, 2]\nfor _ <- xs {\n\tprintln 1\n}\n",
    "blank-comprehension": "xs := [1, 2]\nprintln [1 for _ <- xs]\n",
    "comprehension-unused-var": "xs := [1, 2]\nprintln [0 for x <- xs]\n",
    "typeswitch-unused": "var v any = 1\nswitch t := v.(type) {\ncase int:\n}\n",
    "missing-return": "func f(x int) int {\n\tif x > 0 {\n\t\treturn 1\n\t}\n}\nprintln f(1)\n",
    "break-outside-loop": "func f() {\n\tbreak\n}\nf()\n",
    "continue-outside-loop": "func f() {\n\tcontinue\n}\nf()\n",
    "continue-label-nonloop": "func f() {\nL:\n\tif true {\n\t\tfor {\n\t\t\tcontinue L\n\t\t}\n\t}\n}\nf()\n",
    "fallthrough-final-case": "x := 1\nswitch x {\ncase 1:\n\tfallthrough\n}\n",
    "duplicate-method": "type T int\nfunc (t T) m() {}\nfunc (t T) m() {}\nvar t T\nprintln t\n",
    "duplicate-param": "func f(a, a int) int {\n\treturn a\n}\nprintln f(1, 2)\n",
    "goto-over-var": "func f() {\n\tgoto L\n\tx := 1\n\t_ = x\nL:\n\tprintln 1\n}\nf()\n",
    "recursive-struct": "type U struct {\n\tU\n}\nvar y U\nprintln y\n",
    "untyped-nil": "x := nil\nprintln x\n",
    "unused-expression": "x := 1\nx\n",
    "unused-result": "func f() int { return 1 }\nf() + 1\n",
    "duplicate-map-key": "m := {\"a\": 1, \"a\": 2}\nprintln m\n",
    "const-index-out-of-bounds": "a := [3]int{1, 2, 3}\nprintln a[5]\n",
    "const-index-negative": "a := []int{1, 2, 3}\nprintln a[-1]\n",
    "gop-ret-capture": "xs := [1, 2]\n_gop_ret := 5\na := [_gop_ret + x for x <- xs]\nprintln a, _gop_ret\n",
    "bodiless-func-writeto": "func f(x int) int\n\nprintln f(1)\n",
    "mixed-maplit-writeto": "v := {\"e\", \"b\": 1}\nprintln v\n",
}


import re
KNOWN_CLASS = re.compile(r"declared and not used|imported and not used|missing return|is not used|label \S+ (defined|declared) and not used")
UNKNOWN_CLASS_HINT = re.compile(r"cannot use|mismatched|undefined|duplicate|invalid operation|cannot convert")


def chunks_run(ctx, impl, exports, lines, extra=(), nproc=4):
    parts = [lines[i::nproc] for i in range(nproc)]

    def one(ls):
        if not ls:
            return 0, ""
        return ctx.run([impl, "-exports", exports, "-mode", "verdict"] + list(extra), input="\n".join(ls) + "\n", timeout=600)
    with ThreadPoolExecutor(max_workers=nproc) as ex:
        outs = list(ex.map(one, parts))
    res = {}
    for rc, out in outs:
        if rc != 0:
            raise RuntimeError("h_c06 rc=%d: %s" % (rc, out[-400:]))
        for l in out.splitlines():
            f = l.split("\t")
            if len(f) >= 3:
                res[f[0]] = (f[1], f[2], f[3] if len(f) > 3 else "", f[4] if len(f) > 4 else "-")
    return res


def run(ctx):
    ctx.level = CLAIM["level"]
    ctx.prove("C06")
    model = ctx.model("c06")
    impl = ctx.harness("c06")
    exports = g9gen.export_table(ctx, vlib)
    ctx.log("built")

    # ---------------- B: shape K-diff
    tg = g9gen.TermGen(ctx.rng)
    nterms = ctx.n(1000, 30000)
    terms = [tg.term() for _ in range(nterms)]
    rc, mout = ctx.run([model], input="\n".join(t[1][0] for t in terms) + "\n")
    mlines = mout.splitlines()
    if rc != 0 or len(mlines) != nterms:
        ctx.broken("correspondence(c06:model-run)", "rc=%d lines=%d/%d %s" % (rc, len(mlines), nterms, mout[-300:]))
        return
    bad_model = [(t, o) for t, o in zip(terms, mlines) if o.startswith(("ILL", "BAD")) or o.split("\t")[0] != t[0] or o.split("\t")[2] != t[0]]
    if bad_model:
        # the model's own type checkers disagree with the generator's intended type, or the lowered term is ill-typed
        ctx.broken("model(c06:typed-terms)", "generated term not typed as intended by the model: %s -> %s" % (bad_model[0][0], bad_model[0][1][:200]))
    per = 10
    slines = []
    for i in range(0, nterms, per):
        slines.append(json.dumps({"id": "b%d" % i, "exprs": [t[1][1] for t in terms[i:i + per]],
                                  "models": [o.split("\t")[1] if "\t" in o else "0" for o in mlines[i:i + per]]}))
    nproc = 4
    parts = [slines[i::nproc] for i in range(nproc)]
    with ThreadPoolExecutor(max_workers=nproc) as ex:
        outs = list(ex.map(lambda ls: ctx.run([impl, "-exports", exports, "-mode", "shape"], input="\n".join(ls) + "\n", timeout=600), parts))
    got = {}
    for rc, out in outs:
        if rc != 0:
            ctx.broken("correspondence(c06:shape-run)", "rc=%d %s" % (rc, out[-300:]))
            return
        for l in out.splitlines():
            f = l.split("\t")
            if len(f) >= 5:
                got[(f[0], int(f[1]))] = (f[2], f[3], f[4])
    impl_c, model_c, keys = [], [], []
    gv_shape = {}
    for i in range(0, nterms, per):
        for k in range(min(per, nterms - i)):
            g = got.get(("b%d" % i, k), ("!missing", "?", "-"))
            impl_c.append(g[0])
            model_c.append(g[1])
            keys.append(terms[i + k][1][1])
            if k == 0:
                gv_shape[g[2]] = gv_shape.get(g[2], 0) + 1
                if g[2] not in ("ok",):
                    ctx.fail("shape-program:" + vlib.sha("\n".join(t[1][1] for t in terms[i:i + per])),
                             "well-typed calculus program compiled without error but go/types verdict is %s" % g[2],
                             {"exprs": [t[1][1] for t in terms[i:i + per]], "how": "h_c06 -mode shape"})
    ctx.diff_lines("lower~cl(list comprehension, error wrapping)", keys, "\n".join(impl_c), "\n".join(model_c))
    ctx.log("shape: %d terms" % nterms)

    # ---------------- C: verdicts
    cases = []          # (id, files, group)
    for name, src in WITNESSES.items():
        cases.append(("witness:" + name, [{"name": "a.xgo", "src": src}], "witness"))
    # near-misses that cl diagnoses today (expected: cl reports an error) and the ones it does not (known findings)
    diag, undiag = g9diag.all_witnesses()
    for name, src in undiag.items():
        cases.append(("witness:" + name, [{"name": "main.xgo", "src": src}], "witness"))
    for name, src in diag.items():
        cases.append(("diag:" + name, [{"name": "main.xgo", "src": src}], "diag"))
    # mixed main packages under the DEFAULT config: main / init / other symbols in Go files vs XGo files; the written Go is
    # type-checked together with the package's .go files
    for name, files in g9diag.mixed_main_packages().items():
        cases.append(("mixed:" + name, files, "mixed"))
    # deterministic near-miss enumeration
    bases = []
    cdir = os.path.join(vlib.VERIF, "corpus", "C06")
    for n in sorted(os.listdir(cdir)):
        bases.append(("corpus/C06/" + n, open(os.path.join(cdir, n)).read()))
    for cid, files in g9gen.repo_corpus(vlib.REPO):
        if len(files) == 1 and files[0]["name"].endswith((".xgo", ".gop")):
            bases.append((cid, files[0]["src"]))
    drng = vlib.SplitMix(0xC06C06)
    ndet = 500
    for i in range(ndet):
        bid, src = bases[drng.below(len(bases))]
        m, kind = g9gen.mutate(src, drng)
        cases.append(("det:%d:%s:%s" % (i, kind, bid), [{"name": "main.xgo", "src": m}], "det"))
    for bid, src in bases:
        cases.append(("base:" + bid, [{"name": "main.xgo", "src": src}], "base"))
    # seeded valid programs
    nvalid = ctx.n(120, 3000)
    nbuild = ctx.n(10, 100)
    for i in range(nvalid):
        if i % 3 == 0:
            src, _ = g9prog.go_program(ctx.rng)
        else:
            src, _ = g9prog.xgo_program(ctx.rng)
        cases.append((("build:" if i < nbuild else "") + "valid:%d" % i, [{"name": "main.xgo", "src": src}], "valid"))
    lines = [json.dumps({"id": c[0], "files": c[1]}) for c in cases]
    outdir = os.path.join(ctx.scratch, "gobuild")
    os.makedirs(outdir)
    res = chunks_run(ctx, impl, exports, lines, extra=["-outdir", outdir])
    ctx.log("verdicts: %d packages" % len(cases))
    hist = {}
    group_hist = {}
    distinct = set()
    failing_det = []
    for cid, files, group in cases:
        cv, gv, detail, sv = res.get(cid, ("missing", "-", "", "-"))
        if group == "diag" and sv != "reject":
            # the witness is supposed to be a program Go rejects
            ctx.broken("witness(c06:%s)" % cid, "go/types verdict on the source is %s, expected reject" % sv)
        hist[cv + "/" + gv] = hist.get(cv + "/" + gv, 0) + 1
        group_hist.setdefault(group, {})
        group_hist[group][cv + "/" + gv] = group_hist[group].get(cv + "/" + gv, 0) + 1
        if cv in ("ok", "err"):
            distinct.add(g9gen.pkg_key(files))
        bad = cv == "ok" and gv != "ok"
        if cv == "panic":
            bad = True
        if cv == "missing":
            ctx.broken("search(c06:run)", "no verdict for %s" % cid)
        if bad and group == "valid" and gv == "reject" and KNOWN_CLASS.search(detail) and not UNKNOWN_CLASS_HINT.search(detail):
            # a seeded "valid" program that Go rejects only for a check cl is known not to perform (unused variable/import/
            # label, missing return): the GENERATOR emitted a program outside its contract; counted, not a violation
            hist["valid-program-outside-contract"] = hist.get("valid-program-outside-contract", 0) + 1
            ctx.notes.setdefault("generator_contract_misses", []).append({"id": cid, "go_types": detail[:200]})
            continue
        if bad:
            key = cid.split(":", 1)[1] if group == "witness" else g9gen.pkg_key(files)
            what = "%s: cl.NewPackage err == nil but the written Go is rejected (%s): %s" % (cid, gv, detail[:300])
            ctx.fail(key, what, {"files": files, "cl": cv, "go": gv, "detail": detail})
            if group == "det":
                failing_det.append((key, cid, detail))
    ctx.notes["deterministic_enumeration_failures"] = [{"key": k, "case": c, "go_types": d[:200]} for k, c, d in failing_det]

    # go build of the sample
    built = sorted(os.listdir(outdir))
    if built:
        # the written Go may import github.com/qiniu/x/... (string interpolation, error frames): same version as /repo
        import re
        import shutil
        m = re.search(r"github.com/qiniu/x\s+(v[0-9.]+)", open(os.path.join(vlib.REPO, "go.mod")).read())
        open(os.path.join(outdir, "go.mod"), "w").write("module c06sample\n\ngo 1.18\n\nrequire github.com/qiniu/x %s\n" % (m.group(1) if m else "v1.15.0"))
        shutil.copy(os.path.join(vlib.REPO, "go.sum"), os.path.join(outdir, "go.sum"))
        rc, out = ctx.run("go build ./... 2>&1", cwd=outdir, timeout=900, mem_kb=16000000)
        ctx.log("go build of %d programs rc=%d" % (len(built), rc))
        if rc != 0:
            badp = sorted(set(re.findall(r"^(?:\./)?(build_valid_\d+)/main\.go", out, re.M)))
            for b in badp[:5] or ["?"]:
                src = ""
                try:
                    src = open(os.path.join(outdir, b, "main.go")).read()
                except Exception:
                    pass
                ctx.fail("build:" + vlib.sha(src), "cl.NewPackage err == nil, go/types ok, but `go build` fails: %s" % out[:600],
                         {"go": src, "go_build_output": out[:3000]})
    ctx.cover(evaluations=nterms + len(cases), distinct_nontrivial=len(set(keys)) + len(distinct),
              samples=[{"term": terms[0][1][1], "impl": impl_c[0][:300], "model": model_c[0][:300]},
                       {"case": cases[len(WITNESSES) + 20][0], "verdict": res.get(cases[len(WITNESSES) + 20][0])},
                       {"case": cases[-1][0], "verdict": res.get(cases[-1][0])}],
              rule="shape K-diff: %d seeded well-typed terms of the calculus (depth <= 5; %s) compiled 10 per program; verdicts: %d packages = "
                   "%d named witnesses of known classes (cl reports success) + %d systematic near-misses that cl diagnoses today (type-switch duplicates over "
                   "20 type shapes x 3 placements, expression-switch duplicates incl. 117 over interface-typed tags (2-3 types per value, typed/untyped/"
                   "named constants and conversions, every placement of the duplicated pair, across clauses and within a list), redeclarations of fields/labels/locals/package objects, 90 typing "
                   "errors; expected verdict: cl error; Go's rejection of each source is re-checked) + %d deterministic near-miss mutants (fixed stream over %d fixed bases: corpus/C06 and "
                   "single-file /repo corpus packages) + the bases + %d seeded valid programs (1/3 Go subset, 2/3 XGo sugar; %d also built with "
                   "`go build`); non-trivial = distinct package that reached the compiler (cl verdict ok or err). The seeded part does NOT "
                   "generate: unused variables/labels, unused comprehension variables, missing returns, misplaced break/continue/"
                   "fallthrough, duplicate methods/params/keys, constant out-of-range indexes, untyped nil, unused results, identifiers "
                   "_gop_ret/_gop_err, bodiless funcs, mixed map literals (known findings, deterministic witnesses only)."
                   % (nterms, ", ".join("%s=%d" % kv for kv in sorted(tg.shape.items())), len(cases), len(WITNESSES) + len(undiag), len(diag), ndet, len(bases), nvalid, len(built)),
              explanation="kernel type-preservation theorem + shape K-diff of the lowering + go/types and go build verdicts on generated and near-miss packages",
              verdict_histogram=hist, verdict_by_group=group_hist, shape_program_gotypes=gv_shape, term_shape_histogram=tg.shape)
    ctx.assume("go/types (in-process, gc export data of the toolchain) and `go build` of go1.23.5 stand for 'the Go toolchain accepts'",
               "user identifiers of the calculus are not the reserved temporaries _gop_ret/_gop_err (hypothesis names_ok; necessary: C06_capture_refuted)")
    ctx.trust("modelled, not verified: the shapes cl emits for list comprehensions and error wrapping (compared with the real output on every run); "
              "explored only: all other lowering and checking done by cl and gogen")
