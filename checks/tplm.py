"""Shared machinery of the M-TPL checks (C27, C28, C29): grammar/input generators, an independent
python reference of the README semantics (direct oracle), and the scan -> model -> match pipeline.

Grammar trees (python side):
  ("tok", NAME)            token class  IDENT INT FLOAT CHAR STRING QSTRING RAWSTRING ...
  ("kw", text)             "if"  -> Literal(IDENT, text)
  ("op", text, quote)      "+" / '+' -> Token(op)
  ("true",)                ""
  ("space",)               SPACE
  ("ref", name)            rule reference
  ("seq", [..]) ("alt", [..]) ("*", x) ("+", x) ("?", x) ("%", x, y) ("++", x, y)
"""
from vlib import sha

TOKCLASS = {"IDENT": 4, "INT": 5, "FLOAT": 6, "IMAG": 7, "CHAR": 8, "STRING": 9, "RAT": 10, "UNIT": 11,
            "LPAREN": 40, "RPAREN": 41, "LBRACK": 91, "RBRACK": 93, "LBRACE": 123, "RBRACE": 125}
OPS = {"+": 43, "-": 45, "*": 42, "/": 47, "%": 37, ",": 44, "(": 40, ")": 41, "[": 91, "]": 93, ";": 59, ":": 58,
       "=": 61, "<": 60, ">": 62, "!": 33, "?": 63, ".": 46, "|": 124, "&": 38, "^": 94, "~": 126, "@": 64, "$": 36,
       "{": 123, "}": 125,
       "<<": 129, ">>": 130, "&^": 131, "+=": 132, "-=": 133, "*=": 134, "/=": 135, "%=": 136, "&=": 137, "|=": 138,
       "^=": 139, "<<=": 140, ">>=": 141, "&^=": 142, "&&": 143, "||": 144, "<-": 145, "++": 146, "--": 147, "==": 148,
       "!=": 149, "<=": 150, ">=": 151, ":=": 152, "...": 153, "=>": 154, "->": 155, "<>": 156, "**": 157}


# ---------------------------------------------------------------- printing (minimal parentheses)
def level(e):
    k = e[0]
    return {"alt": 0, "seq": 1, "%": 2, "++": 3}.get(k, 4)


def words(e):
    def at(l, x):
        return ["("] + words(x) + [")"] if level(x) < l else words(x)
    k = e[0]
    if k == "tok" or k == "ref":
        return [e[1]]
    if k == "kw":
        return ['"%s"' % e[1]]
    if k == "op":
        return [e[2] + e[1] + e[2]]
    if k == "true":
        return ['""']
    if k == "space":
        return ["SPACE"]
    if k in "*+?":
        return [k] + at(4, e[1])
    if k == "%":
        return at(2, e[1]) + ["%"] + at(3, e[2])
    if k == "++":
        return at(3, e[1]) + ["++"] + at(4, e[2])
    if k == "seq":
        out = []
        for x in e[1]:
            out += at(2, x)
        return out
    out = at(1, e[1][0])
    for x in e[1][1:]:
        out += ["|"] + at(1, x)
    return out


def grammar_text(rules):
    return "".join("%s = %s\n" % (n, " ".join(words(e))) for n, e in rules)


# ---------------------------------------------------------------- generators
LEAF_TOK = ["IDENT", "INT", "STRING", "IDENT", "INT", "CHAR", "FLOAT", "QSTRING", "RAWSTRING"]
LEAF_KW = ["if", "else", "x", "a"]
LEAF_OP = ["+", ",", "-", "(", ")", "*", "++", "<<=", "=>", ";"]


def gen_leaf(rng, names, self_i, recursive):
    r = rng.below(20)
    if r < 7:
        return ("tok", rng.choice(LEAF_TOK))
    if r < 10:
        return ("kw", rng.choice(LEAF_KW))
    if r < 15:
        op = rng.choice(LEAF_OP)
        q = "'" if len(op) == 1 and rng.below(3) == 0 else '"'
        return ("op", op, q)
    if r < 16:
        return ("space",)
    if r < 17:
        return ("true",) if recursive else ("tok", "INT")
    # rule reference: mostly to later rules (no recursion); any rule when `recursive`
    if recursive:
        return ("ref", rng.choice(names))
    later = names[self_i + 1:]
    return ("ref", rng.choice(later)) if later else ("tok", "IDENT")


def gen_expr(rng, d, names, self_i, recursive):
    if d == 0 or rng.below(10) < 3:
        return gen_leaf(rng, names, self_i, recursive)
    k = rng.choice(["seq", "seq", "alt", "alt", "*", "+", "?", "%", "++"])
    if k in ("seq", "alt"):
        return (k, [gen_expr(rng, d - 1, names, self_i, recursive) for _ in range(2 + rng.below(2))])
    if k in "*+?":
        return (k, gen_expr(rng, d - 1, names, self_i, recursive))
    return (k, gen_expr(rng, d - 1, names, self_i, recursive), gen_expr(rng, d - 1, names, self_i, recursive))


def gen_grammar(rng, recursive=False, depth=3):
    names = ["doc", "r1", "r2", "r3"][:1 + rng.below(4)]
    return [(n, gen_expr(rng, 1 + rng.below(depth), names, i, recursive)) for i, n in enumerate(names)]


SAMPLE = {"IDENT": ["a", "foo", "if", "x"], "INT": ["1", "42"], "FLOAT": ["1.5"], "CHAR": ["'c'"], "STRING": ['"s"', "`r`"],
          "QSTRING": ['"q"'], "RAWSTRING": ["`r`"], "IMAG": ["2i"], "RAT": ["3r"], "UNIT": ["1"],
          "LPAREN": ["("], "RPAREN": [")"], "LBRACK": ["["], "RBRACK": ["]"], "LBRACE": ["{"], "RBRACE": ["}"]}


def derive(rng, e, rules, depth=0):
    """a token-text list (text, glue_to_previous) that the grammar is meant to match"""
    k = e[0]
    if depth > 8:
        return []
    if k == "tok":
        return [[rng.choice(SAMPLE.get(e[1], ["a"])), False]]
    if k == "kw":
        return [[e[1], False]]
    if k == "op":
        return [[e[1], False]]
    if k in ("true", "space"):
        return []
    if k == "ref":
        body = dict(rules).get(e[1])
        return derive(rng, body, rules, depth + 1) if body is not None else []
    if k == "seq":
        out = []
        for x in e[1]:
            out += derive(rng, x, rules, depth + 1)
        return out
    if k == "alt":
        return derive(rng, rng.choice(e[1]), rules, depth + 1)
    if k == "?":
        return derive(rng, e[1], rules, depth + 1) if rng.below(2) else []
    if k in "*+":
        out = []
        for _ in range((1 if k == "+" else 0) + rng.below(3)):
            out += derive(rng, e[1], rules, depth + 1)
        return out
    if k == "%":
        out = derive(rng, e[1], rules, depth + 1)
        for _ in range(rng.below(3)):
            out += derive(rng, e[2], rules, depth + 1) + derive(rng, e[1], rules, depth + 1)
        return out
    a, b = derive(rng, e[1], rules, depth + 1), derive(rng, e[2], rules, depth + 1)
    if b:
        b[0][1] = True
    return a + b


NOISE = ["a", "1", ",", "+", '"s"', "`r`", "if", "(", ")", ";", "x", "'c'", "1.5", "++", "/*c*/", "-"]


def mutate_sentence(rng, sent):
    s = [list(t) for t in sent]
    for _ in range(rng.below(3)):
        k = rng.below(6)
        if k == 0 and s:
            del s[rng.below(len(s))]
        elif k == 1 and s:
            i = rng.below(len(s))
            s.insert(i, list(s[i]))
        elif k == 2 and len(s) > 1:
            i = rng.below(len(s) - 1)
            s[i], s[i + 1] = s[i + 1], s[i]
        elif k == 3 and s:
            i = rng.below(len(s))
            s[i][1] = not s[i][1]           # break or create adjacency
        elif k == 4:
            s.insert(rng.below(len(s) + 1), [rng.choice(NOISE), False])
        elif s:
            s[rng.below(len(s))][0] = rng.choice(NOISE)
    return s


def sentence_text(sent):
    out = ""
    for i, (t, glue) in enumerate(sent):
        if i > 0 and not glue:
            out += " "
        out += t
    return out


# ---------------------------------------------------------------- left recursion hidden behind nullable prefixes
_M, _P, _T, _B, _AT, _I = ("op", "-", '"'), ("op", "+", '"'), ("op", "~", '"'), ("op", "!", '"'), ("op", "@", '"'), ("tok", "INT")


def nullable_constructs():
    """expressions that can match the empty input, the nullable part placed at every position"""
    q = ("?", _M)
    return [q, ("*", _M), ("true",), ("space",), ("?", ("?", _M)), ("?", ("alt", [_M, _P])),
            ("alt", [q, _P]), ("alt", [_P, q]),                                        # nullable alternative first / last of 2
            ("alt", [q, _P, _T]), ("alt", [_P, q, _T]), ("alt", [_P, _T, q]),           # first / middle / last of 3
            ("alt", [("*", _M), _P]), ("alt", [_P, ("true",)]), ("alt", [("true",), _P]),
            ("seq", [q, ("?", _P)]), ("seq", [("*", _M), ("alt", [q, _T])]),
            ("alt", [_P, ("seq", [q, ("*", _T)])]), ("alt", [("seq", [q, ("?", _T)]), _P]),
            ("alt", [_P, ("alt", [_T, q])]), ("alt", [("alt", [q, _T]), _P])]           # nested choices


def leftrec_templates(N, N2=None):
    """grammars in which `item` is reachable from itself in a first position behind the nullable N, the
    recursion passing through an option of a Choice (so that CheckConflicts must reject it)"""
    N2 = N2 or N
    item, other = ("ref", "item"), ("ref", "other")
    body = ("seq", [N, item, _B])
    return [
        [("item", ("alt", [_I, body]))],                                  # recursive alternative last
        [("item", ("alt", [body, _I]))],                                  # first
        [("item", ("alt", [_I, body, _AT]))],                             # middle
        [("doc", ("seq", [item, ("?", _B)])), ("item", ("alt", [_I, body]))],           # reached from another rule
        [("item", ("alt", [_I, ("seq", [N, other, _B])])), ("other", ("alt", [item, _AT]))],      # indirect through a choice
        [("item", ("alt", [_I, ("seq", [N, other, _B])])), ("other", ("seq", [N2, item]))],       # indirect through a sequence
        [("item", ("alt", [_I, ("seq", [("alt", [("op", "(", '"'), N]), ("alt", [("seq", [N2, item]), _AT]), _B])]))],  # choice in sequence in choice
        [("item", ("alt", [_I, ("seq", [("?", ("seq", [N, _AT])), N2, item])]))],       # two nullable items before the reference
    ]


LEFTREC_INPUTS = ["x", "", "+", "5", "- 5 !", "~ @", "( 5"]


def leftrec_family():
    out = []
    for N in nullable_constructs():
        out += leftrec_templates(N)
    return out


def gen_nullable(rng, d):
    leaf = [_M, _P, _T, ("kw", "a"), ("tok", "IDENT")]
    k = rng.below(7 if d > 0 else 4)
    if k == 0:
        return ("?", rng.choice(leaf))
    if k == 1:
        return ("*", rng.choice(leaf))
    if k == 2:
        return ("true",)
    if k == 3:
        return ("?", ("seq", [rng.choice(leaf), rng.choice(leaf)]))
    if k == 4:                      # a choice with exactly one nullable alternative at a random index
        n = 2 + rng.below(2)
        opts = [rng.choice(leaf) for _ in range(n)]
        opts[rng.below(n)] = gen_nullable(rng, d - 1)
        return ("alt", opts)
    if k == 5:
        return ("seq", [gen_nullable(rng, d - 1), gen_nullable(rng, d - 1)])
    return ("?", gen_nullable(rng, d - 1))


# ---------------------------------------------------------------- every builtin token class, at the end of the input
BUILTIN_CLASSES = ["EOF", "COMMENT", "IDENT", "INT", "FLOAT", "IMAG", "CHAR", "STRING", "RAT", "UNIT", "LPAREN", "RPAREN",
                   "LBRACK", "RBRACK", "LBRACE", "RBRACE", "RAWSTRING", "QSTRING"]   # SPACE is nullable: *SPACE is the known nullable-repetition class
BUILTIN_CONTEXTS = ['doc = *(INT | ";" | %s)\n', 'doc = +%s\n', 'doc = *%s\n', 'doc = +(%s | INT | ";")\n', 'doc = *(%s ";" | INT)\n',
                    'doc = ?%s INT\n', 'doc = INT ?%s\n', 'doc = %s %% ","\n', 'doc = INT %% %s\n', 'doc = *(INT | ";") %s\n',
                    'doc = *(INT | ";") +%s\n', 'doc = *(INT | ";") *(%s | IDENT)\n', 'doc = +(?INT (%s | ";" | IDENT))\n',
                    'doc = *(INT ++ %s | INT | ";")\n', 'doc = *r\nr = INT | ";" | %s\n']
BUILTIN_INPUTS = ["1 2 3", "", "1", "1 ;", "a b", "( 1 ) [ 2 ] { 3 }", '1.5 2i 3r \'c\' "s" `r`', "1m 2s", "1 , 2 , 3", "1 /* c */ 2"]


def builtin_class_family():
    """(grammar, input): every identifier of cl's idents table (and RAWSTRING/QSTRING/SPACE) in every repetition / list /
    optional context, with inputs that are consumed up to the very end of the token list (incl. the inserted ';')"""
    return [((c % k).encode(), t.encode()) for k in BUILTIN_CLASSES for c in BUILTIN_CONTEXTS for t in BUILTIN_INPUTS]


# ---------------------------------------------------------------- result rewriters (RetProcs) and runtime errors
def _hexs(x):
    return x.encode().hex()


RP_CONTEXTS = [
    'doc = +num\nnum = INT\n', 'doc = *num\nnum = INT\n', 'doc = num % ","\nnum = INT\n', 'doc = num num num\nnum = INT\n',
    'doc = ?num num num\nnum = INT\n', 'doc = +(num | IDENT)\nnum = INT\n', 'doc = +item\nitem = num | "(" +num ")"\nnum = INT\n',
    'doc = +num IDENT\nnum = INT\n', 'doc = (num num | num IDENT) *num\nnum = INT\n', 'doc = +(num "," | num)\nnum = INT\n',
    'doc = +(IDENT ++ num)\nnum = STRING\n', 'doc = +(+num ",")\nnum = INT\n', 'doc = +outer\nouter = num\nnum = INT\n',
]
RP_INPUTS = ["1 2 3", "0 1 2", "1 0 3", "1 2 0 3", "1 2 0", "7 ( 5 0 ) 9", "1 , 0 , 3", "1 , 2 , 0 ,", "0", "", "1 a 0 b", "1 0 a",
             'a"1" b"0" c"2"', 'a"0" b"1"']


def retproc_family():
    """(grammar, input, retprocs): a rewriter on `num` rejecting the literal 0 (runtime error / ordinary error) or
    rewriting, the rejected element first / second / later / last / nested, in every repetition-like context"""
    out = []
    for g in RP_CONTEXTS:
        zero = '"0"' if "STRING" in g else "0"
        for kind in ("rejdyn:" + _hexs(zero), "rejerr:" + _hexs(zero), "wrap", "id"):
            for extra in ("", ",doc=wrap"):
                if extra and not kind.startswith("rej"):
                    continue
                for t in RP_INPUTS:
                    out.append((g.encode(), t.encode(), "num=" + kind + extra))
    return out


RP_LITS = ["1", "42", "a", "x", "if", '"s"', "`r`", "foo", "1.5"]


def gen_retprocs(rng, rules):
    items = []
    for n, _ in rules:
        k = rng.below(6)
        if k == 0:
            items.append("%s=rejdyn:%s" % (n, _hexs(rng.choice(RP_LITS))))
        elif k == 1:
            items.append("%s=rejerr:%s" % (n, _hexs(rng.choice(RP_LITS))))
        elif k == 2:
            items.append("%s=wrap" % n)
        elif k == 3:
            items.append("%s=id" % n)
    return ",".join(items) or "-"


# ---------------------------------------------------------------- python reference (README semantics)
class Loop(Exception):
    pass


class Ref:
    """Independent evaluator written from tpl/README.md + the commit rule of ordered choice.
    tokens: list of (kind, lit, pos, end)."""

    def __init__(self, rules, toks):
        self.rules = dict(rules)
        self.order = [n for n, _ in rules]
        self.toks = toks
        self.steps = 0

    # first sets: list of ("t", kind) / ("l", kind, lit); raises Loop on recursion
    def first(self, e, visiting):
        k = e[0]
        if k == "tok":
            if e[1] in ("QSTRING", "RAWSTRING"):
                return [("t", 9)], False
            return [("t", TOKCLASS[e[1]])], False
        if k == "kw":
            return [("l", 4, e[1])], False
        if k == "op":
            return [("t", OPS[e[1]])], False
        if k in ("true", "space"):
            return [], True
        if k == "ref":
            if e[1] in visiting or e[1] not in self.rules:
                raise Loop()
            return self.first(self.rules[e[1]], visiting | {e[1]})
        if k == "seq":
            acc = []
            for x in e[1]:
                f, me = self.first(x, visiting)
                acc += f
                if not me:
                    return acc, False
            return acc, True
        if k == "alt":
            acc, me = [], False
            for x in e[1]:
                f, m1 = self.first(x, visiting)
                acc += f
                me = me or m1
            return acc, me
        if k in "*?":
            return self.first(e[1], visiting)[0], True
        if k == "+":
            return self.first(e[1], visiting)
        if k == "%":
            f, me = self.first(e[1], visiting)
            if not me:
                return f, False
            f2, _ = self.first(("*", ("seq", [e[2], e[1]])), visiting)
            return f + f2, True
        return self.first(e[1], visiting)[0], False   # ++

    @staticmethod
    def conflict(me, nxt):
        for x in me:
            for y in nxt:
                if x[0] == "t" and y[1] == x[1]:
                    return True
                if x[0] == "l" and y[0] == "l" and y[1:] == x[1:]:
                    return True
        return False

    def check(self, e):
        """CheckConflicts of every choice (raises Loop = RecursiveError)"""
        k = e[0]
        if k == "alt":
            for x in e[1]:
                self.first(x, frozenset())
        for x in e[1:]:
            if isinstance(x, tuple):
                self.check(x)
            elif isinstance(x, list):
                for y in x:
                    self.check(y)

    def match(self, e, i):
        """-> (ok, n, tree); n also on failure"""
        self.steps += 1
        if self.steps > 20000:
            raise Loop()
        T = self.toks
        k = e[0]
        if k == "tok":
            if i < len(T):
                kind, lit = T[i][0], T[i][1]
                if e[1] == "QSTRING":
                    ok = kind == 9 and lit[:1] == '"'
                elif e[1] == "RAWSTRING":
                    ok = kind == 9 and lit[:1] == "`"
                else:
                    ok = kind == TOKCLASS[e[1]]
                if ok:
                    return True, 1, ("T", i)
            return False, 0, None
        if k == "kw":
            if i < len(T) and T[i][0] == 4 and T[i][1] == e[1]:
                return True, 1, ("T", i)
            return False, 0, None
        if k == "op":
            if i < len(T) and T[i][0] == OPS[e[1]]:
                return True, 1, ("T", i)
            return False, 0, None
        if k == "true":
            return True, 0, None
        if k == "space":
            if 0 < i < len(T) and T[i - 1][3] != T[i][2]:
                return True, 0, None
            return False, 0, None
        if k == "ref":
            return self.match(self.rules[e[1]], i)
        if k == "seq":
            n, out = 0, []
            for x in e[1]:
                ok, n1, t = self.match(x, i + n)
                if not ok:
                    return False, n + n1, None
                n += n1
                out.append(t)
            return True, n, out
        if k == "alt":
            firsts = [self.first(x, frozenset())[0] for x in e[1]]
            nmax = 0
            for j, x in enumerate(e[1]):
                ok, n, t = self.match(x, i)
                if ok:
                    return True, n, t
                stop = not any(self.conflict(firsts[j], f) for f in firsts[j + 1:])
                if n > 0 and stop:
                    return False, n, None
                nmax = max(nmax, n)
            return False, nmax, None
        if k == "?":
            ok, n, t = self.match(e[1], i)
            return (True, n, t) if ok else (True, 0, None)
        if k in "*+":
            n, out = 0, []
            if k == "+":
                ok, n, t = self.match(e[1], i)
                if not ok:
                    return False, n, None
                out.append(t)
            while True:
                ok, n1, t = self.match(e[1], i + n)
                if not ok:
                    return True, n, out
                n += n1
                out.append(t)
        if k == "%":
            return self.match(("seq", [e[1], ("*", ("seq", [e[2], e[1]]))]), i)
        # ++
        ok, n, t0 = self.match(e[1], i)
        if not ok:
            return False, n, None
        if n == 0:
            return False, 0, None
        ok, n1, t1 = self.match(e[2], i + n)
        if not ok or n1 == 0:
            return False, n, None
        if T[i + n - 1][3] != T[i + n][2]:
            return False, n, None
        return True, n + n1, [t0, t1]


def show_tree(t):
    if t is None:
        return "N"
    if isinstance(t, tuple):
        return "T%d" % t[1]
    return "[" + "".join(" " + show_tree(x) for x in t) + " ]"


def ref_result(rules, model_line):
    """expected result of the reference for the tokens of a scan-phase line; None = not applicable"""
    parts = model_line.split("\t")
    toks = []
    for w in (parts[1].split(" ") if len(parts) > 1 and parts[1] else []):
        k, h, p = w.split(":")
        lit = "" if h == "-" else bytes.fromhex(h).decode("utf-8", "replace")
        kind, pos = int(k), int(p)
        ln = len(bytes.fromhex(h)) if h != "-" else (len([s for s, c in OPS.items() if c == kind][0]) if kind > 32 and kind in OPS.values() else 0)
        toks.append((kind, lit, pos, pos + ln))
    r = Ref(rules, toks)
    try:
        for _, e in rules:
            r.check(e)
        ok, n, t = r.match(("ref", rules[0][0]), 0)
    except (Loop, RecursionError, KeyError):
        return None
    return "ok %d %s" % (n, show_tree(t)) if ok else "fail %d" % n


# ---------------------------------------------------------------- pipeline
def run_pipeline(ctx, cases, watchdog="4s", always_run=()):
    """cases: list of (grammar_text_bytes, input_text_bytes).
    -> (model_lines, model_out, impl_rows) ; impl_rows[i] = [result, verdict] or None when the implementation was
    not run on case i because the model says the match does not terminate (FUEL).  Indices in `always_run` are run
    on the implementation whatever the model says (they come first, each protected by the watchdog)."""
    model = ctx.model("tplm")
    impl = ctx.harness("tplm")
    cases = [(c[0], c[1], c[2] if len(c) > 2 else "-") for c in cases]
    inp = "".join("%s\t%s\t%s\n" % (g.hex(), t.hex(), r) for g, t, r in cases)
    rc, out = ctx.run([impl, "-mode", "scan"], input=inp)
    if rc != 0:
        ctx.broken("correspondence(tplm:scan)", "rc=%d %s" % (rc, out[-300:]))
        return None
    mlines = out.split("\n")[:len(cases)]
    rc, out2 = ctx.run([model], input="\n".join(mlines) + "\n")
    if rc != 0:
        ctx.broken("correspondence(tplm:model)", "rc=%d %s" % (rc, out2[-300:]))
        return None
    mraw = out2.split("\n")[:len(cases)]
    if len(mraw) != len(cases):
        ctx.broken("correspondence(tplm:model)", "line count")
        return None
    mout = [l.split("\t")[0] for l in mraw]
    ctx.notes["productive_flags"] = [(l.split("\t") + ["-"])[1] for l in mraw]
    forced = set(always_run)
    todo = sorted(forced) + [i for i in range(len(cases)) if mout[i] != "FUEL" and i not in forced]
    rows = [None] * len(cases)
    pos = 0
    hangs = []
    while pos < len(todo):
        batch = todo[pos:]
        rc, out3 = ctx.run([impl, "-mode", "match", "-watchdog", watchdog],
                           input="".join("%s\t%s\t%s\n" % (cases[i][0].hex(), cases[i][1].hex(), cases[i][2]) for i in batch))
        lines = [l for l in out3.split("\n") if l]
        for j, l in enumerate(lines[:len(batch)]):
            rows[batch[j]] = l.split("\t")
        if len(lines) >= len(batch) and rc == 0:
            break
        # the process died at case batch[len(lines)-1] (HANG line) or batch[len(lines)] (crash without a line)
        k = len(lines) - 1 if lines and lines[-1].startswith("HANG") else len(lines)
        if k >= len(batch):
            break
        bad = batch[k]
        rows[bad] = ["HANG" if lines and lines[-1].startswith("HANG") else "CRASH(rc=%d)" % rc, "match-does-not-terminate"]
        hangs.append(bad)
        pos += k + 1
        if len(hangs) > 7:
            for i in todo[pos:]:            # enough evidence: do not spend more watchdog time
                rows[i] = ["NOTRUN(after %d hangs)" % len(hangs), "ok"]
            break
    return mlines, mout, rows


def key_of(g, t, rps="-"):
    return "tpl:" + sha(g + b"\x00" + t + (b"" if rps in ("", "-") else b"\x00" + rps.encode()))
