"""C10 — overloaded functions dispatch on argument types (cl/compile.go preloadFile OverloadFuncDecl branch,
overloadFuncName, overloadName, binaryGopNames; doc/overload.md).

A  K-gen: translator `c10` regenerates Gen/C10.v from cl/compile.go (indexTable, binaryGopNames, the bodies of
   overloadFuncName and overloadName translated to Gallina) and from gogen's import.go (indexTable, gopoPrefix);
   Props/C10.v: C10_resolve_perm_invariant, C10_resolve_complete, C10_overload_names_injective(_across),
   C10_overloadFuncName_panics_from_36, C10_tables_agree, C10_gopo_table_wellformed, C10_dispatch_end_to_end,
   C10_overloadName_spec,
   C10_dunder_name_refuted, C10_operator_literal_refuted
B  K-diff: generated overload sets (2..4 candidates; funcs, methods, operators; literal / named / method styles;
   every permutation of 12 base sets + seeded sets), compiled by the real compiler in groups, built once and run
   once: emitted Gopo_ constants and name__k functions read back from the Go output, and the dispatched
   candidate printed at run time, all compared with the extracted model (preload_overload, resolve_exact)
C  direct oracle: every call with typed arguments reaches the candidate whose parameter types are the argument
   types, whatever the listing order and style; every generated (valid, distinguishable) set compiles.
"""
import itertools
import json
import os

import vlib

CLAIM = {
    "level": "other",
    "text": "Coq theorems over (i) the two decision functions overloadFuncName/overloadName translated from cl/compile.go "
            "on every run (name__k injective, Panic from index 36, exact Gopo_ name), (ii) a model of the table cl builds "
            "and of gogen's decoding of it (for every well-formed declaration the decoded receiver, name and k-th entry "
            "are the declared ones, and first-match dispatch over the decoded table reaches the accepting candidate; two "
            "proved witnesses outside the guards: a `__` in the overload name and a literal "
            "candidate of an operator overload), (iii) order independence and completeness of first-match dispatch for "
            "pairwise distinguishable candidates with an arbitrary `accepts`. Tied to /repo by K-gen and by compiling, "
            "building and running generated overload sets (all permutations, all styles) and comparing constants, "
            "function names and dispatched candidates with the extracted model.",
    "note": "Dispatch itself (matchFuncCall, assignability) lives in gogen, outside /repo: it is a Section variable in the "
            "theorem and explored by the runs (typed arguments only; untyped constants are convertible to several "
            "parameter types and are excluded). The onames loop of preloadFile and gogen's checkTypeMethod / "
            "InitThisGopPkgEx are hand-written models tied by the differential run only.",
}

TYPES = {1: "int", 2: "string", 3: "float64", 4: "bool", 5: "[]int", 6: "*TT", 7: "TT", 8: "map[string]int"}
ARGS = {1: "xi", 2: "xs", 3: "xf", 4: "xb", 5: "xl", 6: "xp", 7: "xt", 8: "xm"}
SELF = 9  # the receiver type of an operator overload

BASE_SETS = [
    ("func", None, [("L", [1]), ("L", [2])]),
    ("func", None, [("N", [1]), ("N", [3])]),
    ("func", None, [("L", [1]), ("N", [2])]),
    ("method", None, [("M", [1]), ("M", [6])]),
    ("func", None, [("L", [1]), ("L", [2]), ("L", [1, 2])]),
    ("func", None, [("N", [1]), ("L", [4]), ("N", [5])]),
    ("method", None, [("M", [1]), ("M", [2]), ("M", [7])]),
    ("op", "*", [("M", [SELF, 1]), ("M", [SELF, SELF]), ("N", [1, SELF])]),
    ("op", "+", [("M", [SELF, 2]), ("N", [2, SELF]), ("M", [SELF, SELF])]),
    ("func", None, [("L", [1]), ("L", [2]), ("L", [3]), ("L", [4])]),
    ("func", None, [("N", [1]), ("L", [2]), ("N", [1, 1]), ("L", [8])]),
    ("method", None, [("M", [1]), ("M", [2]), ("M", [3]), ("M", [1, 2])]),
]


def hx(s):
    return s.encode().hex() if s else "-"


class Variant:
    def __init__(self, vid, kind, op, cands, underscore=False, ptr=True, decl_first=False):
        # cands: list of (cid, style, ptypes) in LISTING order
        self.vid, self.kind, self.op = vid, kind, op
        self.ptr = ptr
        self.decl_first = decl_first
        # underscore: False | True ("ov_<vid>") | "type" (the text before the first '_' names a type of the package:
        # gogen's checkTypeMethod must still take the constant for a FUNCTION overload, which only the "__" separator
        # of cl's overloadName guarantees)
        if kind == "op":
            self.name = op
        elif underscore == "type" and kind == "func":
            self.name = "TT_" + vid
        else:
            self.name = "ov_" + vid if underscore else "ov" + vid
        self.recv = None if kind == "func" else ("R_" + vid if underscore else "R" + vid)
        self.us = "typeprefix" if (underscore == "type" and kind == "func") else ("us" if underscore else "plain")
        self.cands = []
        for cid, style, pt in cands:
            cname = None
            if style in ("N", "M"):
                cname = ("c_%s_%d" if underscore and cid % 2 else "c%sx%d") % (vid, cid)
            self.cands.append({"cid": cid, "style": style, "ptypes": pt, "name": cname})
        self.calls = [c["ptypes"] for c in sorted(self.cands, key=lambda c: c["cid"])]
        self.expect = [c["cid"] for c in sorted(self.cands, key=lambda c: c["cid"])]

    def tname(self, t):
        return self.recv if t == SELF else TYPES[t]

    def argv(self, t):
        return "q_" + self.vid if t == SELF else ARGS[t]

    def body(self, cid, ret):
        out = ['\tprintln "R", "%s", %d' % (self.vid, cid)]
        if ret:
            out.append("\treturn")
        return out

    def source(self):
        L = []
        named, decl = [], []
        if self.kind == "func":
            for c in self.cands:
                if c["style"] == "N":
                    ps = ", ".join("a%d %s" % (i, self.tname(t)) for i, t in enumerate(c["ptypes"]))
                    named += ["func %s(%s) {" % (c["name"], ps)] + self.body(c["cid"], False) + ["}", ""]
            decl.append("func %s = (" % self.name)
            for c in self.cands:
                if c["style"] == "N":
                    decl.append("\t" + c["name"])
                else:
                    ps = ", ".join("a%d %s" % (i, self.tname(t)) for i, t in enumerate(c["ptypes"]))
                    decl += ["\tfunc(%s) {" % ps] + ["\t" + l for l in self.body(c["cid"], False)] + ["\t}"]
            decl += [")", ""]
        elif self.kind == "method":
            L += ["type %s struct {" % self.recv, "}", ""]
            star = "*" if self.ptr else ""
            for c in self.cands:
                ps = ", ".join("a%d %s" % (i, self.tname(t)) for i, t in enumerate(c["ptypes"]))
                named += ["func (r %s%s) %s(%s) {" % (star, self.recv, c["name"], ps)] + self.body(c["cid"], False) + ["}", ""]
            decl.append("func (%s).%s = (" % (self.recv, self.name))
            for c in self.cands:
                decl.append("\t(%s).%s" % (self.recv, c["name"]))
            decl += [")", ""]
        else:
            L += ["type %s struct {" % self.recv, "}", ""]
            for c in self.cands:
                if c["style"] == "M":
                    named += ["func (a %s) %s(b %s) (ret %s) {" % (self.recv, c["name"], self.tname(c["ptypes"][1]), self.recv)]
                else:
                    named += ["func %s(a %s, b %s) (ret %s) {" % (c["name"], self.tname(c["ptypes"][0]), self.tname(c["ptypes"][1]), self.recv)]
                named += self.body(c["cid"], True) + ["}", ""]
            decl.append("func (%s).%s = (" % (self.recv, self.op))
            for c in self.cands:
                decl.append("\t(%s).%s" % (self.recv, c["name"]) if c["style"] == "M" else "\t" + c["name"])
            decl += [")", ""]
        L += (decl + named) if self.decl_first else (named + decl)
        # the calls
        if self.kind == "method":
            L += ["var r_%s = new(%s)" % (self.vid, self.recv), ""]
        if self.kind == "op":
            L += ["var q_%s %s" % (self.vid, self.recv), ""]
        L.append("func Run_%s() {" % self.vid)
        for k, args in enumerate(self.calls):
            L.append('\tprintln "C", "%s", %d' % (self.vid, k))
            if self.kind == "func":
                L.append("\t%s(%s)" % (self.name, ", ".join(self.argv(t) for t in args)))
            elif self.kind == "method":
                L.append("\tr_%s.%s(%s)" % (self.vid, self.name, ", ".join(self.argv(t) for t in args)))
            else:
                L.append("\t_ = %s %s %s" % (self.argv(args[0]), self.op, self.argv(args[1])))
        L += ["}", ""]
        return "\n".join(L)

    def model_line(self, known_types):
        cs = ",".join("%s:%s:%d:%s" % (c["style"], hx(c["name"]), c["cid"], ".".join(map(str, c["ptypes"]))) for c in self.cands)
        calls = ";".join(".".join(map(str, a)) for a in self.calls)
        return "\t".join([hx(self.name), hx(self.recv) if self.recv else "-", "1" if self.kind == "op" else "0", "0",
                          cs, calls, ",".join(hx(t) for t in known_types)])

    def shape(self):
        return "%s/%s/%s" % (self.kind, "".join(c["style"] for c in self.cands), self.us)


GROUP_HEAD = '''package %s

type TT struct {
	n int
}

var (
	xi int
	xs string
	xf float64
	xb bool
	xl []int
	xp *TT
	xt TT
	xm map[string]int
)

'''


def group_source(pkg, variants):
    src = GROUP_HEAD % pkg
    for v in variants:
        src += v.source() + "\n"
    src += "func Run() {\n" + "".join("\tRun_%s()\n" % v.vid for v in variants) + "}\n"
    return src


def known_types(variants):
    return ["TT"] + [v.recv for v in variants if v.recv]


# deterministic inputs of the two known findings (each in its own package: they do not compile)
DET = {
    "oplit": GROUP_HEAD % "doplit" + '''
type foo struct {
}

func (a foo) mulInt(b int) (ret foo) {
	println "R", "oplit", 0
	return
}

func (foo).* = (
	(foo).mulInt
	func(a foo, b foo) (ret foo) {
		println "R", "oplit", 1
		return
	}
)

var qa, qb foo

func Run() {
	println "C", "oplit", 0
	_ = qa * xi
	println "C", "oplit", 1
	_ = qa * qb
}
''',
    "dunder": GROUP_HEAD % "ddunder" + '''
func mulInt(a int) {
	println "R", "dunder", 0
}

func x__y = (
	mulInt
	func(a string) {
		println "R", "dunder", 1
	}
)

func Run() {
	println "C", "dunder", 0
	x__y xi
	println "C", "dunder", 1
	x__y xs
}
''',
}


def run(ctx):
    ctx.level = CLAIM["level"]
    ctx.regen(["c10"])
    ctx.prove("C10")
    model = ctx.model("c10")
    impl = ctx.harness("c10")
    ctx.log("model and harness built")

    # ---------------- the variants
    variants = []
    for si, (kind, op, cands) in enumerate(BASE_SETS):
        idx = list(range(len(cands)))
        for pi, perm in enumerate(itertools.permutations(idx)):
            listing = [(cid, cands[cid][0], cands[cid][1]) for cid in perm]
            variants.append(Variant("s%dp%d" % (si, pi), kind, op, listing, underscore=("type" if pi % 6 == 4 or (pi == 0 and si % 3 == 1) else pi % 3 == 1), ptr=(pi % 2 == 0),
                                    decl_first=(pi % 4 >= 2)))
    nexh = len(variants)
    for i in range(ctx.n(40, 2000)):
        kind = ctx.rng.choice(["func", "func", "method", "op"])
        n = 2 + ctx.rng.below(3)
        if kind == "op":
            op = ctx.rng.choice(["*", "+", "-", "/", "%"])
            pool = [("M", [SELF, t]) for t in (1, 2, 3, SELF)] + [("N", [t, SELF]) for t in (1, 2, 3)]
        else:
            op = None
            sigs = [[t] for t in range(1, 9)] + [[1, 2], [2, 1], [1, 1], [3, 4], [6, 1]]
            pool = [(None, s) for s in sigs]
        chosen = []
        while len(chosen) < n:
            c = ctx.rng.choice(pool)
            if c not in chosen:
                chosen.append(c)
        listing = []
        order = list(range(n))
        for j in range(n - 1, 0, -1):      # seeded shuffle
            k = ctx.rng.below(j + 1)
            order[j], order[k] = order[k], order[j]
        for cid in order:
            st, pt = chosen[cid]
            if kind == "func":
                st = ctx.rng.choice(["L", "N"])
            elif kind == "method":
                st = "M"
            listing.append((cid, st, pt))
        variants.append(Variant("r%d" % i, kind, op, listing, underscore=[False, False, True, "type"][ctx.rng.below(4)], ptr=ctx.rng.below(2) == 0,
                                decl_first=ctx.rng.below(2) == 0))
    groups = [variants[i:i + 25] for i in range(0, len(variants), 25)]
    cases = [{"pkg": "g%d" % gi, "src": group_source("g%d" % gi, g)} for gi, g in enumerate(groups)]
    for name in sorted(DET):
        cases.append({"pkg": "d" + name, "src": DET[name]})

    root = os.path.join(ctx.scratch, "c10run")
    os.makedirs(root)
    moddir = os.path.join(vlib.BUILD, "harness_" + getattr(vlib, "PTAG", vlib.sha(vlib.REPO))) if vlib.PRIVATE else vlib.HARNESS

    def compile_cases(cs):
        rc, out = ctx.run([impl, "-root", root, "-moddir", moddir], input="\n".join(json.dumps(c) for c in cs) + "\n", timeout=300)
        res = [json.loads(l) for l in out.splitlines() if l.startswith("{")]
        if rc != 0 or len(res) != len(cs):
            ctx.broken("correspondence(c10:harness)", "rc=%d results=%d/%d %s" % (rc, len(res), len(cs), out[-300:]))
            return None
        return res

    res = compile_cases(cases)
    if res is None:
        return
    ctx.log("compiled %d packages" % len(res))
    byvid = {}       # vid -> (variant, harness result of the package that holds it)
    runnable = []
    for gi, g in enumerate(groups):
        r = res[gi]
        if r["status"] == "ok":
            runnable.append(r["pkg"])
            for v in g:
                byvid[v.vid] = (v, r)
            continue
        # a group does not compile: compile each variant alone to find the one(s) that break it
        singles = [{"pkg": "u%s" % v.vid, "src": group_source("u%s" % v.vid, [v])} for v in g]
        sres = compile_cases(singles)
        if sres is None:
            return
        for v, sr in zip(g, sres):
            if sr["status"] == "ok":
                runnable.append(sr["pkg"])
                byvid[v.vid] = (v, sr)
            else:
                byvid[v.vid] = (v, sr)
                ctx.fail("src:" + vlib.sha(v.source()), "a valid overload set with pairwise distinguishable candidates does not compile: %s (%s)"
                         % (sr["status"][:200], v.shape()), {"variant": v.vid, "shape": v.shape(), "source": group_source("u", [v]), "status": sr["status"]})
    detres = {name: res[len(groups) + i] for i, name in enumerate(sorted(DET))}
    for name, r in detres.items():
        if r["status"] == "ok":
            runnable.append(r["pkg"])
        else:
            ctx.fail("det:%s:compile" % name, "deterministic input %s does not compile: %s" % (name, r["status"][:200]),
                     {"source": DET[name], "status": r["status"]})

    # ---------------- model
    rc, mout = ctx.run([model], input="\n".join(v.model_line(known_types([v])) for v in variants) + "\n")
    ml = mout.splitlines()
    if rc != 0 or len(ml) != len(variants):
        ctx.broken("correspondence(c10:model)", "rc=%d lines=%d/%d" % (rc, len(ml), len(variants)))
        return
    mres = {}
    for v, l in zip(variants, ml):
        mres[v.vid] = dict(t.split("=", 1) for t in l.split(" ") if "=" in t)

    # ---------------- one build, one run
    imports = "\n".join('\t"c10run/%s"' % p for p in runnable)
    calls = "\n".join('\tguard("%s", %s.Run)' % (p, p) for p in runnable)
    open(os.path.join(root, "go.mod"), "w").write("module c10run\n\ngo 1.18\n")
    open(os.path.join(root, "main.go"), "w").write('''package main

import (
	"fmt"
%s
)

func guard(name string, f func()) {
	defer func() {
		if e := recover(); e != nil {
			fmt.Println("PANIC", name, e)
		}
	}()
	f()
}

func main() {
%s
}
''' % (imports, calls))
    rc, bout = ctx.run("go build -o prog . 2>&1", cwd=root, timeout=600, mem_kb=16000000)
    if rc != 0:
        ctx.broken("correspondence(c10:go build)", "the emitted Go does not build: " + bout[-1500:])
        return
    ctx.log("go build done")
    rc, rout = ctx.run([os.path.join(root, "prog")], cwd=root, timeout=120)
    if rc != 0:
        ctx.broken("correspondence(c10:run)", "rc=%d %s" % (rc, rout[-300:]))
        return
    observed = {}   # vid -> {k: cid}
    cur = None
    for l in rout.splitlines():
        f = l.split(" ")
        if f[0] == "C" and len(f) == 3:
            cur = (f[1], int(f[2]))
            observed.setdefault(f[1], {})[cur[1]] = None
        elif f[0] == "R" and len(f) == 3 and cur and cur[0] == f[1]:
            if observed[f[1]][cur[1]] is None:
                observed[f[1]][cur[1]] = int(f[2])
        elif f[0] == "PANIC":
            ctx.broken("correspondence(c10:run)", "generated program panicked: " + l)

    # ---------------- B + C per variant
    kc, ki, km = [], [], []
    ncalls = 0
    shapes = {}
    for v in variants:
        _, r = byvid[v.vid]
        m = mres[v.vid]
        shapes[v.shape()] = shapes.get(v.shape(), 0) + 1
        if r["status"] != "ok":
            kc.append(v.vid)
            ki.append("does not compile")
            km.append("ST=%s" % m.get("ST"))
            continue
        # what /repo emitted for this overload
        cn = bytes.fromhex(m["CN"]).decode() if m.get("CN", "-") != "-" else None
        if cn is not None:
            emitted_const = "CN=%s CV=%s" % (m["CN"], r.get("consts", {}).get(cn, "<no such constant>").encode().hex() or "-")
        else:
            # all candidates are literals: no Gopo_ constant may mention this overload
            stray = [c for c in r.get("consts", {}) if c.endswith("_" + v.name)]
            emitted_const = "CN=- CV=-" if not stray else "CN=%s" % stray[0]
        prefix = (v.recv + "." if v.kind == "method" else "") + v.name + "__"
        lits = sorted(f for f in r.get("funcs", []) if f.startswith(prefix))
        mlits = sorted(bytes.fromhex(x.split(":")[1]).decode() for x in m.get("LITS", "").split(",") if x)
        obs = observed.get(v.vid, {})
        got = ",".join("-" if obs.get(k) is None else str(obs[k]) for k in range(len(v.calls)))
        kc.append("%s %s" % (v.vid, v.shape()))
        ki.append("ST=ok %s LITS=%s RES=%s" % (emitted_const, ",".join(lits), got))
        km.append("ST=%s CN=%s CV=%s LITS=%s RES=%s" % (m["ST"], m.get("CN"), m.get("CV"), ",".join(mlits), m["RES"]))
        # the model must be able to decode what it encoded (guards of the theorem hold for generated names)
        if m.get("DEC") == "panic" or (m.get("DEC", "-") != "-" and m["DEC"].split("/")[2] != m["EXP"]):
            ctx.broken("generator-guard", "variant %s: decode_gopo does not give back the declaration: %s" % (v.vid, m))
        for k, want in enumerate(v.expect):
            ncalls += 1
            if obs.get(k) != want:
                ctx.fail("src:%s:call%d" % (vlib.sha(v.source()), k),
                         "overload %s (%s): the call with argument types %s reached candidate %s, the accepting candidate is %d"
                         % (v.name, v.shape(), [v.tname(t) for t in v.calls[k]], obs.get(k), want),
                         {"variant": v.vid, "shape": v.shape(), "source": group_source("u", [v]), "call": k, "observed": obs.get(k), "expected": want})
    ctx.diff_lines("Gopo_ constant, name__k functions, dispatched candidates ~ model", kc, "\n".join(ki), "\n".join(km))

    # deterministic known-finding inputs that do compile nowadays: their calls must dispatch
    for name, r in detres.items():
        if r["status"] == "ok":
            obs = observed.get(name, {})
            for k in (0, 1):
                if obs.get(k) != k:
                    ctx.fail("det:%s:call%d" % (name, k), "deterministic input %s: call %d reached %s" % (name, k, obs.get(k)), {"source": DET[name]})

    ctx.cover(evaluations=ncalls + len(variants), distinct_nontrivial=len(set(v.source() for v in variants)),
              samples=[{"variant": kc[i], "impl": ki[i], "model": km[i]} for i in (0, len(kc) // 2, len(kc) - 1)],
              rule="every permutation of %d base overload sets (%d variants: funcs, methods, operators; literal/named/method/mixed "
                   "styles; names with and without '_', also '_' names whose prefix is a type of the package; declaration before/after the candidates; pointer/value receivers) + %d seeded "
                   "sets (2..4 candidates drawn from 13 signatures / 7 operator signatures, seeded order and style), compiled in "
                   "groups of 25 by cl.NewPackage, one go build, one run; evaluations = variants compared (constant, function "
                   "names) + calls executed (%d, one per candidate, typed arguments); non-trivial = distinct variant source; "
                   "+ 2 deterministic known-finding inputs. Not generated: untyped constant arguments (convertible to several "
                   "parameter types: not pairwise distinguishable), class files, generic candidates, '__' in names and literal "
                   "candidates of operator overloads (known findings, deterministic set)"
                   % (len(BASE_SETS), nexh, len(variants) - nexh, ncalls),
              exhaustive_part=nexh, shape_histogram=dict(sorted(shapes.items())))
    ctx.trust("modelled, not verified: cl/compile.go preloadFile (OverloadFuncDecl branch; the onames loop is hand-written, "
              "overloadFuncName/overloadName/indexTable/binaryGopNames are translated from the source by translator/gen_c10.go)",
              "gogen v1.18.1 (outside /repo): InitThisGopPkgEx/checkOverloads/checkTypeMethod hand-modelled; matchFuncCall's "
              "first-match rule = resolve; assignability = Section variable `accepts` (instance for the runs: identical types)")
    ctx.assume("arguments are typed and each argument list is accepted by at most one candidate (pairwise_distinguishable)")
