"""C14 — valid Go files parse to the same syntax tree as with go/parser (parser/parser.go, scanner).

A  Props/C14.v: token tables (go/token codes = token codes by name; precedence agreement for the 19 Go
   binary operators by name and for EVERY code symbolically), the simulation theorem, and
   C14_xgo_parse_conservative (expressions, no side condition) over Model/C14.v; statement level:
   conservative without the command-call rule / for non-identifier-headed statements (_partial),
   refuted for the real dialect by `ch <-v` and `f (x)`.
B  K-diff of the extracted model (both dialects) against go/parser AND the XGo parser: every token
   sequence of length <= L over a 20-token alphabet in two spacing styles, as expression and as
   statement, + seeded grammar-generated / mutated sequences with random spacing.
C  direct oracle = structural comparison (reflection walk go/ast vs xgo/ast ignoring positions,
   objects, comments; plus fromgo.ASTFile at declaration level) on: every .go file of /repo, a fixed
   sample of GOROOT/src packages, crafted feature files, the deterministic whitespace enumeration
   (one blank toggled at every token boundary of 32 base statements), and seeded generated
   well-typed files (checked with go/types) in base style and in random whitespace variants.
"""
import os
import re

import vlib

CLAIM = {
    "level": "other",
    "text": "Coq: the token codes and the binary-operator precedences of token/token.go agree with go/token (regenerated tables, "
            "by name for the constants and symbolically for every code); a model of the expression / simple-statement core of the "
            "parser under a Go and an XGo dialect, agreeing with BOTH real parsers on exhaustive small token sequences and seeded ones; "
            "theorem: every expression accepted by the Go dialect is parsed to the same tree by the XGo dialect (no side condition); "
            "for simple statements the same without the command-call rule or when the statement does not start with an identifier, and a "
            "machine-checked refutation for the real dialect (ch <-v, f (x)); the model is total (explicit fuel bound 6*|tokens|+5, so its "
            "expression / statement core terminates). The rest of the grammar (declarations, types, compound "
            "statements, literals) is explored by structural tree comparison on /repo, a GOROOT sample, crafted files and generated "
            "well-typed files incl. non-gofmt-ed whitespace variants.",
    "note": "Kernel theorem + explored remainder. The model covers identifiers, int literals, parentheses, unary/binary operators, "
            "selectors, index, calls (incl. command style), errwrap, single-parameter lambda, assignment / inc-dec / send / expression "
            "statements; everything else is tested, not proved. Known findings (language-level): generic declarations, union/~ "
            "constraints, `$` in Go string literals, blank-before-bracket/paren command-call collisions, `ch <-v`.",
}

GOROOT_PKGS = ["fmt", "strings", "strconv", "sort", "bytes", "errors", "io", "os", "path", "path/filepath", "math", "unicode", "time",
               "sync", "bufio", "go/ast", "go/token", "go/scanner", "go/parser", "go/printer", "go/types", "text/template",
               "encoding/json", "net/url", "regexp", "container/list", "flag", "log", "reflect"]

# ---------------------------------------------------------------- generator of well-typed Go files
PRELUDE = """package p

type T struct {
	x int
	p *T
	s []int
}

func (t *T) m(a int) int { return a }

var g int

func f(a int) int { return a }

func h(a, b int) (int, int) { return a, b }

func v(a ...int) int { return len(a) }
"""

# token = (text, kind): kind 'w' = blank before by default, 'n' = no blank before by default,
# 'N' = never a blank before (statement-head call paren / index bracket: the known command-call dimension),
# 'B' = always a blank before (operand of a send arrow), 'L' = starts a new line
# integer / floating-point literal spellings in both letter cases (radix prefixes, exponents, hex digits, separators)
INT_LITS = ["0xff", "0XFF", "0xaB", "0XAb", "0b101", "0B101", "0o17", "0O17", "017", "0x_f", "0X_F", "1_000", "0B1_0", "0"]
FLOAT_LITS = ["1e2", "1E2", "1.5e+2", "1.5E-2", "0x1p+2", "0X1P+2", "0x1P-1", "0X.8p1", "0xA.8P0", "1.", ".5", "1_0.2_5", "1e0i", "0X1P0i"]
ARITH = ["+", "-", "*", "&", "|", "^", "&^"]
CMP = ["==", "!=", "<", "<=", ">", ">="]
NL_AFTER = set(ARITH + CMP + ["/", "%", "<<", ">>", "&&", "||", ",", "(", "[", "{", "=", ":=", "+=", "-=", "*=", "|="])


class Gen:
    def __init__(self, rng):
        self.rng = rng
        self.nlab = 0
        self.nvar = 0

    def w(self, t): return [(t, 'w')]
    def n(self, t): return [(t, 'n')]

    def lit(self):
        if self.rng.below(4) == 0:
            return self.w(self.rng.choice(INT_LITS))
        return self.w(str(1 + self.rng.below(9)))

    def ie(self, d):
        """int expression"""
        r = self.rng.below(100)
        if d <= 0 or r < 25:
            return self.rng.choice([self.lit(), self.w("a"), self.w("b"), self.w("g"), self.w("r")])
        if r < 31: return self.w("s") + self.n("[") + self.glue(self.idx(d - 1)) + self.n("]")
        if r < 35: return self.w("m") + self.n("[") + self.n('"k"') + self.n("]")
        if r < 39: return self.w("t") + self.n(".") + self.n("x")
        if r < 42: return self.w("t") + self.n(".") + self.n("p") + self.n(".") + self.n("s") + self.n("[") + self.glue(self.idx(d - 1)) + self.n("]")
        if r < 48: return self.w("f") + self.n("(") + self.glue(self.ie(d - 1)) + self.n(")")
        if r < 52: return self.w("t") + self.n(".") + self.n("m") + self.n("(") + self.glue(self.ie(d - 1)) + self.n(")")
        if r < 55: return self.w("v") + self.n("(") + self.glue(self.ie(d - 1)) + self.n(",") + self.ie(d - 1) + self.n(")")
        if r < 57: return self.w("v") + self.n("(") + self.n("s") + self.n("...") + self.n(")")
        if r < 60: return self.w("len") + self.n("(") + self.n("s") + self.n(")")
        if r < 75: return self.ie(d - 1) + self.w(self.rng.choice(ARITH)) + self.ie(d - 1)
        if r < 78: return self.ie(d - 1) + self.w(self.rng.choice(["/", "%"])) + self.w(self.rng.choice(["a", "b"]))
        if r < 80: return self.ie(d - 1) + self.w(self.rng.choice(["<<", ">>"])) + self.w(str(1 + self.rng.below(3)))
        if r < 84: return self.w(self.rng.choice(["-", "+", "^"])) + self.glue(self.atom(d - 1))
        if r < 88: return self.w("(") + self.glue(self.ie(d - 1)) + self.n(")")
        if r < 90: return self.w("<-") + self.n("ch")
        if r < 92: return self.w("(") + self.n("*") + self.n("t") + self.n(")") + self.n(".") + self.n("x")
        if r < 94: return self.w("func") + self.n("(") + self.n("x") + self.w("int") + self.n(")") + self.w("int") + self.w("{") + self.w("return") + self.w("x") + self.w("+") + self.lit() + self.w("}") + self.n("(") + self.glue(self.ie(d - 1)) + self.n(")")
        if r < 96: return self.w("[]") + self.n("int") + self.n("{") + self.glue(self.ie(d - 1)) + self.n(",") + self.ie(d - 1) + self.n("}") + self.n("[") + self.n("0") + self.n("]")
        if r < 97: return self.w("(") + self.n("T") + self.n("{") + self.n("x") + self.n(":") + self.ie(d - 1) + self.n("}") + self.n(")") + self.n(".") + self.n("x")
        if r < 98: return self.w("i") + self.n(".") + self.n("(") + self.n("int") + self.n(")")
        return self.w("int") + self.n("(") + self.glue(self.ie(d - 1)) + self.n(")")

    def idx(self, d):
        """index expression that is never a (possibly negative) constant"""
        r = self.rng.below(5)
        if r == 0: return self.w("a")
        if r == 1: return self.w("b")
        if r == 2: return self.w("a") + self.w("+") + self.lit()
        if r == 3: return self.w("f") + self.n("(") + self.glue(self.ie(d)) + self.n(")")
        return self.w("t") + self.n(".") + self.n("x")

    def atom(self, d):
        return self.rng.choice([self.w("a"), self.w("b"), self.w("(") + self.glue(self.ie(d)) + self.n(")"), self.w("f") + self.n("(") + self.n("a") + self.n(")")])

    def glue(self, toks):
        """first token gets no default blank"""
        return [(toks[0][0], 'n' if toks[0][1] == 'w' else toks[0][1])] + toks[1:]

    def be(self, d):
        r = self.rng.below(100)
        if d <= 0 or r < 40: return self.ie(1) + self.w(self.rng.choice(CMP)) + self.ie(1)
        if r < 50: return self.w("ok")
        if r < 60: return self.w("!") + self.glue(self.w("ok"))
        if r < 80: return self.be(d - 1) + self.w(self.rng.choice(["&&", "||"])) + self.be(d - 1)
        return self.w("(") + self.glue(self.be(d - 1)) + self.n(")")

    def line(self, toks):
        return [(toks[0][0], 'L')] + toks[1:]

    def protect(self, toks):
        """statement-head primary expression: no blank may be added before '(' or '[' that follows a name"""
        out, prev = [], None
        depth = 0
        for (t, k) in toks:
            if depth == 0 and t in ("(", "[") and k == 'n' and prev is not None and (prev[0].isalnum() or prev in (")", "]")):
                k = 'N'
            if t in ("(", "[", "{"): depth += 1
            if t in (")", "]", "}"): depth -= 1
            out.append((t, k))
            prev = t
        return out

    def block(self, d, n=None):
        out = self.w("{")
        for _ in range(n if n is not None else 1 + self.rng.below(3)):
            out += self.stmt(d)
        return out + self.line(self.w("}"))

    def lhs(self):
        r = self.rng.below(6)
        if r == 0: return self.w("a")
        if r == 1: return self.w("b")
        if r == 2: return self.w("s") + self.n("[") + self.glue(self.idx(1)) + self.n("]")
        if r == 3: return self.w("m") + self.n("[") + self.n('"k"') + self.n("]")
        if r == 4: return self.w("t") + self.n(".") + self.n("x")
        return self.w("t") + self.n(".") + self.n("p") + self.n(".") + self.n("s") + self.n("[") + self.n("0") + self.n("]")

    def stmt(self, d):
        r = self.rng.below(100)
        P = self.protect
        if d <= 0 or r < 16:
            return self.line(P(self.lhs()) + self.w("=") + self.ie(2))
        if r < 20: return self.line(P(self.lhs()) + self.n(",") + self.lhs() + self.w("=") + self.ie(1) + self.n(",") + self.ie(1))
        if r < 25: return self.line(P(self.lhs()) + self.w(self.rng.choice(["+=", "-=", "*=", "|="])) + self.ie(2))
        if r < 29: return self.line(P(self.lhs()) + self.n(self.rng.choice(["++", "--"])))
        if r < 33:
            v = self.ie(2)
            return self.line(self.w("ch") + self.w("<-") + [(v[0][0], 'B')] + v[1:])
        if r < 38: return self.line(P(self.w("f") + self.n("(") + self.glue(self.ie(2)) + self.n(")")))
        if r < 42: return self.line(P(self.w("t") + self.n(".") + self.n("m") + self.n("(") + self.glue(self.ie(2)) + self.n(")")))
        if r < 45: return self.line(self.w(self.rng.choice(["go", "defer"])) + self.w("f") + self.n("(") + self.glue(self.ie(1)) + self.n(")"))
        if r < 52:
            out = self.line(self.w("if") + self.be(1)) + self.block(d - 1)
            if self.rng.below(2):
                out += self.w("else") + self.block(d - 1)
            return out
        if r < 55:
            x = self.var()
            return self.line(self.w("if") + self.w(x) + self.w(":=") + self.ie(1) + self.n(";") + self.w(x) + self.w(">") + self.w("0")) + self.block(d - 1)
        if r < 60:
            x = self.var()
            return self.line(self.w("for") + self.w(x) + self.w(":=") + self.w("0") + self.n(";") + self.w(x) + self.w("<") + self.w("3") + self.n(";") + self.w(x) + self.n("++")) + self.block(d - 1)
        if r < 64:
            k, e = self.var(), self.var()
            return self.line(self.w("for") + self.w(k) + self.n(",") + self.w(e) + self.w(":=") + self.w("range") + self.w("s")) + \
                self.w("{") + self.line(self.w("_") + self.w("=") + self.w(k)) + self.line(self.w("_") + self.w("=") + self.w(e)) + self.line(self.w("}"))
        if r < 67:
            return self.line(self.w("for") + self.be(1)) + self.w("{") + self.line(self.w("break")) + self.line(self.w("}"))
        if r < 72:
            return self.line(self.w("switch") + self.w("a")) + self.w("{") + \
                self.line(self.w("case") + self.w("1") + self.n(",") + self.w("2") + self.n(":")) + self.stmt(d - 1) + \
                self.line(self.w("default") + self.n(":")) + self.stmt(d - 1) + self.line(self.w("}"))
        if r < 75:
            return self.line(self.w("switch")) + self.w("{") + self.line(self.w("case") + self.be(1) + self.n(":")) + self.stmt(d - 1) + self.line(self.w("}"))
        if r < 77:
            y = self.var()
            return self.line(self.w("switch") + self.w(y) + self.w(":=") + self.w("i") + self.n(".") + self.n("(") + self.n("type") + self.n(")")) + self.w("{") + \
                self.line(self.w("case") + self.w("int") + self.n(":")) + self.line(self.w("_") + self.w("=") + self.w(y)) + \
                self.line(self.w("default") + self.n(":")) + self.line(self.w("}"))
        if r < 80:
            e = self.var()
            return self.line(self.w("select")) + self.w("{") + \
                self.line(self.w("case") + self.w(e) + self.w(":=") + self.w("<-") + self.n("ch") + self.n(":")) + self.line(self.w("_") + self.w("=") + self.w(e)) + \
                self.line(self.w("case") + self.w("ch") + self.w("<-") + [("1", 'B')] + self.n(":")) + \
                self.line(self.w("default") + self.n(":")) + self.line(self.w("}"))
        if r < 84:
            x = self.var()
            return self.line(self.w(x) + self.w(":=") + self.ie(2)) + self.line(self.w("_") + self.w("=") + self.w(x))
        if r < 86:
            x = self.var()
            return self.line(self.w("var") + self.w(x) + self.w("int") + self.w("=") + self.ie(2)) + self.line(self.w("_") + self.w("=") + self.w(x))
        if r < 88:
            x = self.var()
            return self.line(self.w("var") + self.w(x) + self.w("=") + self.w("[]") + self.n("int") + self.n("{") + self.n("1") + self.n(",") + self.w("2") + self.n("}")) + \
                self.line(self.w("_") + self.w("=") + self.w(x))
        if r < 90:
            self.nlab += 1
            L = "L%d" % self.nlab
            return self.line(self.w(L) + self.n(":")) + self.line(self.w("for")) + self.w("{") + self.line(self.w("break") + self.w(L)) + self.line(self.w("}"))
        if r < 91:
            x = self.var()
            return self.line(self.w(x) + self.w(":=") + self.w(self.rng.choice(FLOAT_LITS))) + self.line(self.w("_") + self.w("=") + self.w(x))
        if r < 92: return self.line(self.w("_") + self.w("=") + self.be(2))
        if r < 94: return self.line(self.w("s") + self.w("=") + self.w("append") + self.n("(") + self.n("s") + self.n(",") + self.ie(1) + self.n(")"))
        if r < 95: return self.line(self.w("t") + self.w("=") + self.w("&") + self.n("T") + self.n("{") + self.n("x") + self.n(":") + self.ie(1) + self.n("}"))
        if r < 96: return self.line(self.w("m") + self.w("=") + self.w("map") + self.n("[") + self.n("string") + self.n("]") + self.n("int") + self.n("{") + self.n('"a"') + self.n(":") + self.ie(1) + self.n("}"))
        if r < 98:
            k = self.rng.below(3)
            sl = [self.n("1") + self.n(":") + self.n("2"), self.n(":") + self.n("a"), self.n("a") + self.n(":") + self.n("b") + self.n(":") + self.n("b")][k]
            return self.line(self.w("_") + self.w("=") + self.w("s") + self.n("[") + sl + self.n("]"))
        if r < 99: return self.line(self.w("func") + self.n("(") + self.n(")")) + self.block(d - 1, 1) + self.n("(") + self.n(")")
        return self.line(self.block(d - 1, 1))

    def var(self):
        self.nvar += 1
        return "x%d" % self.nvar

    def func(self, k):
        hdr = [("func", 'L'), ("fn%d" % k, 'w'), ("(", 'n'), ("a", 'n'), (",", 'n'), ("b", 'w'), ("int", 'w'), (",", 'n'), ("s", 'w'), ("[]", 'w'), ("int", 'n'),
               (",", 'n'), ("m", 'w'), ("map", 'w'), ("[", 'n'), ("string", 'n'), ("]", 'n'), ("int", 'n'), (",", 'n'), ("ch", 'w'), ("chan", 'w'), ("int", 'w'),
               (",", 'n'), ("t", 'w'), ("*", 'w'), ("T", 'n'), (",", 'n'), ("ok", 'w'), ("bool", 'w'), (",", 'n'), ("i", 'w'), ("interface", 'w'), ("{", 'n'), ("}", 'n'),
               (")", 'n'), ("(", 'w'), ("r", 'n'), ("int", 'w'), (")", 'n')]
        body = self.block(2, 2 + self.rng.below(4))
        return hdr + body[:-1] + self.line(self.w("return")) + body[-1:]


def wordlike(t):
    return t[0].isalnum() or t[0] in '_"'


def keep_blank(a, b):
    """must a blank stay between tokens a and b ?"""
    if wordlike(a) and wordlike(b): return True
    if a in ("(", ")", "[", "]", ",", ";", "{", "}", "[]") or b in ("(", ")", "[", "]", ",", ";", "{", "}"):
        return False
    if wordlike(a) or wordlike(b):
        if a[0].isdigit() and b.startswith("."): return True
        return False
    return True   # operator next to operator


def render(toks, rng=None, p_add=0, p_del=0, p_nl=0):
    """base style when rng is None; else a whitespace variant"""
    out = ""
    prev = None
    for (t, k) in toks:
        if prev is None:
            out += t
        elif k == 'L':
            out += "\n" + t
        else:
            blank = k in ('w', 'B')
            if rng is not None:
                if k == 'n' and rng.below(100) < p_add:
                    blank = True
                elif k == 'w' and rng.below(100) < p_del and not keep_blank(prev, t):
                    blank = False
            sep = ""
            if blank:
                sep = " "
                if rng is not None and prev in NL_AFTER and rng.below(100) < p_nl:
                    sep = "\n\t"
                elif rng is not None and rng.below(10) == 0:
                    sep = rng.choice(["  ", "\t"])
            if not blank and keep_blank(prev, t) and not (k in ('n', 'N')):
                sep = " "
            out += sep + t
        prev = t
    return out + "\n"


def gen_file(rng, nfunc=3):
    g = Gen(rng)
    toks = []
    for k in range(nfunc):
        toks += g.func(k)
    return toks



CRAFT = {
    "generic-func": "package p\nfunc F[T any](x T) T { return x }\n",
    "generic-func-call": "package p\nfunc F[T any](x T) T { return x }\nvar y = F[int](1)\n",
    "generic-type": "package p\ntype L[T any] struct{ v T }\nvar l L[int]\n",
    "generic-type-2": "package p\ntype M[K comparable, V any] map[K]V\n",
    "union": "package p\ntype N interface{ int | string }\n",
    "tilde": "package p\ntype N interface{ ~int }\n",
    "dollar-ident": "package p\nvar s = \"$id\"\n",
    "dollar-brace": "package p\nvar s = \"${x}\"\n",
    "dollar-raw": "package p\nvar s = `${ x }`\n",
    "dollar-end": "package p\nvar s = \"a$\"\n",
    "dollar-dollar": "package p\nvar s = \"$$\"\n",
    "dollar-digit": "package p\nvar s = \"cost $5\"\n",
    "dollar-two": "package p\nvar s = \"$a and ${b}\"\n",
    "dollar-char": "package p\nvar c = '$'\n",
    "tilde-expr": "package p\nvar x = 1\nvar y = ^x\n",
    "label-goto": "package p\nfunc f() {\nL:\n\tgoto L\n}\n",
    "iota": "package p\nconst (\n\tA = iota\n\tB\n)\n",
    "method-expr": "package p\ntype T int\nfunc (T) m() {}\nvar f = T.m\nvar g = (*T).m\n",
    "chan-types": "package p\nvar a chan<- int\nvar b <-chan int\nvar c chan (<-chan int)\n",
    "struct-tags": "package p\ntype T struct {\n\tA int `json:\"a\"`\n\tB, C string\n\tT\n\t*U\n}\ntype U struct{}\n",
    "func-types": "package p\nvar f func(int, ...string) (a, b int)\nvar g func()\n",
    "array-ellipsis": "package p\nvar a = [...]int{1, 2, 3}\nvar b = [2][3]int{}\n",
    "anon-struct": "package p\nvar a = struct{ x int }{1}\n",
    "typeswitch": "package p\nfunc f(i interface{}) {\n\tswitch i.(type) {\n\tcase int, string:\n\tcase nil:\n\t}\n}\n",
    "select-forever": "package p\nfunc f(c chan int) {\n\tselect {}\n\tfor range c {\n\t}\n}\n",
    "range-int": "package p\nfunc f() {\n\tfor i := range 10 {\n\t\t_ = i\n\t}\n}\n",
    "imports": "package p\nimport (\n\t\"fmt\"\n\t. \"os\"\n\t_ \"io\"\n\tx \"path\"\n)\nvar _ = fmt.Sprint\nvar _ = Args\nvar _ = x.Base\n",
    "numeric-literals": "package p\nvar (\n" + "".join("\ti%d = %s\n" % (k, v) for k, v in enumerate(INT_LITS)) +
                        "".join("\tf%d = %s\n" % (k, v) for k, v in enumerate(FLOAT_LITS)) + ")\nvar y = 0XFF + 0B11*0O7 - 0X1P+2\n",
        "keyword-field": "package p\ntype T struct{ in int }\nvar in = T{}.in\n",
}

WS_BASE = [
    "s[0] = 1", "m[\"k\"]++", "s[0], b = 1, 2", "f(a)", "v()", "t.m(1)", "ch <- a", "s[0] += 2", "t.p.s[a] = 1", "fs(a)(b)", "fp(a)[0] = 1",
    "s = append(s, 1)", "a = f(b)", "a, b = b, a", "*pa = 1", "(*t).x = 1", "ss[a][b] = 0", "go f(a)", "defer t.m(1)",
    "if f(a) > 0 {\n}", "for s[0] < 1 {\nbreak\n}", "switch f(a) {\n}", "a = -b", "a = b - 1", "a = b -1", "a = *pa", "a = <-ch", "t.x++", "a = s[f(b)]",
    "L: for {\nbreak L\n}", "_ = s[1:2]", "r = t.m(a) + f(b)",
]
WS_HDR = PRELUDE + "\nfunc fs(a int) func(int) int { return f }\n\nfunc fp(a int) []int { return nil }\n\n" \
    "func fn(a, b int, s []int, ss [][]int, m map[string]int, ch chan int, t *T, pa *int) (r int) {\n"
WS_TOK = re.compile(r'"[^"]*"|<-|\+\+|--|\+=|[A-Za-z_][A-Za-z_0-9]*|\d+|\n|\S')


def ws_variants(stmt):
    toks, pos = [], 0
    for m in WS_TOK.finditer(stmt):
        toks.append((m.group(0), stmt[pos:m.start()]))
        pos = m.end()
    out = []
    for i in range(1, len(toks)):
        t, ws = toks[i]
        if t == "\n" or toks[i - 1][0] == "\n":
            continue
        if ws == "":
            new = " "
        elif ws == " " and not keep_blank(toks[i - 1][0], t):
            new = ""
        else:
            continue
        out.append("".join((new if j == i else w) + x for j, (x, w) in enumerate(toks)))
    return out

# ---------------------------------------------------------------- token sequences for the model correspondence
WORDS = ("x", "1")
BR = ("(", ")", "[", "]", ",")
BINOPS = ["+", "-", "*", "/", "%", "&", "|", "^", "<<", ">>", "&^", "&&", "||", "==", "!=", "<", "<=", ">", ">=", "->", "<>"]
UNOPS = ["+", "-", "!", "^", "&", "<-", "*"]
ASSIGN = [":=", "=", "+=", "-=", "*=", "/=", "%=", "&=", "|=", "^=", "<<=", ">>=", "&^="]
ALPHA = ["x", "x", "1", "(", ")", "[", "]", ",", ".", "...", "!", "?", "=>", "=", "++", "--", "<-"] + BINOPS + UNOPS + [":=", "+="]

def gen_expr(rng, depth, xgo=True):
    r = rng.below(100)
    if depth <= 0 or r < 22:
        return ["x"] if rng.below(3) else ["1"]
    if r < 30:
        return ["("] + gen_expr(rng, depth - 1) + [")"]
    if r < 40:
        return [rng.choice(UNOPS)] + gen_expr(rng, depth - 1)
    if r < 62:
        ops = BINOPS if rng.below(12) == 0 else BINOPS[:-2]
        return gen_expr(rng, depth - 1) + [rng.choice(ops)] + gen_expr(rng, depth - 1)
    if r < 70:
        return gen_expr(rng, depth - 1) + [".", "x"]
    if r < 78:
        return gen_expr(rng, depth - 1) + ["["] + gen_expr(rng, depth - 1) + ["]"]
    if r < 92:
        n = rng.below(4)
        a = []
        for i in range(n):
            if i:
                a.append(",")
            a += gen_expr(rng, depth - 1)
        if n and rng.below(8) == 0:
            a.append("...")
        if n and rng.below(10) == 0:
            a.append(",")
        return gen_expr(rng, depth - 1) + ["("] + a + [")"]
    if r < 95:
        return gen_expr(rng, depth - 1) + [rng.choice(["!", "?"])]
    if r < 98:
        return rng.choice([["x"], ["(", "x", ")"], ["(", "(", "x", ")", ")"]]) + ["=>"] + gen_expr(rng, depth - 1)
    return ["x"]

def gen_stmt(rng):
    r = rng.below(100)
    lhs = gen_expr(rng, 2)
    if rng.below(5) == 0:
        lhs += [","] + gen_expr(rng, 1)
    if r < 35:
        rhs = gen_expr(rng, 2)
        if rng.below(4) == 0:
            rhs += [","] + gen_expr(rng, 1)
        return lhs + [rng.choice(ASSIGN)] + rhs
    if r < 50:
        return lhs + ["<-"] + gen_expr(rng, 2)
    if r < 60:
        return lhs + [rng.choice(["++", "--"])]
    return lhs

def mutate(rng, toks):
    toks = list(toks)
    for _ in range(1 + rng.below(2)):
        k = rng.below(3)
        i = rng.below(len(toks) + 1)
        if k == 0 and toks:
            del toks[min(i, len(toks) - 1)]
        elif k == 1:
            toks.insert(i, rng.choice(ALPHA))
        elif toks:
            toks[min(i, len(toks) - 1)] = rng.choice(ALPHA)
    return toks

def need_blank(a, b):
    if a in WORDS and b in WORDS:
        return True
    if a == "1" and b in (".", "..."):
        return True
    if a in (".", "...") and b == "1":
        return True
    if a in BR or b in BR:
        return False
    if a in WORDS or b in WORDS:
        return False
    return True

def render_toks(rng, toks, style):
    """-> (source text, blank bits); style 0 = random, 1 = minimal blanks, 2 = blanks everywhere"""
    src, bits = "", []
    for i, t in enumerate(toks):
        b = False
        if i > 0:
            if need_blank(toks[i - 1], t) or style == 2:
                b = True
            elif style == 0:
                b = rng.below(3) == 0
        bits.append(b)
        src += (" " if b else "") + t
    return src, bits

def code_of(sp, consts, t):
    if t == "x": return consts["IDENT"]
    if t == "1": return consts["INT"]
    return sp[t]



EXH_ALPHA = ["x", "1", "(", ")", "[", "]", ",", ".", "+", "-", "*", "!", "<-", "=", ":=", "=>", "?", "...", "++", "&"]


def run(ctx):
    ctx.regen(["tokens"])
    ctx.prove("C14")
    tj = ctx.gen_json("tokens")["xgo_"]
    sp = {v: int(k) for k, v in tj["spelling"].items() if v}
    consts = tj["consts"]
    model = ctx.model("c14")
    impl = ctx.harness("c14")

    # ------------------------------------------------------------------ B: model ~ both parsers
    icases, mcases, srcs = [], [], []

    def add(mode, toks, style):
        src, bits = render_toks(ctx.rng, toks, style)
        k = "k%d" % len(icases)
        icases.append("%s %s %s" % (mode, k, (src + "\n").encode().hex() if mode == "Y" else src.encode().hex()))
        mcases.append("%s %s %s" % (mode, k, " ".join("%d%s" % (code_of(sp, consts, t), "b" if b else "") for t, b in zip(toks, bits))))
        srcs.append((mode, src))

    L = ctx.n(3, 4)
    import itertools
    nexh = 0
    for n in range(1, L + 1):
        alpha = EXH_ALPHA if n <= 2 or (n == 3 and not ctx.quick) else (EXH_ALPHA[:16] if n == 3 else EXH_ALPHA[:14])
        for seq in itertools.product(alpha, repeat=n):
            for mode in ("X", "Y"):
                for style in (1, 2):
                    add(mode, list(seq), style)
                    nexh += 1
    nseed = ctx.n(5000, 300000)
    for _ in range(nseed):
        mode = "X" if ctx.rng.below(2) else "Y"
        toks = gen_expr(ctx.rng, 3) if mode == "X" else gen_stmt(ctx.rng)
        if ctx.rng.below(3) == 0:
            toks = mutate(ctx.rng, toks)
        if not toks:
            toks = ["x"]
        add(mode, toks, ctx.rng.below(3))
    ctx.log("model correspondence: %d cases generated" % len(icases))
    rc1, out1 = ctx.run([impl], input="\n".join(icases) + "\n")
    ctx.log("implementation side done")
    rc2, out2 = ctx.run([model], input="\n".join(mcases) + "\n")
    ctx.log("model side done")
    agree = skipped = 0
    outcome = {}
    if rc1 != 0 or rc2 != 0:
        ctx.broken("correspondence(c14:run)", "impl rc=%d model rc=%d %s %s" % (rc1, rc2, out1[-300:], out2[-300:]))
    else:
        o1, o2 = out1.splitlines(), out2.splitlines()
        if len(o1) != len(icases) or len(o2) != len(icases):
            ctx.broken("correspondence(c14:run)", "line counts: cases=%d impl=%d model=%d" % (len(icases), len(o1), len(o2)))
        else:
            diffs = []
            conserv = []
            for (mode, s), a, b in zip(srcs, o1, o2):
                fa, fb = a.split("\t"), b.split("\t")
                for side, name in ((1, "go"), (2, "xgo")):
                    x, y = fa[side].split("=", 1)[1], fb[side].split("=", 1)[1]
                    if y == "UNSUP" or "(?" in x:
                        skipped += 1
                        continue
                    k = "%s:%s:%s" % (mode, name, "ERR" if y == "ERR" else "ok")
                    outcome[k] = outcome.get(k, 0) + 1
                    if x != y:
                        diffs.append((mode, name, s, x, y))
                    else:
                        agree += 1
                # the property itself on the real parsers (expression / statement level)
                g, x = fa[1][3:], fa[2][4:]
                if g not in ("ERR", "PANIC") and "(?" not in g and g != x:
                    conserv.append((mode, s, g, x))
            if diffs:
                m, n, s, x, y = diffs[0]
                ctx.broken("correspondence(model ~ %s parser)" % n, "%d dialect-cases differ; first: %s %r impl=%s model=%s" % (len(diffs), m, s, x, y))
                ctx.notes["disagreements"] = [{"mode": m, "dialect": n, "src": s, "impl": x, "model": y} for m, n, s, x, y in diffs[:20]]
            ctx.notes["small_scope_go_ok_xgo_differs"] = len(conserv)
            ctx.notes["small_scope_go_ok_xgo_differs_samples"] = [{"mode": m, "src": s, "go": g, "xgo": x} for m, s, g, x in conserv[:8]]
            # expression level: any counterexample is a violation of the property (none is known)
            for m, s, g, x in conserv:
                if m == "X":
                    ctx.fail("expr:" + s.replace(" ", "_"), "ParseExpr(%r): go/parser gives %s, the XGo parser %s" % (s, g, x), {"src": s, "go": g, "xgo": x})
    ctx.cover(evaluations=2 * len(icases), distinct_nontrivial=len(set(c.split(" ", 2)[2] for c in mcases if len(c.split()) >= 5)),
              samples=[{"mode": srcs[i][0], "src": srcs[i][1], "model_case": mcases[i]} for i in (nexh + 1, nexh + 7, 777) if i < len(srcs)],
              rule="model correspondence: every token sequence of length <= %d over %s (quick: length 3 over the first 16 tokens; length 4 over the first 14) as expression and as statement, in minimal-blank and all-blank "
                   "spacing (%d cases) + %d seeded grammar-generated / mutated sequences with random spacing; each case run under both dialects "
                   "against go/parser and the XGo parser; cases where the model says UNSUP or the real tree leaves the core are skipped (%d dialect-cases); "
                   "non-trivial = distinct token sequence with >= 3 tokens" % (L, EXH_ALPHA, nexh, nseed, skipped),
              exhaustive_part=nexh, model_agree=agree, model_skipped=skipped, model_outcomes=outcome)

    # ------------------------------------------------------------------ C: structural comparison on files
    cases = []   # (key, line)
    repo = vlib.REPO
    nrepo = 0
    for root, dirs, files in os.walk(repo):
        dirs[:] = sorted(d for d in dirs if d != ".git")
        for f in sorted(files):
            if f.endswith(".go"):
                p = os.path.join(root, f)
                cases.append(("repo:" + os.path.relpath(p, repo), "F %s %s" % ("repo:" + os.path.relpath(p, repo), p)))
                nrepo += 1
    rc, goroot = vlib.sh(["go", "env", "GOROOT"], env=vlib.GOENV)
    goroot = goroot.strip()
    ngoroot = 0
    for pkg in GOROOT_PKGS if ctx.quick else GOROOT_PKGS + ["net/http", "go/build", "os/exec", "text/template/parse", "encoding/xml", "math/big", "archive/tar", "compress/flate"]:
        d = os.path.join(goroot, "src", pkg)
        if not os.path.isdir(d):
            continue
        for f in sorted(os.listdir(d)):
            if f.endswith(".go") and not f.endswith("_test.go"):
                cases.append(("goroot:%s/%s" % (pkg, f), "F goroot:%s/%s %s" % (pkg, f, os.path.join(d, f))))
                ngoroot += 1
    for name, src in CRAFT.items():
        cases.append(("craft:" + name, "S craft:%s %s" % (name, src.encode().hex())))
    nws = 0
    for b in WS_BASE:
        for v in [b] + ws_variants(b):
            key = "ws:" + v.replace(" ", "_").replace("\n", "\\n")
            cases.append((key, "T %s %s" % (key, (WS_HDR + v + "\nreturn\n}\n").encode().hex())))
            nws += 1
    ndet = len(cases)
    ngen = ctx.n(120, 6000)
    gens = []
    for n in range(ngen):
        toks = gen_file(ctx.rng)
        base = PRELUDE + render(toks)
        gens.append(base)
        cases.append(("gen:" + vlib.sha(base), "T gen:%s %s" % (vlib.sha(base), base.encode().hex())))
        for _ in range(3):
            v = PRELUDE + render(toks, ctx.rng, 25, 25, 10)
            cases.append(("gen:" + vlib.sha(v), "T gen:%s %s" % (vlib.sha(v), v.encode().hex())))
    ctx.log("tree comparison: %d files/sources" % len(cases))
    rc, out = ctx.run([impl], input="\n".join(l for _, l in cases) + "\n", timeout=ctx.n(100, 3000))
    ctx.log("tree comparison done")
    lines = out.splitlines()
    hist, illtyped = {}, []
    if rc != 0 or len(lines) != len(cases):
        ctx.broken("oracle(c14:files)", "rc=%d lines=%d cases=%d %s" % (rc, len(lines), len(cases), out[-300:]))
    else:
        for (key, line), o in zip(cases, lines):
            f = o.split("\t")
            verdict, detail = f[1], (f[2] if len(f) > 2 else "")
            cls = key.split(":")[0]
            hist[cls + ":" + verdict] = hist.get(cls + ":" + verdict, 0) + 1
            if verdict in ("same", "notgo"):
                continue
            if verdict == "illtyped":
                illtyped.append((key, detail))
                continue
            rep = {"key": key, "verdict": verdict, "detail": detail}
            if line.startswith("F "):
                rep["path"] = line.split(" ", 2)[2]
            else:
                rep["src"] = bytes.fromhex(line.split(" ", 2)[2]).decode("utf-8", "replace")
            ctx.fail(key, "%s: %s %s" % (key, verdict, detail[:200]), rep)
        if illtyped:
            ctx.broken("generator(c14)", "%d generated files do not type-check, e.g. %s: %s" % (len(illtyped), illtyped[0][0], illtyped[0][1]))
    ctx.cover(evaluations=len(cases), distinct_nontrivial=len(set(k for k, _ in cases)),
              samples=[{"key": cases[ndet][0], "src": gens[0][len(PRELUDE):len(PRELUDE) + 400]}, {"key": cases[ndet - 3][0]}, {"key": cases[5][0]}],
              rule="tree comparison: %d .go files of /repo, %d files of %d GOROOT/src packages (fixed list), %d crafted feature files, %d whitespace "
                   "variants (one blank toggled at every token boundary of %d base statements), %d seeded generated files checked with go/types, each in "
                   "base style and 3 whitespace variants (blanks added before any token except a statement-head call parenthesis / index bracket, "
                   "blanks removed where tokens stay separate, newlines after binary operators, commas and opening brackets; the send arrow keeps its "
                   "blank on both sides); integer / float literals are drawn from both letter cases of radix prefixes, exponents and hex digits; the generator produces no generics, no '$' in string literals and no command-style spacing: those dimensions are "
                   "covered by the deterministic sets; non-trivial = distinct file" % (nrepo, ngoroot, len(GOROOT_PKGS), len(CRAFT), nws, len(WS_BASE), ngen),
              file_verdicts=dict(sorted(hist.items())))
    ctx.assume("go/parser and go/types of the installed toolchain (go1.23) define 'valid Go'; function bodies are compared by the harness' own "
               "reflection walk because fromgo.ASTFile drops them")
    ctx.trust("modelled, not verified: the expression / simple-statement core of parser/parser.go (parseLambdaExpr, parseBinaryExpr, tokPrec, "
              "parseUnaryExpr, parsePrimaryExpr, isCmd, checkCmd, parseOperand, parseCallOrConversion, atComma, parseIndexOrSlice, parseExprList, "
              "parseSimpleStmtEx) as Model/C14.v; tied by the small-scope exhaustive + seeded differential run against the XGo parser and go/parser",
              "token tables and both Precedence functions are regenerated from token/token.go and GOROOT/src/go/token (Gen/Tokens.v)")
