"""C09 — line directives map every statement back to its XGo source line (cl/stmt.go commentStmt,
commentStmtEx, commentFunc; the cb.comments backup/restore discipline of the compile*Stmt functions;
cl/compile.go loadFuncBody / lazy function loading).

A  Props/C09.v : C09_directive_maps_first_line (all packages whose doc comments are adjacent), C09_stmts_anchored,
   C09_go_line_of_anchored, C09_tags_exact, C09_every_statement_emitted, C09_all_functions_emitted, C09_compile_total, C09_directive_file_resolves,
   C09_directive_maps_first_line_refuted_without_guard (block-comment doc of a local declaration)
B  K-diff, two sided, on generated multi-file packages (one `go build`, one run):
   (shape)    per emitted function, the sequence of //line directives, doc lines and code lines of the Go text
              produced by cl.NewPackage(NoFileLine=false)  ==  the model's `compile_prog` on the statement tree
              the harness projects from the REAL parser AST (positions from the real FileSet)
   (runtime)  (file,line) reported by runtime.Caller(1) inside every executed mark(k) call, and the entry line
              of every function (runtime.FuncForPC(pc).FileLine(entry))  ==  the model's go_line_of prediction
C  direct oracle: every executed mark(k) that is the first marked call on the first line of its statement
   reports exactly that statement's XGo file and line; every function entry reports the line of its name.
"""
import json
import os
import re

import vlib

CLAIM = {
    "level": "proof",
    "text": "Coq theorem over a model of cl's //line machinery that follows cl/stmt.go statement kind by statement "
            "kind (CodeBuilder.comments set / backed up / restored / reset, statements emitted with the comment held at "
            "that moment, lazy loading of function bodies in the middle of the referring statement on the shared "
            "CodeBuilder): for every package whose doc comments are adjacent to their declarations, every statement's "
            "first code line and every function header is attributed by Go's //line semantics to its XGo file and line; "
            "every positioned statement does get such a line (exact, ordered); the model terminates within the stated "
            "fuel; without the guard the model refutes the property (proved witness = the known finding). The model is "
            "tied to /repo on every run by a structural comparison of the emitted Go text with the model's layout and by "
            "building and running the generated programs once and comparing runtime.Caller positions with the model.",
    "note": "Modelled, not verified: cl/stmt.go, cl/expr.go (function literals, lambdas), cl/compile.go (loadFunc, "
            "loadFuncBody, load order). The text layout of a commented statement is gogen's printer (outside /repo): "
            "modelled as observed and re-checked structurally on every run. Go's //line semantics is the hand-written "
            "go_line_of, validated by the runs. Not generated: goroutines, goto, init functions, package-level "
            "initialisers with calls/function literals, grouped var/const declarations, class files.",
}

MARK_SRC = '''func mark(id int) int {
	pc, f, l, _ := runtime.Caller(1)
	fn := runtime.FuncForPC(pc)
	ef, el := fn.FileLine(fn.Entry())
	println "M", "%s", id, f, l, fn.Name(), ef, el
	return id
}

func call(a int, f func()) {
	f()
}

func call1(f func(int) int) int {
	return f(1)
}

type T struct {
	n int
}
'''


class Gen:
    """Structured generator of XGo function bodies; every choice comes from the one seeded stream."""

    def __init__(self, rng, pkg, first_id=1):
        self.rng, self.pkg = rng, pkg
        self.n = first_id - 1
        self.v = 0
        self.hist = {}

    def mark(self):
        self.n += 1
        return "mark(%d)" % self.n

    def last(self):
        return self.n

    def var(self, p="v"):
        self.v += 1
        return "%s%d" % (p, self.v)

    def count(self, k):
        self.hist[k] = self.hist.get(k, 0) + 1

    def filler(self, ind):
        """blank lines / free comments between statements: makes source lines non-contiguous"""
        r = self.rng.below(10)
        t = "\t" * ind
        if r < 5:
            return []
        if r < 7:
            return [""]
        if r < 8:
            return ["", ""]
        if r < 9:
            return [t + "// note", ""]
        return [t + "/* free", t + "   comment */", ""]

    def body(self, depth, ind, callable_, lo=1, hi=4):
        out = []
        for _ in range(lo + self.rng.below(hi - lo + 1)):
            out += self.filler(ind)
            out += self.stmt(depth, ind, callable_)
        return out

    def cond(self, truth=None):
        if truth is None:
            truth = self.rng.below(3) != 0
        return "%s %s 0" % (self.mark(), ">" if truth else "<")

    def stmt(self, depth, ind, callable_):
        t = "\t" * ind
        kinds = ["expr", "assign", "decl", "declDoc", "incdec", "send", "callfn", "lam", "multiline"]
        if depth > 0:
            kinds += ["if", "ifInit", "ifElse", "ifChain", "for3", "forNoInit", "forNoPost", "forCond", "forEver",
                      "range", "rangeNoVar", "phrase", "phraseIf", "rangeExpr", "rangeExprIf", "switch", "switchInit",
                      "switchNoTag", "typeSwitch", "select", "labeled", "block", "funclit", "funclitAssign",
                      "funclitArg", "lam2", "deferLit"] * 1
        k = self.rng.choice(kinds)
        self.count(k)
        B = lambda lo=1, hi=3: self.body(depth - 1, ind + 1, callable_, lo, hi)
        if k == "expr":
            return [t + self.mark()]
        if k == "assign":
            v = self.var()
            return [t + "%s := %s" % (v, self.mark()), t + "_ = %s" % v]
        if k == "decl":
            v = self.var()
            r = self.rng.below(3)
            if r == 0:
                return [t + "var %s = %s" % (v, self.mark()), t + "_ = %s" % v]
            if r == 1:
                return [t + "var %s int = %s" % (v, self.mark()), t + "_ = %s" % v]
            return [t + "const %s = 3" % v, t + "type t%s int" % v]
        if k == "declDoc":
            v = self.var()
            doc = [t + "// doc of %s" % v] * (1 + self.rng.below(3))
            return [""] + doc + [t + "var %s = %s" % (v, self.mark()), t + "_ = %s" % v]
        if k == "incdec":
            v = self.var("c")
            return [t + "%s := %s" % (v, self.mark()), t + "%s++" % v, t + "%s--" % v]
        if k == "send":
            v = self.var("ch")
            return [t + "%s := make(chan int, 1)" % v, t + "%s <- %s" % (v, self.mark()), t + "<-%s" % v]
        if k == "callfn":
            if not callable_:
                return [t + self.mark()]
            f = self.rng.choice(callable_)
            # the reference to the (possibly not yet loaded) function sits in a statement that also holds a mark
            if f.endswith("()") and not f.startswith("_ =") and not f.startswith("new("):
                return [t + "call(%s, %s)" % (self.mark(), f[:-2])]
            if f.startswith("_ = "):
                return [t + "_ = %s + %s" % (self.mark(), f[4:])]
            return [t + f]
        if k == "lam":
            return [t + "call1(x => %s)" % self.mark()]
        if k == "multiline":
            return [t + "call(%s," % self.mark(), t + "\tfunc() {"] + B(0, 2) + [t + "\t})"]
        if k == "if":
            return [t + "if %s {" % self.cond()] + B() + [t + "}"]
        if k == "ifInit":
            v = self.var()
            return [t + "if %s := %s; %s > 0 {" % (v, self.mark(), v)] + B() + [t + "}"]
        if k == "ifElse":
            return [t + "if %s {" % self.cond()] + B() + [t + "} else {"] + B() + [t + "}"]
        if k == "ifChain":
            v = self.var()
            out = [t + "if %s {" % self.cond(False)] + B(0, 2)
            out += [t + "} else if %s := %s; %s < 0 {" % (v, self.mark(), v)] + B(0, 2)
            out += [t + "} else if %s {" % self.cond()] + B()
            if self.rng.below(2):
                out += [t + "} else {"] + B()
            return out + [t + "}"]
        if k == "for3":
            v = self.var("i")
            return [t + "for %s := %s * 0; %s < 1; %s++ {" % (v, self.mark(), v, v)] + B() + [t + "}"]
        if k == "forNoInit":
            v = self.var("i")
            return [t + "%s := 0" % v, t + "for ; %s < %s*0+1; %s++ {" % (v, self.mark(), v)] + B() + [t + "}"]
        if k == "forNoPost":
            v = self.var("i")
            return [t + "for %s := %s * 0; %s < 1; {" % (v, self.mark(), v), t + "\t%s++" % v] + B() + [t + "}"]
        if k == "forCond":
            v = self.var("i")
            return [t + "%s := 0" % v, t + "for %s < %s*0+1 {" % (v, self.mark()), t + "\t%s++" % v] + B() + [t + "}"]
        if k == "forEver":
            return [t + "for {"] + B() + [t + "\tbreak", t + "}"]
        if k == "range":
            v = self.var()
            return [t + "for _, %s := range []int{%s} {" % (v, self.mark()), t + "\t_ = %s" % v] + B() + [t + "}"]
        if k == "rangeNoVar":
            return [t + "for range []int{%s} {" % self.mark()] + B() + [t + "}"]
        if k == "phrase":
            v = self.var()
            return [t + "for %s <- [%s] {" % (v, self.mark()), t + "\t_ = %s" % v] + B() + [t + "}"]
        if k == "phraseIf":
            v = self.var()
            return [t + "for %s <- [%s] if %s > 0 {" % (v, self.mark(), v)] + B() + [t + "}"]
        if k == "rangeExpr":
            v = self.var("i")
            r = self.rng.below(3)
            hdr = ["0:1", "%s*0:1" % self.mark() if r == 1 else "0:1", "0:%s*0+2:2" % self.mark() if r == 2 else "0:1"][r]
            return [t + "for %s <- %s {" % (v, hdr), t + "\t_ = %s" % v] + B() + [t + "}"]
        if k == "rangeExprIf":
            v = self.var("i")
            return [t + "for %s <- 0:2 if %s > 0 {" % (v, v)] + B() + [t + "}"]
        if k in ("switch", "switchInit", "switchNoTag"):
            out = []
            if k == "switch":
                out.append(t + "switch %s {" % self.mark())
                tagval = self.last()
            elif k == "switchInit":
                v = self.var()
                out.append(t + "switch %s := %s; %s {" % (v, self.mark(), v))
                tagval = self.last()
            else:
                out.append(t + "switch {")
                tagval = None
            ncl = 1 + self.rng.below(3)
            hit = self.rng.below(ncl)
            for i in range(ncl):
                if tagval is None:
                    out.append(t + "case %s:" % self.cond(i == hit))
                elif i == hit:
                    out.append(t + "case %d:" % tagval)
                else:
                    out.append(t + "case %s + 100000:" % self.mark())
                out += B(0, 2)
                if i + 1 < ncl and self.rng.below(3) == 0:
                    out.append(t + "\tfallthrough")
            if self.rng.below(2):
                out.append(t + "default:")
                out += B(0, 2)
            return out + [t + "}"]
        if k == "typeSwitch":
            v = self.var()
            out = [t + "switch %s := any(%s).(type) {" % (v, self.mark()), t + "case string:", t + "\t_ = %s" % v]
            out += [t + "case int:", t + "\t_ = %s" % v] + B() + [t + "default:"] + B(0, 1)
            return out + [t + "}"]
        if k == "select":
            ch, v = self.var("ch"), self.var()
            out = [t + "%s := make(chan int, 1)" % ch, t + "%s <- %s" % (ch, self.mark()), t + "select {"]
            out += [t + "case %s := <-%s:" % (v, ch), t + "\t_ = %s" % v] + B()
            if self.rng.below(2):
                out += [t + "default:"] + B(0, 1)
            return out + [t + "}"]
        if k == "labeled":
            lb = self.var("L")
            return [t[:-1] + lb + ":", t + "for {"] + B() + [t + "\tbreak " + lb, t + "}"]
        if k == "block":
            return [t + "{"] + B(1, 3) + [t + "}"]
        if k == "funclit":
            return [t + "func() {"] + B() + [t + "}()"]
        if k == "funclitAssign":
            v = self.var("fn")
            return [t + "%s := func() int {" % v] + B() + [t + "\treturn " + self.mark(), t + "}", t + "_ = %s()" % v]
        if k == "funclitArg":
            return [t + "call(%s, func() {" % self.mark()] + B() + [t + "})"]
        if k == "lam2":
            if self.rng.below(2):
                return [t + "call(%s, => {" % self.mark()] + B() + [t + "})"]
            return [t + "call1(x => {"] + B() + [t + "\treturn x", t + "})"]
        if k == "deferLit":
            return [t + "defer func() {"] + B() + [t + "}()"]
        raise AssertionError(k)

    def func_doc(self):
        r = self.rng.below(6)
        if r < 3:
            return []
        if r < 5:
            return ["// doc line"] * (1 + self.rng.below(3))
        return ["/* block doc", "   second line */"]


def gen_package(rng, idx, main=False):
    pkg = "main" if main else "p%d" % idx
    g = Gen(rng, pkg)
    nfiles = 1 if main else 1 + rng.below(2)
    # plan the functions first: with direction "forward" a body only calls functions declared LATER (their bodies
    # are then compiled lazily in the middle of the calling statement), with "backward" only earlier ones:
    # the call graph stays acyclic either way
    direction = ["backward", "forward"][rng.below(2)]
    plan = []
    fno = 0
    for fi in range(nfiles):
        for _ in range(1 + rng.below(3)):
            fno += 1
            kind = rng.below(4)
            if kind == 0:
                plan.append((fi, "m%d" % fno, "method", "new(T).m%d()" % fno))
            elif kind == 1:
                plan.append((fi, "f%d" % fno, "result", "_ = f%d()" % fno))
            else:
                plan.append((fi, "f%d" % fno, "plain", "f%d()" % fno))
    files = []
    runcalls = [c for (_, _, _, c) in plan]
    for fi in range(nfiles):
        lines = ["package %s" % pkg, ""]
        if fi == 0:
            lines += ['import "runtime"', ""] + (MARK_SRC % pkg).split("\n")
        for k, (pfi, name, kind, call) in enumerate(plan):
            if pfi != fi:
                continue
            others = plan[:k] if direction == "backward" else plan[k + 1:]
            callable_ = [c for (_, _, kd, c) in others if kd != "method" or direction == "backward"]
            lines += [""] * (1 + rng.below(2))
            lines += g.func_doc()
            depth = 1 + rng.below(3)
            if kind == "method":
                lines.append("func (t *T) %s() {" % name)
                lines += g.body(depth, 1, callable_, 1, 5)
                lines.append("}")
            elif kind == "result":
                lines.append("func %s() int {" % name)
                lines += g.body(depth, 1, callable_, 1, 5)
                lines += ["\treturn " + g.mark(), "}"]
            else:
                lines.append("func %s() {" % name)
                lines += g.body(depth, 1, callable_, 1, 5)
                lines.append("}")
        if fi == nfiles - 1:
            lines += [""]
            if main:
                # shadow entry: top-level statements
                lines += runcalls
                lines += g.body(2, 0, runcalls, 2, 5)
            else:
                lines += g.func_doc()
                lines.append("func Run() {")
                lines += ["\t" + c for c in runcalls]
                lines.append("}")
        name = "main.xgo" if main else ["a.xgo", "b.xgo"][fi]
        files.append({"name": name, "src": "\n".join(lines) + "\n"})
    relbase = ["pkg", "root", "abs", "sub", "sib"][rng.below(5)]
    g.hist["calls:" + direction] = 1
    g.hist["relbase:" + relbase] = 1
    return {"pkg": pkg, "dir": "." if main else pkg, "relbase": relbase, "files": files}, g.hist


# ---------------------------------------------------------------------------------------------------------
# deterministic (seed independent) set: regression programs + the inputs of the known findings

DET_HEAD = "package %s\n\nimport \"runtime\"\n\n" + MARK_SRC

DET = {
    # regression (fixed by /repo 8b20189): the first reference to a function declared later compiles its body in
    # the middle of the referring statement; it used to leave ITS last directive (or none) in cb.comments
    "fwdref": '''
func F() {
	mark(1)
	foo(mark(2))
	mark(3)

	bar(mark(4))

	mark(5)
}

func foo(a int) {
	mark(6)
}

func bar(a int) {
}

func Run() {
	F()
}
''',
    # block comment as the doc of a local declaration: gogen prints the declaration on the line where the
    # comment ends, one line above where it is written
    "blockdoc": '''
func F() {
	mark(1)
	/* doc of z
	   second line */
	var z = mark(2)
	_ = z
	mark(3)
}

func Run() {
	F()
}
''',
    # regression: everything in one function, no forward reference
    "allkinds": '''
// doc of F
// second doc line
func F(x int, ch chan int) int {
	// doc for y
	var y = mark(1)
	var z = mark(2)

	if a := mark(3); a > 0 {
		mark(4)
	}
	switch b := mark(5); b {
	case mark(6) - 1:
		mark(7)
		fallthrough
	case 9:
		mark(8)
	}
	switch v := any(x).(type) {
	case int:
		mark(9)
		_ = v
	}
	ch <- 1
	select {
	case v := <-ch:
		mark(10)
		_ = v
	default:
		mark(11)
	}
L:
	for {
		mark(12)
		break L
	}
	defer func() {
		mark(13)
	}()
	y, z = mark(15), mark(16)
	_ = z
	call(mark(17), func() {
		mark(18)
	})
	f2 := func(a int) int { return mark(19) }
	f2(1)
	for i <- 0:2 {
		mark(20)
	}
	for i, j := mark(21), 0; i < mark(22); i++ {
		mark(23)
		_ = j
	}
	for k, v := range [mark(24)] {
		mark(25)
		_, _ = k, v
	}
	y++
	ch <- mark(26)
	{
		mark(27)
		mark(28)
	}
	for v <- [mark(30)] if v > mark(31)-100 {
		mark(32)
	}
	for i <- mark(33)*0:mark(34)-33:mark(35)-34 {
		mark(36)
	}
	if x > 100 {
	} else if w := mark(37); w < 0 {
		mark(38)
	} else if x > 300 {
	} else {
		mark(39)
	}
	call1(x => mark(40))
	call1(x => {
		mark(41)
		return x
	})
	return mark(29)
}

func (t *T) M() {
	mark(50)
	F(1, make(chan int, 2))
}

func Run() {
	new(T).M()
}
''',
}

DET_EXPECT_FAIL = {"blockdoc"}


def det_cases():
    out = []
    for i, name in enumerate(sorted(DET)):
        pkg = "d" + name
        src = (DET_HEAD % (pkg, pkg)) + DET[name]
        out.append({"pkg": pkg, "dir": pkg, "relbase": ["pkg", "root", "abs"][i % 3], "files": [{"name": "a.xgo", "src": src}]})
    return out


DRIVER_GO = '''package main

import (
	"fmt"
%s
)

func guard(name string, f func()) {
	defer func() {
		if e := recover(); e != nil {
			fmt.Println("PANIC", name, e)
		}
	}()
	f()
}

func init() {
%s
}
'''


def parse_model(line):
    f = {"F": {}, "P": {}, "E": {}, "guards": None, "raw": line}
    for tok in line.split(" "):
        if "=" not in tok:
            if tok:
                f.setdefault("flags", []).append(tok)
            continue
        k, v = tok.split("=", 1)
        if k == "guards":
            f["guards"] = v
        elif k[0] == "F":
            f["F"][k[1:]] = v
        elif k[0] == "P":
            f["P"][k.split(".")[1]] = v
        elif k[0] == "E":
            f["E"][k[1:]] = v
    return f


def run(ctx):
    ctx.prove("C09")
    model = ctx.model("c09")
    impl = ctx.harness("c09")
    ctx.log("model and harness built")

    root = os.path.join(ctx.scratch, "c09run")
    os.makedirs(root)
    cases = det_cases()
    ndet = len(cases)
    hist = {}
    for i in range(ctx.n(16, 400)):
        c, h = gen_package(ctx.rng, i)
        cases.append(c)
        for k, v in h.items():
            hist[k] = hist.get(k, 0) + v
    mainc, h = gen_package(ctx.rng, 0, main=True)
    cases.append(mainc)
    for k, v in h.items():
        hist[k] = hist.get(k, 0) + v
    bypkg = {c["pkg"]: c for c in cases}

    inp = "\n".join(json.dumps(c) for c in cases) + "\n"
    moddir = os.path.join(vlib.BUILD, "harness_" + getattr(vlib, "PTAG", vlib.sha(vlib.REPO))) if vlib.PRIVATE else vlib.HARNESS
    rc, out = ctx.run([impl, "-root", root, "-moddir", moddir], input=inp, timeout=300)
    if rc != 0:
        ctx.broken("correspondence(c09:harness)", "rc=%d %s" % (rc, out[-500:]))
        return
    res = [json.loads(l) for l in out.splitlines() if l.startswith("{")]
    ctx.log("compiled %d packages with cl.NewPackage" % len(res))
    if len(res) != len(cases):
        ctx.broken("correspondence(c09:harness)", "results=%d cases=%d" % (len(res), len(cases)))
        return
    okres = []
    status_hist = {}
    for c, r in zip(cases, res):
        st = r["status"].split(":")[0]
        status_hist[st] = status_hist.get(st, 0) + 1
        if r["status"] == "ok":
            okres.append(r)
        else:
            # the generator only emits valid programs of the supported fragment: anything else is a defect of
            # the machinery or a compiler crash on valid input -> the correspondence is not established
            ctx.broken("correspondence(c09:compile)", "package %s: %s\n%s" % (c["pkg"], r["status"], c["files"][0]["src"][:600]))
    if not okres:
        return

    # ---------------- model side
    rc, mout = ctx.run([model], input="\n".join(r["sexp"] for r in okres) + "\n")
    mlines = mout.splitlines()
    if rc != 0 or len(mlines) != len(okres):
        ctx.broken("correspondence(c09:model)", "rc=%d lines=%d/%d %s" % (rc, len(mlines), len(okres), mout[-300:]))
        return
    models = {r["pkg"]: parse_model(l) for r, l in zip(okres, mlines)}

    # ---------------- B0: the file names of the directives (filepath.Rel(RelativeBase, file)) ~ rel_path
    def comps(path):
        return [c for c in path.split("/") if c]
    fn_cases, fn_queries = [], []
    for c in cases:
        r = next((x for x in okres if x["pkg"] == c["pkg"]), None)
        if r is None or c["relbase"] == "abs":
            continue
        d = os.path.normpath(os.path.join(root, c["dir"]))
        base = {"pkg": d, "root": root, "sub": os.path.join(d, "gen", "deep"), "sib": os.path.join(root, "zz", "y")}[c["relbase"]]
        for i, f in enumerate(sorted(x["name"] for x in c["files"])):
            fn_cases.append(("%s %s %s" % (c["pkg"], c["relbase"], f), r["fnames"][i]))
            fn_queries.append("(rel (%s) (%s))" % (" ".join(comps(base)), " ".join(comps(os.path.join(d, f)))))
    if fn_queries:
        rc, fout = ctx.run([model], input="\n".join(fn_queries) + "\n")
        ctx.diff_lines("directive file name ~ rel_path", [c for c, _ in fn_cases], "\n".join("REL=" + n for _, n in fn_cases), fout)

    # ---------------- B1: shape of the emitted text, function by function
    shape_cases, shape_impl, shape_model = [], [], []
    nlines = ndirs = 0
    for r in okres:
        m = models[r["pkg"]]
        if m.get("flags"):
            ctx.broken("correspondence(c09:model)", "package %s: model says %s" % (r["pkg"], m["flags"]))
        for g in sorted(set(r["funcs"]) | set(m["F"]), key=int):
            shape_cases.append("%s/%s" % (r["pkg"], r["names"].get(g, g)))
            shape_impl.append(r["funcs"].get(g, "<function not emitted>"))
            shape_model.append(m["F"].get(g, "<function not in model output>"))
            nlines += shape_impl[-1].count(",") + 1
            ndirs += shape_impl[-1].count("D")
        if r["pkg"][0] != "d" and m["guards"] != "1":
            ctx.broken("generator-guard", "seeded package %s does not satisfy the guards of the theorem (generator defect)" % r["pkg"])
    diffs = ctx.diff_lines("directive layout: emitted Go text ~ compile_prog", shape_cases, "\n".join(shape_impl), "\n".join(shape_model))
    for c, x, y in diffs[:3]:
        pkg = c.split("/")[0]
        ctx.notes.setdefault("shape_diff_sources", []).append({"func": c, "src": [f["src"] for f in bypkg[pkg]["files"]]})

    # ---------------- one build, one run
    imports, calls = [], []
    for r in okres:
        if r["pkg"] == "main":
            continue
        imports.append('\t"c09run/%s"' % r["pkg"])
        calls.append('\tguard("%s", %s.Run)' % (r["pkg"], r["pkg"]))
    open(os.path.join(root, "go.mod"), "w").write("module c09run\n\ngo 1.18\n")
    open(os.path.join(root, "driver.go"), "w").write(DRIVER_GO % ("\n".join(imports), "\n".join(calls)))
    if "main" not in models:
        open(os.path.join(root, "main.go"), "w").write("package main\n\nfunc main() {}\n")
    # no inlining in the generated packages: runtime.FuncForPC(pc).Entry() is the entry of the OUTERMOST function
    # for an inlined call, which would make the function-entry probe meaningless
    rc, bout = ctx.run("go build -gcflags=c09run/...=-l -o prog . 2>&1", cwd=root, timeout=600, mem_kb=16000000)
    if rc != 0:
        ctx.broken("correspondence(c09:go build)", "the emitted Go does not build: " + bout[-1500:])
        return
    ctx.log("go build of the emitted packages done")
    rc, rout = ctx.run([os.path.join(root, "prog")], cwd=root, timeout=120)
    if rc != 0:
        ctx.broken("correspondence(c09:run)", "rc=%d %s" % (rc, rout[-500:]))
        return

    # ---------------- B2 + C on the observed positions
    obs = {}      # (pkg, id) -> (file, line)
    entries = {}  # (pkg, funcname) -> (file, line)
    for l in rout.splitlines():
        f = l.split(" ")
        if f[0] == "PANIC":
            ctx.broken("correspondence(c09:run)", "generated program panicked: " + l)
            continue
        if f[0] != "M" or len(f) != 8:
            continue
        _, pkg, mid, fil, line, fname, efile, eline = f
        obs.setdefault((pkg, mid), (fil, line))
        entries.setdefault((pkg, fname.split("/")[-1]), (efile, eline))
    rt_cases, rt_impl, rt_model = [], [], []
    nfirst = nsecond = 0
    failing = []
    for r in okres:
        pkg, m = r["pkg"], models[r["pkg"]]
        fn = r["fnames"]
        fidx = {n: str(i) for i, n in enumerate(fn)}
        srcs = [f["src"] for f in bypkg[pkg]["files"]]
        det = pkg[0] == "d"
        for (p, mid), (fil, line) in sorted(obs.items(), key=lambda kv: (kv[0][0], int(kv[0][1]))):
            if p != pkg:
                continue
            seen = "%s:%s" % (fidx.get(fil, "?" + fil), line)
            if mid in m["P"]:      # marks that are not the first marked call of their line have no model line
                rt_cases.append("%s mark(%s)" % (pkg, mid))
                rt_impl.append(seen)
                rt_model.append(m["P"][mid])
            else:
                nsecond += 1
            want = r["first"].get(mid)
            if want is not None:
                nfirst += 1
                if want != seen:
                    key = ("det:%s:mark%s" % (pkg[1:], mid)) if det else "src:%s:mark%s" % (vlib.sha("\0".join(srcs)), mid)
                    f_, l_ = want.split(":")
                    ctx.fail(key, "package %s: mark(%s) is the first call of the statement at %s:%s but runtime.Caller reports %s:%s"
                             % (pkg, mid, fn[int(f_)], l_, fil, line),
                             {"package": bypkg[pkg], "mark": mid, "expected": want, "observed": seen, "file_names": fn})
                    failing.append((pkg, mid))
        # function entries
        for g, name in r["names"].items():
            if name.startswith("method."):
                cands = [v for (p, n), v in entries.items() if p == pkg and n.endswith(")." + name[7:])]
            else:
                cands = [v for (p, n), v in entries.items() if p == pkg and n == name]
            if not cands:
                continue
            efile, eline = cands[0]
            seen = "%s:%s" % (fidx.get(efile, "?" + efile), eline)
            rt_cases.append("%s entry %s" % (pkg, name))
            rt_impl.append(seen)
            rt_model.append(m["E"].get(g, "<function not in model output>"))
            want = r["entry"][g]
            nfirst += 1
            if want != seen:
                key = ("det:%s:entry:%s" % (pkg[1:], name)) if det else "src:%s:entry:%s" % (vlib.sha("\0".join(srcs)), name)
                ctx.fail(key, "package %s: function %s is declared at %s but its entry is reported at %s" % (pkg, name, want, seen),
                         {"package": bypkg[pkg], "func": name, "expected": want, "observed": seen, "file_names": fn})
    ctx.diff_lines("runtime.Caller ~ go_line_of(compile_prog)", rt_cases, "\n".join(rt_impl), "\n".join(rt_model))

    # the deterministic finding inputs must still be understood by the model (guards=0 there)
    for name in DET_EXPECT_FAIL:
        m = models.get("d" + name)
        if m is not None and m["guards"] != "0":
            ctx.notes.setdefault("det_guard_now_holds", []).append(name)

    stmt_hist = {}
    for r in okres:
        for k, v in r.get("shape", {}).items():
            stmt_hist[k.replace("*ast.", "")] = stmt_hist.get(k.replace("*ast.", ""), 0) + v
    ctx.cover(evaluations=len(rt_cases) + len(shape_cases), distinct_nontrivial=len(set(rt_cases)),
              samples=[{"case": rt_cases[i], "observed": rt_impl[i], "model": rt_model[i]} for i in (0, len(rt_cases) // 2, len(rt_cases) - 1)],
              rule="%d deterministic packages (regression + known-finding inputs) + %d seeded packages (1-2 files, 1-6 functions/methods "
                   "each, nesting depth <= 3, RelativeBase in {package dir, module root, none, below the package, beside it}) + 1 seeded main package with a shadow entry; all in one go build "
                   "and one run; evaluations = emitted functions compared structurally (%d, %d text lines, %d directives) + runtime "
                   "positions compared (%d executed marks / function entries, %d of them checked by the direct oracle; %d executed marks "
                   "that are not the first marked call of their text line are not compared); "
                   "non-trivial = distinct executed mark or function entry. Seeded packages call earlier-declared or "
                   "later-declared functions (lazy loading inside the calling statement); block-comment docs of local "
                   "declarations are the known-finding dimension (deterministic set only); not generated: go statements, `defer mark(k)` (the runtime attributes a deferred call to the function's return point), goto, init functions, grouped declarations, package-level initialisers with calls"
                   % (ndet, len(cases) - ndet - 1, len(shape_cases), nlines, ndirs, len(rt_cases), nfirst, nsecond),
              generator_template_histogram=dict(sorted(hist.items())), statement_kind_histogram=dict(sorted(stmt_hist.items())),
              harness_status=status_hist, directive_file_names_compared=len(fn_cases))
    ctx.trust("modelled, not verified: cl/stmt.go (commentStmt, commentStmtEx, commentFunc, compileStmt and every compile*Stmt as far as "
              "cb.comments is concerned), cl/expr.go compileFuncLit/compileLambdaExpr/compileLambdaExpr2, cl/compile.go loadFunc/loadFuncBody/"
              "loadFile order — hand-written Gallina model tied by the structural and the runtime differential run",
              "gogen v1.18.1 printer: the line layout of a statement carrying a //line comment is modelled as observed (outside /repo)",
              "Go toolchain //line semantics = go_line_of (hand-written specification, validated by the runs)",
              "harness/cmd/c09: projection of the real XGo AST on the model's statement tree (replicates the position rules of the "
              "unexported cl.toForStmt)")
    ctx.assume("every doc comment is adjacent to its declaration (checked on each generated package: guards=1)",
               "function names of a package are distinct")
