"""C05 — string interpolation equals explicit concatenation.

A   Props/C05.v (split_render, interp_value, interp_eval_order, split_total, ...)
B1  parser.ParseExprFrom's BasicLit.Extra.Parts + reported errors  vs  extracted split_lit,
    exhaustively over piece sequences of length <= 4 from a 10-piece alphabet (well-formed and
    adversarial), both quote kinds, + seeded longer sequences
B2  ONE program: every generated literal next to its explicit concatenation (plain Go syntax),
    compiled by the real compiler, built, run; value and probe trace vs the extracted model
    (split_lit -> lower_interp -> MiniGo eval)
C   on the implementation: value and probe trace of the literal = those of the explicit
    concatenation; parts of a well-formed literal = the independently computed segmentation;
    a literal the property gives a meaning to must compile
"""
import itertools
import json
import os
import shutil

import vlib

CLAIM = {
    "level": "proof",
    "text": "Coq theorems over a line-by-line model of parser.stringLitEx/hasExtra and of cl.compileStringLitEx "
            "lowered into MiniGo: for every well-formed literal (any number of text pieces without '$', `$$`, `${e}` "
            "with e free of '}', optional trailing '$') the splitter returns exactly the documented parts with exact "
            "expression spans, never panics on any byte string, and the lowered expression evaluates to the "
            "concatenation of the piece values with every embedded expression evaluated once, left to right "
            "(effect trace). Tied to the code by an exhaustive small-scope differential run of the parser against the "
            "extracted splitter (11k+ literals incl. adversarial ones) and by one compiled program whose literals "
            "are compared with the model's value and trace and with their explicit concatenation.",
    "note": "Assumed (Section variables / MiniGo rules): the value of a Go string literal body is a homomorphism at '$' "
            "boundaries (lit_val), strconv.FormatFloat and error texts are opaque, `.string` resolution follows gogen's "
            "BuiltinTI table (outside /repo). The embedded expression parser is the real one on the model's span "
            "(ParseExprEx); only the span is modelled. Known findings: bool operands and '\"' inside ${...}.",
}

# ---- split alphabet: (source text, kind)
PIECES = [("ab", "lit"), ("\\n", "lit"), ("$$", "dd"), ("${x}", "emb"), ("${ y+1 }", "emb"), ("$", "tail"),
          ("${", "adv"), ("}", "lit"), ("$z", "adv"), ("{", "lit"), ("${0x1F}", "emb"), ("${2.50}", "emb")]
# number literals as the whole embedded expression, in every spelling (split K-diff, lengths <= 2 around them)
NUM_LITS = ["7", "0x1F", "0X1f", "0o17", "017", "0b101", "1_000", "0x_ff", "2.50", "2.0", "1e3", "0.5", "1e21", "12.0e-1", "1_0.2_5", "100."]
RAW_EXTRA = [('"', "lit"), ("a\nb", "lit")]


def expected_parts(seq):
    """Independent segmentation of a well-formed piece sequence (None = not well-formed, 'nil' = plain)."""
    for i, (t, k) in enumerate(seq):
        if k == "adv" or (k == "tail" and i != len(seq) - 1):
            return None
    if not any(k in ("dd", "emb") for _, k in seq):
        return "nil"
    parts, cur, off = [], "", 0
    for t, k in seq:
        if k in ("lit", "tail"):
            cur += t
        elif k == "dd":
            parts.append("S:" + (cur + "$$").encode().hex())
            cur = ""
        else:
            if cur:
                parts.append("S:" + cur.encode().hex())
                cur = ""
            inner = t[2:-1]
            a = off + 2 + (len(inner) - len(inner.lstrip(" ")))
            b = off + 2 + len(inner.rstrip(" "))
            parts.append("E:%d:%d" % (a, b))
        off += len(t.encode())
    if cur:
        parts.append("S:" + cur.encode().hex())
    return " ".join(parts)


def canon_model_split(line, impl_line, text):
    """Model spans are the raw [from,to) given to the expression parser; the implementation reports the parsed
    expression's own Pos/End (blanks trimmed) or, for an unparsable span, the BadExpr span itself."""
    if " | " not in line:
        return line
    parts, err = line.split(" | ", 1)
    iparts = impl_line.split(" | ")[0].split(" ") if impl_line else []
    out = []
    for i, p in enumerate(parts.split(" ")):
        if p.startswith("E:"):
            _, a, b = p.split(":")
            a, b = int(a), int(b)
            if i < len(iparts) and iparts[i].startswith("B:"):
                out.append("B:%d:%d" % (a, b))
            else:
                seg = text[a:b]
                a2 = a + (len(seg) - len(seg.lstrip(b" ")))
                b2 = a + len(seg.rstrip(b" "))
                out.append("E:%d:%d" % (a2, b2))
        else:
            out.append(p)
    return " ".join(out) + " | " + err


def canon_impl_split(line, model_line=None):
    """Parts and split errors of the implementation.  Errors located INSIDE the source span of an embedded expression
    (raw span, taken from the model's parts) are errors of parsing that expression -- e.g. a malformed `$` form in a string
    literal nested in `${...}` goes through stringLitEx again in the sub-parser and reports the same message -- and are
    projected out: the property is about the segmentation of THIS literal, the embedded expression is an opaque span."""
    f = line.split(" | ")
    if len(f) < 2:
        return line
    errs = [e for e in f[1].split(",") if e]
    if model_line and " | " in model_line and errs:
        spans = []
        for p in model_line.split(" | ")[0].split(" "):
            if p.startswith("E:"):
                _, a, b = p.split(":")
                spans.append((int(a), int(b)))
        errs = [e for e in errs if not any(a <= int(e.split("@")[1]) < b for a, b in spans)]
    return f[0] + " | " + ",".join(errs)


# ---- value cases
LITS_D = ["ab", "\\n", "x\\\\y", "\\\"", "\\x24", "{", "}", " ", "\\t-", "é", "%d", "{}"]
LITS_R = ["ab", "\\n", "\"", "{", "}", " ", "x\\", "%s"]
INT_LITS = ["7", "0x1F", "0X1f", "0o17", "017", "0b101", "1_000", "0x_ff"]
FLOAT_LITS = ["2.50", "2.0", "1e3", "0.5", "1e21", "12.0e-1", "1_0.2_5", "100."]
EMBS = [("LI", "int"), ("LF", "float"), ("n", "int"), ("m", "int"), ("n+1", "int"), (" n ", "int"), ("s", "string"), ("s+s", "string"), ("fl", "float"),
        ("g", "float"), ("er", "error"), ("P", "int"), ("PS", "string"), ("P+m", "int")]


def gen_value_case(rng, quote):
    n = 1 + rng.below(6)
    segs, k = [], 1
    for i in range(n):
        r = rng.below(10)
        if r < 3:
            segs.append(["lit", rng.choice(LITS_D if quote == "d" else LITS_R)])
        elif r < 5:
            segs.append(["dd"])
        else:
            e, t = rng.choice(EMBS)
            if e == "LI":
                e = rng.choice(INT_LITS)
            elif e == "LF":
                e = rng.choice(FLOAT_LITS)
            elif "PS" in e:
                e = e.replace("PS", "ps(%d, s)" % k)
                k += 1
            elif "P" in e:
                e = e.replace("P", "p(%d, n+%d)" % (k, k))
                k += 1
            segs.append(["emb", e, t])
    if rng.below(5) == 0:
        segs.append(["tail$"])
    return {"quote": quote, "segs": segs}


FIXED_VALUE_CASES = [{"quote": q, "segs": [["lit", "v="], ["emb", l, "int"], ["dd"]]} for l in INT_LITS for q in ("d",)] + \
    [{"quote": "d", "segs": [["emb", l, "float"]]} for l in FLOAT_LITS] + \
    [{"quote": "r", "segs": [["emb", "0x1F", "int"], ["emb", "2.50", "float"], ["emb", " 0b11 ", "int"]]},
     {"quote": "d", "segs": [["emb", "0x10+1", "int"], ["emb", "p(1, 0x1F)", "int"]]}] + [
    {"quote": "d", "segs": [["lit", "a"], ["emb", "n", "int"], ["lit", "b"], ["dd"], ["emb", "s", "string"], ["emb", "fl", "float"], ["emb", "er", "error"], ["tail$"]]},
    {"quote": "d", "segs": [["emb", "p(1, n)", "int"], ["emb", "p(2, n+1)", "int"], ["emb", "ps(3, s)", "string"]]},
    {"quote": "d", "segs": [["dd"]]},
    {"quote": "d", "segs": [["dd"], ["dd"], ["tail$"]]},
    {"quote": "d", "segs": [["emb", "n", "int"]]},
    {"quote": "d", "segs": [["emb", "s", "string"]]},
    {"quote": "d", "segs": [["lit", "only text \\n"]]},
    {"quote": "d", "segs": [["lit", "x"], ["tail$"]]},
    {"quote": "d", "segs": [["lit", "\\x24{n}"]]},
    {"quote": "d", "segs": [["dd"], ["lit", "{n}"]]},
    {"quote": "d", "segs": [["emb", "n", "int"], ["lit", "}"]]},
    {"quote": "r", "segs": [["lit", "raw\\n"], ["emb", "n", "int"], ["dd"], ["lit", "\""], ["emb", "s + \"x\"", "string"]]},
    {"quote": "d", "segs": [["emb", "g", "float"], ["emb", "m", "int"]]},
]
# a lone `$x` next to a real $-form: the parser reports an error (stringLitEx "neither `${ ... }` nor `$$`"); if such a
# literal ever compiles, its `$$` must still read as `$`  (segment kind "raw" = text with a lone dollar)
LONE_CASES = [
    {"quote": "d", "segs": [["raw", "$z"], ["dd"]], "lone": True},
    {"quote": "d", "segs": [["dd"], ["raw", "$z"]], "lone": True},
    {"quote": "d", "segs": [["raw", "a$z"], ["emb", "n", "int"]], "lone": True},
    {"quote": "d", "segs": [["raw", "$z"]]},            # a lone `$x` alone is plain text
    {"quote": "d", "segs": [["raw", "$z$y"], ["tail$"]]},
]
# the deterministic known-finding set (seed independent)
FINDING_CASES = [
    ({"quote": "d", "segs": [["emb", "b", "bool"]]}, "bool-operand"),
    ({"quote": "d", "segs": [["lit", "v="], ["emb", "b", "bool"], ["dd"]]}, "bool-operand"),
    ({"quote": "d", "segs": [["emb", "s + \"x\"", "string"]]}, "dquote-in-embedded-expr"),
    ({"quote": "d", "segs": [["lit", "a"], ["emb", "ps(1, \"k\")", "string"]]}, "dquote-in-embedded-expr"),
]


def literal_of(c):
    out = ""
    for s in c["segs"]:
        out += {"lit": lambda: s[1], "raw": lambda: s[1], "dd": lambda: "$$", "emb": lambda: "${" + s[1] + "}", "tail$": lambda: "$"}[s[0]]()
    return out


def gomod(repo):
    req = ""
    for l in open(os.path.join(repo, "go.mod")):
        if "github.com/qiniu/x " in l:
            req = l.strip()
    return ("module c05vals\n\ngo 1.18\n\nrequire (\n\tgithub.com/goplus/xgo v0.0.0\n\t%s\n)\n\n"
            "replace github.com/goplus/xgo => %s\n" % (req, repo))


def run(ctx):
    ctx.prove("C05")
    model = ctx.model("c05")
    impl = ctx.harness("c05")

    # ------------------------------------------------------------ B1: splitting
    L = ctx.n(4, 5)
    seqs = []
    for n in range(L + 1):
        for t in itertools.product(PIECES, repeat=n):
            seqs.append(("d", t))
    for n in range(ctx.n(3, 4) + 1):
        for t in itertools.product(PIECES + RAW_EXTRA, repeat=n):
            seqs.append(("r", t))
    for lit in NUM_LITS:
        e = ("${%s}" % lit, "emb")
        for q in ("d", "r"):
            seqs.append((q, (e,)))
            for pc in PIECES[:6]:
                seqs.append((q, (pc, e)))
                seqs.append((q, (e, pc)))
    nex = len(seqs)
    for _ in range(ctx.n(3000, 100000)):
        q = "d" if ctx.rng.below(3) else "r"
        alpha = PIECES if q == "d" else PIECES + RAW_EXTRA
        seqs.append((q, tuple(ctx.rng.choice(alpha) for _ in range(5 + ctx.rng.below(5)))))
    texts = ["".join(t for t, _ in s).encode() for _, s in seqs]
    icases = ["%s %s" % (q, tx.hex()) for (q, _), tx in zip(seqs, texts)]
    ctx.log("phase: split K-diff")
    rc1, out1 = ctx.run([impl, "split"], input="\n".join(icases) + "\n")
    rc2, out2 = ctx.run([model], input="\n".join("S " + c for c in icases) + "\n")
    if rc1 != 0 or rc2 != 0:
        ctx.broken("correspondence(c05:split run)", "impl rc=%d model rc=%d %s %s" % (rc1, rc2, out1[-300:], out2[-300:]))
        return
    il, ml = out1.splitlines(), out2.splitlines()
    if len(il) == len(icases) and len(ml) == len(icases):
        ml2 = [canon_model_split(m, i, tx) for m, i, tx in zip(ml, il, texts)]
        ctx.diff_lines("split_lit~parser.stringLitEx", icases, "\n".join(canon_impl_split(x, m) for x, m in zip(il, ml)), "\n".join(ml2))
    else:
        ctx.broken("correspondence(c05:split)", "line counts: cases=%d impl=%d model=%d" % (len(icases), len(il), len(ml)))
    # direct oracle on the parser: no panic; well-formed literals are segmented as documented, without errors
    shapes, wf_n, nontriv = {}, 0, set()
    for (q, s), c, l, tx in zip(seqs, icases, il, texts):
        if l.startswith("PANIC"):
            ctx.fail("split:" + c.replace(" ", "_"), "parser panics on the literal %r: %s" % (tx, l), {"quote": q, "text_hex": tx.hex(), "impl": l})
            continue
        kind = "nil" if l.startswith("nil") else ("NOTLIT" if l.startswith("NOTLIT") else "parts")
        err = "err" if (" | " in l and l.split(" | ")[1]) else "noerr"
        shapes[kind + "/" + err] = shapes.get(kind + "/" + err, 0) + 1
        if kind == "parts":
            nontriv.add(c)
        want = expected_parts(s)
        if want is not None and kind != "NOTLIT":
            wf_n += 1
            got = canon_impl_split(l)
            if got != want + " | ":
                ctx.fail("split:" + c.replace(" ", "_"), "well-formed literal %r is split as %s, documented segmentation is %s" % (tx, got, want),
                         {"quote": q, "text_hex": tx.hex(), "impl": l, "expected": want})
    ctx.cover(evaluations=len(icases), distinct_nontrivial=len(nontriv),
              samples=[{"literal_text": texts[i].decode("utf-8", "replace"), "quote": seqs[i][0], "impl": il[i]} for i in (37, 4321, nex - 5, nex + 7)],
              rule="split: every sequence of <=%d pieces from %s in a \"...\" literal and <=%d pieces (plus '\"' and a newline piece) in a raw literal "
                   "(%d, exhaustive) + %d seeded sequences of 5-9 pieces; %d of them well-formed (checked against an independent segmentation); "
                   "errors reported INSIDE the span of an embedded expression (the sub-parser's own errors, e.g. a malformed `$` form in a "
                   "string literal nested in ${...}) are projected out of the comparison -- the embedded expression is an opaque span; "
                   "non-trivial = distinct literal for which the parser returns parts"
                   % (L, [p for p, _ in PIECES], ctx.n(3, 4), nex, len(icases) - nex, wf_n),
              exhaustive=True, exhaustive_part=nex, split_result_histogram=shapes)

    # ------------------------------------------------------------ B2: values
    d = os.path.join(ctx.scratch, "vals")
    os.makedirs(d)
    open(os.path.join(d, "go.mod"), "w").write(gomod(vlib.REPO))
    shutil.copy(os.path.join(vlib.REPO, "go.sum"), os.path.join(d, "go.sum"))
    vcases = [dict(c) for c in FIXED_VALUE_CASES] + [dict(c) for c, _ in FINDING_CASES] + [dict(c) for c in LONE_CASES]
    nfixed = len(vcases)
    for i in range(ctx.n(150, 3000)):
        vcases.append(gen_value_case(ctx.rng, "d" if i % 4 else "r"))
    json.dump(vcases, open(os.path.join(d, "cases.json"), "w"))
    ctx.log("phase: gen: value program")
    rc, out = ctx.run([impl, "gen", "-dir", d, "-cases", os.path.join(d, "cases.json")], cwd=d, timeout=300)
    if rc != 0:
        ctx.broken("correspondence(c05: compile the value program with the real compiler)", out[-1500:])
        return
    status = json.load(open(os.path.join(d, "status.json")))["status"]
    ctx.log("phase: go build")
    rc, out = ctx.run("go build -o prog . 2>&1", cwd=d, timeout=300)
    if rc != 0:
        ctx.broken("correspondence(c05: go build of the compiled value program)", out[-1500:])
        return
    ctx.log("phase: run + model")
    rc, out = ctx.run([os.path.join(d, "prog")], timeout=120)
    if rc != 0:
        ctx.broken("correspondence(c05: run of the value program)", "rc=%d %s" % (rc, out[-800:]))
        return
    got = {}
    for l in out.splitlines():
        f = l.split("\t")
        if len(f) == 5 and f[0].isdigit():
            got[int(f[0])] = dict(x.split("=", 1) for x in f[1:])
    mlines = []
    for c in vcases:
        mlines.append("V %s %s" % (c["quote"], literal_of(c).encode().hex()))
    rc, mout = ctx.run([model], input="\n".join(mlines) + "\n")
    mres = mout.splitlines()
    if rc != 0 or len(mres) != len(vcases):
        ctx.broken("correspondence(c05: model value run)", mout[-500:])
        return
    impl_v, model_v, keys = [], [], []
    thist = {}
    for k, c in enumerate(vcases):
        lit = literal_of(c)
        fk = FINDING_CASES[k - len(FIXED_VALUE_CASES)][1] if len(FIXED_VALUE_CASES) <= k < len(FIXED_VALUE_CASES) + len(FINDING_CASES) else None
        for s in c["segs"]:
            kk = s[0] if s[0] != "emb" else "emb:" + s[2]
            thist[kk] = thist.get(kk, 0) + 1
        if status[k] != "ok" and c.get("lone"):
            impl_v.append("COMPILE-ERROR")
            model_v.append("COMPILE-ERROR" if mres[k] == "ERROR" else mres[k])
            continue
        if status[k] != "ok":
            # the property gives the literal a value; the compiler rejects it
            key = "value:" + (fk or vlib.sha(c["quote"] + lit))
            ctx.fail(key, "literal %s%s%s is rejected by the compiler: %s" % ('"' if c["quote"] == "d" else "`", lit, '"' if c["quote"] == "d" else "`", status[k][:200]),
                     {"case": c, "status": status[k]})
            # correspondence: the model must reject exactly the bool operands; a '"' inside ${} is not a single literal
            impl_v.append("COMPILE-ERROR")
            model_v.append("COMPILE-ERROR" if (mres[k] == "COMPILE-ERROR" or fk == "dquote-in-embedded-expr") else mres[k])
            continue
        g = got.get(k)
        if g is None:
            impl_v.append("MISSING")
            model_v.append(mres[k])
            continue
        impl_v.append("v=%s t=%s" % (g["v"], g["t"]))
        model_v.append(mres[k])
        if g["v"] != g["xv"] or g["t"] != g["xt"]:
            ctx.fail("value:" + vlib.sha(c["quote"] + lit),
                     "literal %r: value/trace %s %s, explicit concatenation gives %s %s" % (lit, g["v"], g["t"], g["xv"], g["xt"]),
                     {"case": c, "impl": g})
    ctx.diff_lines("eval(lower_interp(split_lit))~compiled program", [json.dumps(c) for c in vcases], "\n".join(impl_v), "\n".join(model_v))
    distinct = len(set(m for m in mlines))
    ctx.cover(evaluations=len(vcases), distinct_nontrivial=len(set(l for l, c in zip(mlines, vcases) if any(s[0] in ("emb", "dd") for s in c["segs"]))),
              samples=[{"case": vcases[i], "impl": impl_v[i], "model": model_v[i]} for i in (0, 1, nfixed + 3, len(vcases) - 1)],
              rule="values: %d fixed + %d known-finding + 5 lone-dollar + %d seeded literals (1-6 segments from text incl. escapes, $$, ${e} over int/string/float/error "
                   "operands with probe calls, optional trailing $; every 4th raw-quoted) in ONE compiled program, each next to its explicit "
                   "concatenation; distinct literals %d; non-trivial = has a $$ or ${} segment; bool operands and '\"' inside ${} only in the "
                   "deterministic known-finding set" % (len(FIXED_VALUE_CASES), len(FINDING_CASES), len(vcases) - nfixed, distinct),
              value_segment_histogram=thist)
    ctx.assume("the value of a Go string literal body splits at '$' (no escape sequence contains '$'): lit_val (a ++ '$' :: b) = lit_val a ++ '$' :: lit_val b",
               "strconv.FormatFloat(f,'g',-1,64) and error texts are opaque; `.string` resolves per gogen's BuiltinTI table (int, float64) with the error fallback",
               "embedded expressions contain no '}' (the first '}' closes ${) and are parsed by ParseExprEx on exactly the modelled span")
    ctx.trust("modelled, not verified: parser/parser.go stringLit/stringLitEx/hasExtra (line-by-line model, exhaustive small-scope differential), "
              "cl/expr.go compileStringLitEx (lower_interp), qiniu/x/stringutil.Concat (= concatenation), MiniGo evaluation rules for Go")
