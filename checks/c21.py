"""C21 — formatting keeps every comment, in order (printer/printer.go: intersperseComments, flush, commentBefore).

A  Props/C21.v over Model/C21.v: for every item stream and every comment list the merge emits exactly the
   input comments, once each, in order (and every token); obligations over the regenerated commentBefore.
K-gen  translator `printermerge`: commentBefore and `infinity` regenerated from printer/printer.go; the
   statements of print / flush / intersperseComments / nextComment / Config.fprint that the model follows are
   audited (normalised source text) on every run; writeComment has a single caller.
C  direct oracle: comment texts (real scanner, blanks inside a comment collapsed) of input vs format.Source output
   on the deterministic set (corpus + a comment inserted before every token of the small files) and on seeded
   generated sources.
"""
from checks import g6fmt

CLAIM = {
    "level": "other",
    "text": "Coq theorems over a model of the printer's comment merge (flush before every item, comment groups consumed in list order, "
            "final flush with offset infinity): for all item streams, comment lists and flags the output contains exactly the input comment "
            "texts, once each, in order, and all tokens; the condition commentBefore is regenerated from the source and the modelled "
            "statements are audited on every run.  The rest of the property (what the tree walk prints, Doc/Comment fields, text of a "
            "comment) is explored: comments inserted before every token of the small corpus files and seeded generated sources, compared "
            "with the real scanner.",
    "note": "Kernel theorem + explored remainder.  Comment texts are compared modulo runs of blanks inside a comment (the printer "
            "re-indents continuation lines).  Trusted: Coq kernel, translator, harness.",
}


def run(ctx):
    ok = ctx.regen(["printermerge"])
    ctx.prove("C21")
    if ok and not g6fmt._v.PRIVATE:
        j = ctx.gen_json("printermerge")
        ctx.check_gen_obligation("printermerge-audit", len(j.get("audited", [])) == 12, "audited statements: %s" % j.get("audited"))
    g6fmt.run_property(ctx, "comments", "same", "C21 (comments kept in order)")
    ctx.trust("modelled, not verified: printer.print/flush/intersperseComments/commentBefore/nextComment and the end of Config.fprint "
              "(Model/C21.v, tied by the printermerge generator: translated condition + audited statements)",
              "explored, not modelled: the item stream produced by the tree walk, its positions, writeComment's text handling")
    ctx.assume("comment offsets are real source offsets (0 <= off < infinity = 1<<30), which holds for every parsed file")
