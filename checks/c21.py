"""C21 — formatting keeps every comment, in order (printer/printer.go: intersperseComments, flush, commentBefore).

A  Props/C21.v over Model/C21.v: for every item stream and every comment list the merge emits exactly the
   input comments, once each, in order (and every token); obligations over the regenerated commentBefore.
K-gen  translator `printermerge`: commentBefore and `infinity` regenerated from printer/printer.go; the
   statements of print / flush / intersperseComments / nextComment / Config.fprint that the model follows are
   audited (normalised source text) on every run; writeComment has a single caller.
B  K-diff of the merge: the real printer on a synthesised call f(a0, ..., an) whose tokens and comment groups carry chosen
   positions (printer.CommentedNode; the item stream is then known exactly) vs the extracted model `print_all`:
   the interleaving of tokens and comments in the output, exhaustively for n <= 3 with up to 2 groups, seeded beyond.
C  direct oracle: comment texts (real scanner, blanks inside a comment collapsed) of input vs format.Source output
   on the deterministic set (corpus + a comment inserted before every token of the small files) and on seeded
   generated sources.
"""
from checks import g6fmt

CLAIM = {
    "level": "other",
    "text": "Coq theorems over a model of the printer's comment merge (flush before every item, comment groups consumed in list order, "
            "final flush with offset infinity): for all item streams, comment lists and flags the output contains exactly the input comment "
            "texts, once each, in order, and all tokens; the condition commentBefore is regenerated from the source and the modelled "
            "statements are audited on every run.  The rest of the property (what the tree walk prints, Doc/Comment fields, text of a "
            "comment) is explored: comments inserted before every token of the small corpus files and seeded generated sources, compared "
            "with the real scanner.",
    "note": "Kernel theorem + explored remainder.  Comment texts are compared modulo runs of blanks inside a comment (the printer "
            "re-indents continuation lines).  Trusted: Coq kernel, translator, harness.",
}


KINDS = ["b", "l", "bl", "lb"]


def merge_cases(ctx):
    cases = []
    for n in range(0, 4):
        offs = [o for o in range(12, 30 + 20 * n - 1, 5)]
        cases.append(str(n))
        for o in offs:
            for k in KINDS:
                cases.append("%d %d:%s" % (n, o, k))
        for i, o1 in enumerate(offs):
            for o2 in offs[i + 1:]:
                for k1 in KINDS:
                    for k2 in KINDS:
                        cases.append("%d %d:%s %d:%s" % (n, o1, k1, o2, k2))
    nex = len(cases)
    for _ in range(ctx.n(3000, 100000)):
        n = ctx.rng.below(7)
        offs = [o for o in range(12, 30 + 20 * n - 1, 5)]
        g = min(len(offs), 1 + ctx.rng.below(4))
        chosen = sorted(set(ctx.rng.choice(offs) for _ in range(g)))
        cases.append(" ".join([str(n)] + ["%d:%s" % (o, ctx.rng.choice(KINDS + ["bbb", "llb"])) for o in chosen]))
    return cases, nex


def merge_correspondence(ctx):
    model = ctx.model("c21")
    impl = ctx.harness("c21")
    cases, nex = merge_cases(ctx)
    inp = "\n".join(cases) + "\n"
    rc1, o1 = ctx.run([impl], input=inp)
    rc2, o2 = ctx.run([model], input=inp)
    if rc1 != 0 or rc2 != 0:
        ctx.broken("correspondence(c21:run)", "impl rc=%d model rc=%d %s" % (rc1, rc2, (o1 + o2)[-300:]))
        return
    diffs = ctx.diff_lines("print_all~printer.Fprint(CommentedNode)", cases, o1, o2)
    # direct oracle on the same cases: every comment exactly once, in order
    for c, out in zip(cases, o1.split("\n")):
        want = []
        k = 0
        for g in c.split()[1:]:
            for ch in g.split(":")[1]:
                want.append(("//c%d" if ch == "l" else "/*c%d*/") % k)
                k += 1
        got = [t[2:] for t in out.split() if t.startswith("C:")]
        if got != want:
            ctx.fail("merge:" + c.replace(" ", "_"), "comments of f(...) with groups %s: want %s, got %s" % (c, want, got), {"case": c, "impl": out})
    shapes = {}
    for c in cases:
        k = "n=%s groups=%d" % (c.split()[0], len(c.split()) - 1)
        shapes[k] = shapes.get(k, 0) + 1
    ctx.cover(evaluations=len(cases), distinct_nontrivial=len(set(c for c in cases if len(c.split()) > 1)),
              samples=[{"case": cases[i], "impl": o1.split("\n")[i]} for i in (nex // 2, nex - 1, len(cases) - 1)],
              rule="merge correspondence: call expressions with n<=3 arguments and every choice of <=2 comment groups (4 group kinds) at every 5th "
                   "offset (%d, exhaustive) + %d seeded (n<=6, <=4 groups); non-trivial = at least one comment" % (nex, len(cases) - nex),
              merge_case_histogram=shapes)


def run(ctx):
    ok = ctx.regen(["printermerge"])
    ctx.prove("C21")
    if ok:
        try:
            j = ctx.gen_json("printermerge")
            ctx.notes["static_gen_audited"] = len(j.get("audited", []))
            if j.get("unmatched"):
                # a reviewed statement changed its text: not a violation by itself (the merge K-diff below decides)
                ctx.notes["static_gen_unmatched"] = j["unmatched"]
                ctx.log("static_gen: unmatched", "; ".join(j["unmatched"])[:300])
        except Exception as e:  # private mode without JSON copy
            ctx.notes["static_gen"] = "not available: %s" % e
    merge_correspondence(ctx)
    g6fmt.run_property(ctx, "comments", "same", "C21 (comments kept in order)")
    ctx.trust("modelled, not verified: printer.print/flush/intersperseComments/commentBefore/nextComment and the end of Config.fprint "
              "(Model/C21.v, tied by the printermerge generator: translated condition + audited statements, and by the differential run of "
              "the extracted merge against the real printer on synthesised call expressions)",
              "explored, not modelled: the item stream produced by the tree walk, its positions, writeComment's text handling")
    ctx.assume("comment offsets are real source offsets (0 <= off < infinity = 1<<30), which holds for every parsed file")
