"""C29 — grammar matching follows the documented TPL semantics (tpl/matcher/match.go, tpl/README.md).

A  Props/C29.v (theorems over Model/Tpl.v)
B  extracted pipeline parse_file -> compile -> match_doc  vs  tpl.New + Compiler.Match on generated
   grammar texts x input texts (the model consumes the token streams of the real tpl/scanner):
   README examples, seeded structured grammars (sequence, choice, * + ?, %, ++, references, keywords,
   token classes, SPACE, "") x inputs derived from the grammar and mutated into near-matches
C  direct oracle: an independent python evaluator of the README semantics (ordered choice with the
   first-set commit rule, greedy repetition, ?R -> nil, n-element sequences, R1 % R2 nesting, ++
   adjacency) run on the same tokens, compared with the implementation's (ok?, n, tree); plus the
   harness's structural checks (0 <= n <= #tokens, result tokens below n in increasing order)
"""
from checks import tplm

CLAIM = {
    "level": "proof",
    "text": "Coq theorems over a line-by-line model of tpl/matcher (Match of every combinator incl. Choices' stops/commit "
            "bookkeeping, CheckConflicts/First, gAdjoin, gWS) state the README semantics as a derivation relation and prove the "
            "matcher sound and complete for it, deterministic, with the documented result shapes (n-element sequence lists, "
            "repetition lists, nil for absent options, [r1,[[sep,r]...]] for R1 % R2, pairs for ++ with touching tokens). "
            "The model is tied to the code on every run by a differential run of the extracted pipeline (grammar parser -> "
            "compiler -> matcher) against tpl.New + Compiler.Match on generated grammar x input texts.",
    "note": "Trusted: Coq kernel, extraction, harness, tpl/scanner (token streams are taken from it). RetProcs and Dyn errors are "
            "modelled separately (Model/TplRp.v, conservative over the RetProc-free model) and tied by the same differential run; "
            "strconv.Unquote results are inputs of the model; error values/positions are not compared. "
            "Grammars on which the model runs out of its proven fuel bound (nullable repetition bodies, left recursion: "
            "C28's known findings) are not run on the implementation here.",
}

# (grammar, input, expected) from tpl/README.md and the commit rule
README = [
    ('expr = INT % ","\n', "1, 2, 3", "ok 5 [ T0 [ [ T1 T2 ] [ T3 T4 ] ] ]"),
    ('expr = INT % ","\n', "1", "ok 1 [ T0 [ ] ]"),
    ('expr = INT % ","\n', "1,", "ok 1 [ T0 [ ] ]"),
    ("lit = IDENT ++ RAWSTRING\n", "tpl`x`", "ok 2 [ T0 T1 ]"),
    ("lit = IDENT ++ RAWSTRING\n", 'tpl"x"', "fail 1"),
    ("lit = IDENT ++ RAWSTRING\n", "tpl/* comment */`x`", "fail 1"),
    ("lit = IDENT ++ RAWSTRING\n", "tpl `x`", "fail 1"),
    ("lit = IDENT RAWSTRING\n", "tpl/* comment */`x`", "ok 2 [ T0 T1 ]"),
    ('doc = ?"a" INT\n', "1", "ok 1 [ N T0 ]"),
    ('doc = ?"a" INT\n', "a 1", "ok 2 [ T0 T1 ]"),
    ("doc = *INT\n", "", "ok 0 [ ]"),
    ("doc = *INT\n", "1 2 x", "ok 2 [ T0 T1 ]"),
    ("doc = +INT\n", "x", "fail 0"),
    ("doc = +INT\n", "1 2 3", "ok 3 [ T0 T1 T2 ]"),
    ('doc = INT | IDENT | "+"\n', "+", "ok 1 T0"),
    ('doc = "a" "b" | ?"c"\n', "a x", "fail 1"),        # committed: option 1 consumed a token, no first-set conflict
    ('doc = "a" "b" | "a" "c"\n', "a c", "ok 2 [ T0 T1 ]"),   # conflict: later option tried
    ('doc = INT SPACE INT\n', "1 2", "ok 2 [ T0 N T1 ]"),
    ('doc = IDENT SPACE "("\n', "f(", "fail 1"),
    ('expr = operand % ("*" | "/") % ("+" | "-")\noperand = INT | "-" operand\n', "1 + 2 * -3",
     "ok 6 [ [ T0 [ ] ] [ [ T1 [ T2 [ [ T3 [ T4 T5 ] ] ] ] ] ] ]"),
    ('doc = STRING\n', '"a" `b`', "ok 1 T0"),
    ('doc = QSTRING RAWSTRING\n', '"a" `b`', "ok 2 [ T0 T1 ]"),
    ('doc = "" INT\n', "7", "ok 1 [ N T0 ]"),
    ('doc = "if" IDENT\n', "if x", "ok 2 [ T0 T1 ]"),
    ('doc = "if" IDENT\n', "iff x", "fail 0"),
]


def run(ctx):
    ctx.prove("C29")
    rng = ctx.rng
    cases, meta = [], []      # meta: (category, rules or None, expected or None)
    for g, t, want in README:
        cases.append((g.encode(), t.encode()))
        meta.append(("readme", None, want))
    for _ in range(ctx.n(450, 20000)):
        rules = tplm.gen_grammar(rng, recursive=(rng.below(6) == 0))
        gtext = tplm.grammar_text(rules).encode()
        for _ in range(4):
            sent = tplm.derive(rng, ("ref", rules[0][0]), rules)
            k = rng.below(4)
            if k >= 2:
                sent = tplm.mutate_sentence(rng, sent)
            sent = sent[:12]      # matching time is exponential in the input length for nested right recursion
            cases.append((gtext, tplm.sentence_text(sent).encode()))
            meta.append(("derived" if k < 2 else "near-match", rules, None))
    # choices whose options share / almost share their first token: exercises CheckConflicts/stops and the commit rule
    HEADS = [("kw", "a"), ("kw", "x"), ("tok", "IDENT"), ("tok", "INT"), ("op", "+", '"'), ("kw", "if")]
    TAILS = [("tok", "INT"), ("kw", "b"), ("op", ",", '"'), ("tok", "IDENT"), ("?", ("tok", "INT")), ("true",)]
    for _ in range(ctx.n(300, 10000)):
        opts = []
        for _ in range(2 + rng.below(2)):
            k = rng.below(6)
            if k == 0:
                opts.append(("?", rng.choice(HEADS)))
            elif k == 1:
                opts.append(rng.choice(HEADS))
            else:
                opts.append(("seq", [rng.choice(HEADS), rng.choice(TAILS)] + ([rng.choice(TAILS)] if rng.below(3) == 0 else [])))
        body = ("alt", opts)
        if rng.below(3) == 0:
            body = ("seq", [body, rng.choice(TAILS)])
        rules = [("doc", body)]
        gtext = tplm.grammar_text(rules).encode()
        for _ in range(3):
            sent = tplm.derive(rng, ("ref", "doc"), rules)
            if rng.below(3) > 0:
                sent = tplm.mutate_sentence(rng, sent)
            cases.append((gtext, tplm.sentence_text(sent).encode()))
            meta.append(("choice-commit", rules, None))
    # every builtin token class in repetition / list / optional contexts, inputs matched to the end of the token list
    for g, t in tplm.builtin_class_family():
        cases.append((g, t))
        meta.append(("builtin-class-at-end", None, None))
    # result rewriters (RetProcs) and runtime (Dyn) errors: what every combinator does with them (Model/TplRp.v)
    for g, t, rps in tplm.retproc_family():
        cases.append((g, t, rps))
        meta.append(("retproc", None, None))
    for _ in range(ctx.n(100, 5000)):
        rules = tplm.gen_grammar(rng, recursive=False)
        gtext = tplm.grammar_text(rules).encode()
        rps = tplm.gen_retprocs(rng, rules)
        for _ in range(2):
            sent = tplm.derive(rng, ("ref", rules[0][0]), rules)
            if rng.below(2):
                sent = tplm.mutate_sentence(rng, sent)
            cases.append((gtext, tplm.sentence_text(sent[:12]).encode(), rps))
            meta.append(("retproc-seeded", None, None))
    res = tplm.run_pipeline(ctx, cases)
    cases = [(c[0], c[1], c[2] if len(c) > 2 else "-") for c in cases]
    if res is None:
        return
    mlines, mout, rows = res
    idx = [i for i in range(len(cases)) if rows[i] is not None]
    nfuel = len(cases) - len(idx)
    ctx.diff_lines("match_doc~Compiler.Match",
                   ["%s | %s | %s" % (cases[i][0].decode("utf-8", "replace").replace("\n", " ; "), cases[i][1].decode("utf-8", "replace"), cases[i][2]) for i in idx],
                   "\n".join(rows[i][0] for i in idx), "\n".join(mout[i] for i in idx))
    nref = 0
    outcome, cats = {}, {}
    for i in idx:
        cat, rules, want = meta[i]
        g, t, rps = cases[i]
        r = rows[i]
        k = r[0].split(" ")[0]
        outcome[k] = outcome.get(k, 0) + 1
        cats[cat] = cats.get(cat, 0) + 1
        desc = None
        if len(r) > 1 and r[1] != "ok":
            desc = r[1]
        elif want is not None and r[0] != want:
            desc = "README example: expected %s" % want
        elif rules is not None and rps == "-" and k in ("ok", "fail"):
            exp = tplm.ref_result(rules, mlines[i])
            if exp is not None:
                nref += 1
                if exp != r[0]:
                    desc = "reference semantics gives %s" % exp
        if desc:
            ctx.fail(tplm.key_of(g, t, rps), "Match(%r, %r, retprocs=%s) = %s: %s" % (g.decode("utf-8", "replace"), t.decode("utf-8", "replace"), rps, r[0][:200], desc),
                     {"grammar": g.decode("utf-8", "replace"), "input": t.decode("utf-8", "replace"), "retprocs": rps, "impl": r[0], "model": mout[i], "why": desc})
    nontriv = len(set(c[:2] for i, c in enumerate(cases) if rows[i] is not None and rows[i][0].split(" ")[0] in ("ok", "fail")
                      and len(mlines[i].split("\t")[0].split(" ")) >= 6))
    pick = [0, len(README) + 3, len(README) + 400, len(cases) - 2]
    ctx.cover(evaluations=len(idx), distinct_nontrivial=nontriv,
              samples=[{"grammar": cases[i][0].decode("utf-8", "replace"), "input": cases[i][1].decode("utf-8", "replace"),
                        "impl": (rows[i] or ["(not run: model FUEL)"])[0][:200]} for i in pick],
              rule="%d README/commit-rule examples with hand-written expectations; seeded grammars of 1-4 rules (expression depth<=4: "
                   "sequence, choice, * + ?, %%, ++, token classes, keywords, operator literals in \"\" and '' form, SPACE, \"\", "
                   "references mostly to later rules, 1/6 arbitrary) x 4 inputs each: 2 derived from the grammar, 2 mutated into "
                   "near-matches (token dropped/duplicated/swapped/replaced/inserted, adjacency toggled, comment inserted); "
                   "plus the RetProc family of checks/tplm.py (rewriters rejecting a literal with a Dyn / plain error, wrap, identity, in 13 "
                   "contexts x 14 inputs) and seeded grammars with random rewriters (compared with the model only); "
                   "plus a choice-commit family: 2-3 options starting with equal / overlapping / disjoint first tokens "
                   "(keyword vs keyword, keyword vs IDENT class, optional heads) x 3 inputs. "
                   "Not run on the implementation: %d pairs on which the model exceeds its fuel bound (nullable repetition / left "
                   "recursion, see C28). Reference oracle evaluated on %d pairs. non-trivial = distinct pair that compiles, with a "
                   "grammar of >= 6 tokens." % (len(README), nfuel, nref),
              outcome_histogram=outcome, category_histogram=cats, model_fuel_cases=nfuel, reference_oracle_cases=nref)
    ctx.trust("modelled, not verified: tpl/matcher/match.go, tpl/cl/compile.go, tpl/parser/parser.go (hand-written Gallina models "
              "tied by differential run); tpl/scanner and strconv.Unquote/UnquoteChar are used as they are")
    ctx.assume("the theorems of Props/C29.v are about grammars without RetProcs; with RetProcs the Dyn-error behaviour is modelled "
               "(Model/TplRp.v) and compared with the implementation, not proved against a specification",
               "Choice matchers have at least one option (guaranteed by the TPL parser)")
