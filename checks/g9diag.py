"""C06: near-miss programs that Go rejects AND that cl diagnoses today (expected verdict: cl reports an error).

Each program is plain Go (compiled as main.xgo) that differs from a valid program by exactly one
defect of a class for which cl implements the diagnostic.  The check verifies on every run that
(a) go/types rejects the SOURCE (so it is a near-miss), and applies the ordinary C06 oracle: if cl
ever stops diagnosing one of them (err == nil) while Go rejects the written output, that input is
the failing input of a C06 violation.  The family is generated systematically: every shape of a
class, not one example.
"""

HEAD = "package main\n\nimport \"fmt\"\n\n"
USE = "\nfunc use(xs ...interface{}) {\n\tfmt.Println(xs...)\n}\n"

# type expressions for type-switch cases: (name, type text, needs declaration of T / I)
TYPE_SHAPES = [
    ("int", "int"), ("string", "string"), ("named", "T"), ("ptr-named", "*T"), ("slice", "[]int"),
    ("slice-named", "[]T"), ("array", "[2]int"), ("map", "map[string]int"), ("func", "func(int) string"),
    ("chan", "chan int"), ("recv-chan", "<-chan int"), ("struct", "struct{ a int }"),
    ("iface", "interface{ M() }"), ("named-iface", "I"), ("error", "error"), ("empty-iface", "interface{}"),
    ("ptr-ptr", "**int"), ("slice-slice", "[][]string"), ("map-slice", "map[int][]T"), ("nil", "nil"),
]
DECLS = "type T struct {\n\tX int\n}\n\ntype I interface {\n\tM()\n}\n\n"


def typeswitch_dups():
    out = {}
    for name, t in TYPE_SHAPES:
        others = [x for _, x in TYPE_SHAPES if x != t and x != "nil"]
        a, b = others[0], others[3]
        # duplicate across two clauses
        out["typeswitch-dup-across:" + name] = (HEAD + DECLS + "func kind(v interface{}) int {\n\tswitch v.(type) {\n\tcase %s:\n\t\treturn 1\n\tcase %s:\n\t\treturn 2\n"
                                                "\tcase %s:\n\t\treturn 3\n\t}\n\treturn 0\n}\n\nfunc main() {\n\tfmt.Println(kind(1))\n}\n" % (t, a, t))
        # duplicate within one clause list
        out["typeswitch-dup-within:" + name] = (HEAD + DECLS + "func kind(v interface{}) int {\n\tswitch v.(type) {\n\tcase %s, %s, %s:\n\t\treturn 1\n\tdefault:\n\t\treturn 2\n\t}\n}\n\n"
                                                "func main() {\n\tfmt.Println(kind(1))\n}\n" % (t, b, t))
        # duplicate in a later clause list, with a bound variable
        out["typeswitch-dup-bound:" + name] = (HEAD + DECLS + "func kind(v interface{}) int {\n\tswitch x := v.(type) {\n\tcase %s:\n\t\tuse(x)\n\t\treturn 1\n\tcase %s, %s:\n\t\tuse(x)\n\t\treturn 2\n\t}\n\treturn 0\n}\n"
                                               % (t, a, t) + USE + "\nfunc main() {\n\tfmt.Println(kind(1))\n}\n")
    # two defaults
    out["typeswitch-two-defaults"] = (HEAD + "func kind(v interface{}) int {\n\tswitch v.(type) {\n\tdefault:\n\t\treturn 1\n\tcase int:\n\t\treturn 2\n\tdefault:\n\t\treturn 3\n\t}\n}\n\n"
                                      "func main() {\n\tfmt.Println(kind(1))\n}\n")
    return out


def exprswitch_dups():
    out = {}
    consts = [("int", "x", "x := 3", ["1", "2", "3"]), ("string", "s", "s := \"b\"", ["\"a\"", "\"b\"", "\"c\""]),
              ("rune", "r", "r := 'b'", ["'a'", "'b'", "'c'"]), ("bool", "b", "b := true", ["true", "false"]),
              ("named-const", "x", "x := 3", ["K1", "K2", "K3"]), ("folded", "x", "x := 3", ["1 + 1", "2", "4"]),
              ("byte", "c", "c := byte(2)", ["1", "2", "3"]), ("float", "f", "f := 2.0", ["1.0", "2.0", "3.5"])]
    kdecl = "const (\n\tK1 = 1\n\tK2 = 2\n\tK3 = 3\n)\n\n"
    for name, v, init, vals in consts:
        dup = vals[1] if name != "folded" else vals[1]
        first = vals[0] if name != "folded" else vals[0]
        # across clauses
        out["switch-dup-across:" + name] = (HEAD + kdecl + "func main() {\n\t%s\n\tswitch %s {\n\tcase %s:\n\t\tfmt.Println(1)\n\tcase %s:\n\t\tfmt.Println(2)\n\tcase %s:\n\t\tfmt.Println(3)\n\t}\n}\n"
                                            % (init, v, first, dup, dup if name != "folded" else vals[0]))
        # within one clause list
        out["switch-dup-within:" + name] = (HEAD + kdecl + "func main() {\n\t%s\n\tswitch %s {\n\tcase %s, %s:\n\t\tfmt.Println(1)\n\tdefault:\n\t\tfmt.Println(2)\n\t}\n}\n"
                                            % (init, v, dup, dup if name != "folded" else vals[0]))
    out["switch-two-defaults"] = HEAD + "func main() {\n\tx := 1\n\tswitch x {\n\tdefault:\n\t\tfmt.Println(1)\n\tcase 2:\n\t\tfmt.Println(2)\n\tdefault:\n\t\tfmt.Println(3)\n\t}\n}\n"
    out["switch-tagless-two-defaults"] = HEAD + "func main() {\n\tx := 1\n\tswitch {\n\tdefault:\n\t\tfmt.Println(1)\n\tcase x > 2:\n\t\tfmt.Println(2)\n\tdefault:\n\t\tfmt.Println(3)\n\t}\n}\n"
    out["switch-case-type-mismatch"] = HEAD + "func main() {\n\tx := 1\n\tswitch x {\n\tcase \"a\":\n\t\tfmt.Println(1)\n\t}\n}\n"
    out["switch-tagless-nonbool-case"] = HEAD + "func main() {\n\tx := 1\n\tswitch {\n\tcase x:\n\t\tfmt.Println(1)\n\t}\n}\n"
    out["fallthrough-not-last-stmt"] = HEAD + "func main() {\n\tx := 1\n\tswitch x {\n\tcase 1:\n\t\tfallthrough\n\t\tfmt.Println(1)\n\tcase 2:\n\t\tfmt.Println(2)\n\t}\n}\n"
    out["fallthrough-in-typeswitch"] = HEAD + "func main() {\n\tvar v interface{} = 1\n\tswitch v.(type) {\n\tcase int:\n\t\tfallthrough\n\tcase string:\n\t\tfmt.Println(2)\n\t}\n}\n"
    out["fallthrough-outside-switch"] = HEAD + "func main() {\n\tfmt.Println(1)\n\tfallthrough\n}\n"
    return out


def iface_switch_dups():
    """expression switches over an INTERFACE-typed tag: the same constant value may occur once per type; a second
    case of the same value AND type is a duplicate.  Two or three types per value, typed / untyped / named
    constants, conversions, every placement of the duplicated pair, across clauses and within one clause list."""
    out = {}
    decl = ("type MyInt int\n\ntype Color string\n\nconst K100 = 100\n\nconst KU uint = 100\n\nconst KM MyInt = 100\n\n"
            "const Red Color = \"red\"\n\nconst S = \"red\"\n\n")
    families = {
        "int": {"int": ["100", "int(100)", "K100"], "uint": ["uint(100)", "KU"], "int64": ["int64(100)"],
                "MyInt": ["MyInt(100)", "KM"], "float64": ["float64(100)"]},
        "string": {"string": ["\"red\"", "string(\"red\")", "S"], "Color": ["Red", "Color(\"red\")"]},
    }

    def prog(cases_lines):
        return (HEAD + decl + "func kind(v interface{}) int {\n\tswitch v {\n" + cases_lines + "\t}\n\treturn 0\n}\n\n"
                "func main() {\n\tfmt.Println(kind(100), kind(\"red\"))\n}\n")
    n = 0
    for fam, types in families.items():
        tnames = list(types)
        for x in tnames:
            for y in tnames:
                if x == y:
                    continue
                # two types: the pair of identical-type cases at every placement around a case of the other type
                for pat in ("XYY", "YXY", "YYX"):
                    n += 1
                    forms, cnt = [], {x: 0, y: 0}
                    for ch in pat:
                        t = x if ch == "X" else y
                        forms.append(types[t][cnt[t] % len(types[t])])
                        cnt[t] += 1
                    across = "".join("\tcase %s:\n\t\treturn %d\n" % (f, i + 1) for i, f in enumerate(forms))
                    out["iface-switch-dup-across:%s:%s-%s:%s" % (fam, x, y, pat)] = prog(across)
                    if n % 2 == 0:
                        out["iface-switch-dup-within:%s:%s-%s:%s" % (fam, x, y, pat)] = prog("\tcase %s:\n\t\treturn 1\n" % ", ".join(forms))
        # three types, the duplicate is of the second or third type
        if len(tnames) >= 3:
            for i in range(len(tnames) - 2):
                a, b, c = tnames[i], tnames[i + 1], tnames[i + 2]
                for order in ((a, b, c, c), (a, b, c, b), (a, b, b, c), (c, a, b, a), (a, c, b, c)):
                    cnt = {}
                    forms = []
                    for t in order:
                        forms.append(types[t][cnt.get(t, 0) % len(types[t])])
                        cnt[t] = cnt.get(t, 0) + 1
                    key = "iface-switch-dup-3types:%s:%s" % (fam, "-".join(order))
                    out[key] = prog("".join("\tcase %s:\n\t\treturn %d\n" % (f, k + 1) for k, f in enumerate(forms)))
    # mixed clause lists and a default in between
    out["iface-switch-dup-mixed-lists"] = prog("\tcase int(100), \"red\":\n\t\treturn 1\n\tdefault:\n\t\treturn 9\n\tcase uint(100), Red:\n\t\treturn 2\n\tcase KU, 1:\n\t\treturn 3\n")
    out["iface-switch-dup-named-after-literal"] = prog("\tcase \"red\":\n\t\treturn 1\n\tcase Red:\n\t\treturn 2\n\tcase Color(\"red\"):\n\t\treturn 3\n")
    # the float LITERAL 100.0 and the conversion float64(100) are the same constant of the same type
    out["iface-switch-dup-float-forms"] = prog("\tcase 100.0:\n\t\treturn 1\n\tcase float64(100):\n\t\treturn 2\n")
    out["iface-switch-dup-nil-free"] = prog("\tcase 1.5:\n\t\treturn 1\n\tcase float32(1.5):\n\t\treturn 2\n\tcase float32(1.5):\n\t\treturn 3\n")
    return out


def redeclarations():
    out = {}
    main = "\nfunc main() {\n\tfmt.Println(1)\n}\n"
    out["dup-struct-field"] = HEAD + "type S struct {\n\ta int\n\tb string\n\ta bool\n}\n\nfunc main() {\n\tvar s S\n\tfmt.Println(s)\n}\n"
    out["dup-struct-field-group"] = HEAD + "type S struct {\n\ta, b, a int\n}\n\nfunc main() {\n\tvar s S\n\tfmt.Println(s)\n}\n"
    out["dup-struct-field-embedded"] = HEAD + "type E struct{}\n\ntype S struct {\n\tE\n\tE int\n}\n\nfunc main() {\n\tvar s S\n\tfmt.Println(s)\n}\n"
    out["dup-struct-field-anon-type"] = HEAD + "func main() {\n\tvar s struct {\n\t\ta int\n\t\ta int\n\t}\n\tfmt.Println(s)\n}\n"
    out["dup-interface-method"] = HEAD + "type I interface {\n\tM()\n\tM()\n}\n\nfunc main() {\n\tvar i I\n\tfmt.Println(i)\n}\n"
    out["dup-label"] = HEAD + "func main() {\nL:\n\tfor {\n\t\tbreak L\n\t}\nL:\n\tfor {\n\t\tbreak L\n\t}\n\tfmt.Println(1)\n}\n"
    out["unused-label"] = HEAD + "func main() {\nL:\n\tfor i := 0; i < 2; i++ {\n\t\tfmt.Println(i)\n\t}\n}\n"
    out["undefined-label-break"] = HEAD + "func main() {\n\tfor {\n\t\tbreak M\n\t}\n}\n"
    out["undefined-label-continue"] = HEAD + "func main() {\n\tfor i := 0; i < 2; i++ {\n\t\tcontinue M\n\t}\n}\n"
    out["undefined-label-goto"] = HEAD + "func main() {\n\tfmt.Println(1)\n\tgoto M\n}\n"
    out["dup-local-define"] = HEAD + "func main() {\n\tx := 1\n\tx := 2\n\tfmt.Println(x)\n}\n"
    out["dup-local-var"] = HEAD + "func main() {\n\tvar x int\n\tvar x string\n\tfmt.Println(x)\n}\n"
    out["dup-local-var-const"] = HEAD + "func main() {\n\tconst x = 1\n\tvar x = 2\n\tfmt.Println(x)\n}\n"
    out["dup-local-multi-define"] = HEAD + "func main() {\n\ta, b := 1, 2\n\ta, b := 3, 4\n\tfmt.Println(a, b)\n}\n"
    out["dup-local-type"] = HEAD + "func main() {\n\ttype t int\n\ttype t string\n\tvar x t\n\tfmt.Println(x)\n}\n"
    out["dup-package-func"] = HEAD + "func f() {}\n\nfunc f() {}\n" + main
    out["dup-package-var"] = HEAD + "var v = 1\n\nvar v = 2\n" + main
    out["dup-package-var-func"] = HEAD + "var f = 1\n\nfunc f() {}\n" + main
    out["dup-package-type"] = HEAD + "type t int\n\ntype t string\n" + main
    out["dup-package-const"] = HEAD + "const c = 1\n\nconst c = 2\n" + main
    out["dup-package-type-func"] = HEAD + "type g int\n\nfunc g() {}\n" + main
    out["dup-package-var-group"] = HEAD + "var a, b, a = 1, 2, 3\n" + main
    out["dup-main"] = HEAD + "func main() {\n\tfmt.Println(1)\n}\n\nfunc main() {\n\tfmt.Println(2)\n}\n"
    out["dup-import-name"] = "package main\n\nimport (\n\t\"fmt\"\n\tfmt \"strings\"\n)\n\nfunc main() {\n\tfmt.Println(1)\n}\n"
    out["dup-field-in-literal"] = HEAD + "type S struct {\n\ta, b int\n}\n\nfunc main() {\n\ts := S{a: 1, b: 2, a: 3}\n\tfmt.Println(s)\n}\n"
    out["dup-index-in-slice-literal"] = HEAD + "func main() {\n\txs := []int{0: 1, 1: 2, 0: 3}\n\tfmt.Println(xs)\n}\n"
    out["dup-index-in-array-literal"] = HEAD + "func main() {\n\txs := [3]int{1: 1, 1: 2}\n\tfmt.Println(xs)\n}\n"
    out["dup-method-and-field"] = HEAD + "type S struct {\n\tm int\n}\n\nfunc (s S) m() {}\n\nfunc main() {\n\tvar s S\n\tfmt.Println(s)\n}\n"
    out["dup-result-name"] = HEAD + "func f() (a int, a string) {\n\treturn\n}\n\nfunc main() {\n\tfmt.Println(f())\n}\n"
    out["dup-param-result-name"] = HEAD + "func f(a int) (a string) {\n\treturn\n}\n\nfunc main() {\n\tfmt.Println(f(1))\n}\n"
    out["dup-type-param-field-key"] = HEAD + "func main() {\n\tm := map[string]int{\"a\": 1}\n\tm := 2\n\tfmt.Println(m)\n}\n"
    return out


def typing_errors():
    out = {}
    def prog(body, decls=""):
        return HEAD + decls + "func main() {\n" + "".join("\t" + l + "\n" for l in body.split("\n")) + "}\n"
    T = "type T struct {\n\tX int\n}\n\nfunc (t T) Get() int {\n\treturn t.X\n}\n\nfunc two() (int, string) {\n\treturn 1, \"a\"\n}\n\nfunc one(a int) int {\n\treturn a\n}\n\n"
    cases = {
        "undefined-ident": "fmt.Println(nosuch)",
        "undefined-func": "nosuch(1)",
        "undefined-type": "var x NoSuch\nfmt.Println(x)",
        "undefined-field": "t := T{}\nfmt.Println(t.Y)",
        "undefined-method": "t := T{}\nfmt.Println(t.Nope())",
        "undefined-pkg-member": "fmt.NoSuchFunc(1)",
        "unknown-field-in-literal": "t := T{Y: 1}\nfmt.Println(t)",
        "mismatched-binary": "x := 1 + \"a\"\nfmt.Println(x)",
        "mismatched-binary-vars": "a, b := 1, \"s\"\nfmt.Println(a + b)",
        "mismatched-compare": "a, b := 1, \"s\"\nfmt.Println(a == b)",
        "assign-wrong-type": "var x int = \"s\"\nfmt.Println(x)",
        "assign-wrong-type-later": "x := 1\nx = \"s\"\nfmt.Println(x)",
        "assign-count-mismatch": "a, b := 1\nfmt.Println(a, b)",
        "assign-count-mismatch-call": "a := two()\nfmt.Println(a)",
        "assign-count-mismatch-3": "a, b, c := two()\nfmt.Println(a, b, c)",
        "assign-to-literal": "x := 1\n1 = x\nfmt.Println(x)",
        "assign-to-const": "const c = 1\nc = 2\nfmt.Println(c)",
        "assign-string-index": "s := \"ab\"\ns[0] = 'c'\nfmt.Println(s)",
        "assign-to-call": "one(1) = 2",
        "too-many-args": "fmt.Println(one(1, 2))",
        "too-few-args": "fmt.Println(one())",
        "wrong-arg-type": "fmt.Println(one(\"s\"))",
        "call-non-func": "x := 1\nx()",
        "return-too-many": None,
        "nonbool-if": "x := 1\nif x {\n\tfmt.Println(x)\n}",
        "nonbool-for": "x := 1\nfor x {\n\tfmt.Println(x)\n}",
        "nonbool-not": "x := 1\nfmt.Println(!x)",
        "range-over-int-value": "x := 1.5\nfor i := range x {\n\tfmt.Println(i)\n}",
        "index-non-indexable": "x := 1\nfmt.Println(x[0])",
        "index-with-string": "xs := []int{1}\nfmt.Println(xs[\"a\"])",
        "slice-non-sliceable": "x := 1\nfmt.Println(x[0:1])",
        "deref-non-pointer": "x := 1\nfmt.Println(*x)",
        "field-of-int": "x := 1\nfmt.Println(x.f)",
        "const-div-zero": "x := 1 / 0\nfmt.Println(x)",
        "const-overflow": "var x int8 = 300\nfmt.Println(x)",
        "convert-impossible": "x := int(\"s\")\nfmt.Println(x)",
        "interface-not-implemented": "var s fmt.Stringer = T{}\nfmt.Println(s)",
        "type-assert-non-interface": "x := 1\nfmt.Println(x.(int))",
        "impossible-type-assert": "var s fmt.Stringer\nfmt.Println(s.(T))",
        "typeswitch-non-interface": "x := 1\nswitch x.(type) {\ncase int:\n}",
        "typeswitch-impossible-case": "var s fmt.Stringer\nswitch s.(type) {\ncase T:\n}",
        "append-non-slice": "x := 1\nx = append(x, 2)\nfmt.Println(x)",
        "append-wrong-elem": "xs := []int{1}\nxs = append(xs, \"s\")\nfmt.Println(xs)",
        "len-of-int": "x := 1\nfmt.Println(len(x))",
        "map-key-wrong-type": "m := map[string]int{}\nfmt.Println(m[1])",
        "map-literal-wrong-value": "m := map[string]int{\"a\": \"b\"}\nfmt.Println(m)",
        "slice-literal-wrong-elem": "xs := []int{1, \"a\"}\nfmt.Println(xs)",
        "struct-literal-wrong-field-type": "t := T{X: \"s\"}\nfmt.Println(t)",
        "struct-literal-too-many": "t := T{1, 2}\nfmt.Println(t)",
        "composite-literal-non-composite": "x := int{1}\nfmt.Println(x)",
        "send-on-non-chan": "x := 1\nx <- 2",
        "recv-from-non-chan": "x := 1\nfmt.Println(<-x)",
        "send-wrong-type": "ch := make(chan int, 1)\nch <- \"s\"",
        "incdec-string": "s := \"a\"\ns++\nfmt.Println(s)",
        "opassign-mismatch": "x := 1\nx += \"s\"\nfmt.Println(x)",
        "shift-by-string": "x := 1 << \"a\"\nfmt.Println(x)",
        "unary-minus-string": "s := \"a\"\nfmt.Println(-s)",
        "use-of-package-as-value": "x := fmt\n_ = x",
        "use-type-as-value": "x := T\n_ = x",
        "method-value-undefined": "t := T{}\nf := t.Nope\nf()",
        "defer-non-call-value": "x := 1\ndefer x",
        "go-non-call-value": "x := 1\ngo x",
        "closure-wrong-return": "f := func() int {\n\treturn \"s\"\n}\nfmt.Println(f())",
        "new-with-value": "x := new(1)\nfmt.Println(x)",
        "make-non-makeable": "x := make(int)\nfmt.Println(x)",
        "cap-of-map": "m := map[int]int{}\nfmt.Println(cap(m))",
        "delete-from-slice": "xs := []int{1}\ndelete(xs, 0)",
        "copy-wrong-types": "xs := []int{1}\nfmt.Println(copy(xs, \"s\"))",
        "unexported-field-of-import": "var b fmt.Formatter\nfmt.Println(b.x)",
        "array-len-mismatch": "xs := [2]int{1, 2, 3}\nfmt.Println(xs)",
        "negative-array-len": "var xs [-1]int\nfmt.Println(xs)",
        "nonconst-array-len": "n := 2\nvar xs [n]int\nfmt.Println(xs)",
        "const-nonconst-init": "n := 2\nconst c = n\nfmt.Println(c)",
        "label-break-nonenclosing": "L:\nfor i := 0; i < 1; i++ {\n}\nfor {\n\tbreak L\n}",
        "invalid-indirect-call-result": "fmt.Println(two() + 1)",
        "multi-value-in-single-context": "x := one(two())\nfmt.Println(x)",
        "void-used-as-value": "x := fmt.Println\ny := x()\n_ = y\nvar z int = noval()\nfmt.Println(z)",
        "init-called": "init()",
        "main-with-args": None,
    }
    for k, body in cases.items():
        if body is not None:
            decls = T
            if k == "void-used-as-value":
                decls = T + "func noval() {\n}\n\n"
            out["type-error:" + k] = prog(body, decls)
    out["type-error:return-too-many"] = HEAD + "func f() int {\n\treturn 1, 2\n}\n\nfunc main() {\n\tfmt.Println(f())\n}\n"
    out["type-error:return-too-few"] = HEAD + "func f() (int, int) {\n\treturn 1\n}\n\nfunc main() {\n\tfmt.Println(f())\n}\n"
    out["type-error:return-value-in-void"] = HEAD + "func f() {\n\treturn 1\n}\n\nfunc main() {\n\tf()\n}\n"
    out["type-error:return-wrong-type"] = HEAD + "func f() int {\n\treturn \"s\"\n}\n\nfunc main() {\n\tfmt.Println(f())\n}\n"
    out["type-error:method-on-builtin"] = HEAD + "func (x int) m() {}\n\nfunc main() {\n\tfmt.Println(1)\n}\n"
    out["type-error:method-on-undefined"] = HEAD + "func (x NoSuch) m() {}\n\nfunc main() {\n\tfmt.Println(1)\n}\n"
    out["type-error:recursive-type"] = HEAD + "type R R\n\nfunc main() {\n\tvar x R\n\tfmt.Println(x)\n}\n"
    out["type-error:init-cycle"] = HEAD + "var a = b\n\nvar b = a\n\nfunc main() {\n\tfmt.Println(a)\n}\n"
    out["type-error:init-with-args"] = HEAD + "func init(x int) {\n}\n\nfunc main() {\n\tfmt.Println(1)\n}\n"
    out["type-error:main-with-result"] = HEAD + "func main() int {\n\tfmt.Println(1)\n\treturn 0\n}\n"
    out["type-error:missing-import"] = "package main\n\nfunc main() {\n\tfmt.Println(1)\n}\n"
    out["type-error:import-not-found"] = "package main\n\nimport \"no/such/pkg\"\n\nfunc main() {\n\tpkg.F()\n}\n"
    out["type-error:var-type-mismatch-pkg"] = HEAD + "var v int = \"s\"\n\nfunc main() {\n\tfmt.Println(v)\n}\n"
    out["type-error:const-type-mismatch"] = HEAD + "const c string = 1\n\nfunc main() {\n\tfmt.Println(c)\n}\n"
    return out


# near-misses of the families above that cl does NOT diagnose on the current tree (err == nil, Go rejects
# the output): known findings of C06, listed by these names in known_findings.txt
KNOWN_UNDIAGNOSED = {
    "dup-interface-method": "duplicate method in an interface type: \"duplicate method M\"",
    "dup-field-in-literal": "`S{a: 1, b: 2, a: 3}`: \"duplicate field name a in struct literal\"",
    "dup-index-in-slice-literal": "`[]int{0: 1, 1: 2, 0: 3}`: \"duplicate index 0 in array or slice literal\"",
    "dup-index-in-array-literal": "`[3]int{1: 1, 1: 2}`: \"duplicate index 1 in array or slice literal\"",
    "dup-method-and-field": "a struct field and a method with the same name: \"field and method with the same name m\"",
    "dup-result-name": "`func f() (a int, a string)`: \"a redeclared in this block\"",
    "dup-param-result-name": "`func f(a int) (a string)`: \"a redeclared in this block\"",
    "type-error:index-with-string": "`xs[\"a\"]` on a slice: \"cannot convert \"a\" (untyped string constant) to type int\"",
    "type-error:convert-impossible": "`int(\"s\")`: \"cannot convert \"s\" (untyped string constant) to type int\"",
    "type-error:map-key-wrong-type": "`m[1]` on a map[string]int: \"cannot use 1 (untyped int constant) as string value in map index\"",
    "type-error:send-on-non-chan": "`x <- 2` with x int: \"cannot send to non-channel\"",
    "type-error:send-wrong-type": "`ch <- \"s\"` on a chan int: \"cannot use \"s\" ... as int value in send\"",
    "type-error:use-type-as-value": "`x := T`: \"T (type) is not an expression\"",
    "type-error:negative-array-len": "`var xs [-1]int` is written as `[...]int`: \"invalid use of [...] array (outside a composite literal)\"",
    "iface-switch-dup-float-forms": "`case 100.0:` and `case float64(100):` over an interface tag: \"duplicate case float64(100) (constant 100 of type float64) in expression switch\"",
    "type-error:main-with-result": "`func main() int`: \"func main must have no arguments and no return values\"",
}
# not near-misses after all (Go accepts them, or the XGo parser rejects them): left out
NOT_NEAR_MISS = {"switch-dup-across:bool", "switch-dup-within:bool", "type-error:defer-non-call-value",
                 "type-error:go-non-call-value", "type-error:label-break-nonenclosing"}


def all_witnesses():
    """-> (diagnosed: name -> source, undiagnosed: name -> source)"""
    out = {}
    for fam in (typeswitch_dups, exprswitch_dups, iface_switch_dups, redeclarations, typing_errors):
        out.update(fam())
    diag = {k: v for k, v in out.items() if k not in KNOWN_UNDIAGNOSED and k not in NOT_NEAR_MISS}
    und = {k: v for k, v in out.items() if k in KNOWN_UNDIAGNOSED}
    return diag, und


def mixed_main_packages():
    """mixed main packages compiled with the DEFAULT config (NoAutoGenMain = false): main / init / other symbols
    live in the Go files or in the XGo files; expected: cl reports success and the written Go type-checks TOGETHER
    with the package's .go files (a second, auto-generated main would be "main redeclared")"""
    gomain = "package main\n\nimport \"fmt\"\n\nfunc main() {\n\tfmt.Println(Helper(2), answer)\n}\n"
    goinit = "package main\n\nimport \"fmt\"\n\nfunc init() {\n\tfmt.Println(\"go init\")\n}\n"
    gohelp = "package main\n\nfunc GoDouble(x int) int {\n\treturn x * 2\n}\n\ntype GoT struct {\n\tN int\n}\n\nvar GoV = 3\n\nconst GoC = 4\n"
    xhelp = "const answer = 42\n\nfunc Helper(x int) int {\n\treturn x + 1\n}\n"
    out = {
        "main-in-go": [("m.go", gomain), ("h.xgo", xhelp)],
        "main-in-go-two-xgo": [("m.go", gomain), ("a.xgo", "const answer = 42\n"), ("b.xgo", "func Helper(x int) int {\n\treturn x + 1\n}\n")],
        "main-in-go-gop-ext": [("m.go", gomain), ("h.gop", xhelp)],
        "main-in-go-sorted-first": [("0main.go", gomain), ("z.xgo", xhelp)],
        "main-in-go-and-init-in-go": [("m.go", gomain), ("i.go", goinit), ("h.xgo", xhelp)],
        "main-in-go-init-in-xgo": [("m.go", gomain), ("h.xgo", xhelp + "\nfunc init() {\n\tprintln \"xgo init\"\n}\n")],
        "main-in-go-class-file": [("m.go", "package main\n\nfunc main() {\n\tr := &Rect{}\n\t_ = r.Area()\n}\n"),
                                  ("Rect.gox", "var (\n\tw int\n)\n\nfunc Area() int {\n\treturn w\n}\n")],
        "main-in-xgo-func": [("h.go", gohelp), ("m.xgo", "func main() {\n\tprintln GoDouble(GoV), GoC, GoT{N: 1}\n}\n")],
        "main-in-xgo-statements": [("h.go", gohelp), ("m.xgo", "println GoDouble(GoV), GoC\n")],
        "main-in-xgo-init-in-go": [("i.go", goinit), ("m.xgo", "println \"main\"\n")],
        "no-main-anywhere": [("h.go", gohelp), ("a.xgo", "func Helper(x int) int {\n\treturn GoDouble(x)\n}\n")],
        "no-main-only-init-in-go": [("i.go", goinit), ("a.xgo", "func Helper(x int) int {\n\treturn x\n}\n")],
        "non-main-package": [("h.go", gohelp.replace("package main", "package lib")), ("a.xgo", "package lib\n\nfunc Helper(x int) int {\n\treturn GoDouble(x)\n}\n")],
        "go-uses-xgo-type": [("m.go", "package main\n\nimport \"fmt\"\n\nfunc main() {\n\tfmt.Println(Point{1, 2}.Sum())\n}\n"),
                             ("p.xgo", "type Point struct {\n\tX, Y int\n}\n\nfunc (p Point) Sum() int {\n\treturn p.X + p.Y\n}\n")],
        "xgo-method-on-go-type": [("t.go", "package main\n\ntype GoT struct {\n\tN int\n}\n\nfunc main() {\n\tprintln(GoT{2}.Twice())\n}\n"),
                                  ("m.xgo", "func (t GoT) Twice() int {\n\treturn t.N * 2\n}\n")],
        "main-var-in-go": [("v.go", "package main\n\nvar counter = 1\n\nfunc main() {\n\tcounter = Next(counter)\n}\n"), ("n.xgo", "func Next(x int) int {\n\treturn x + 1\n}\n")],
    }
    return {k: [{"name": n, "src": src} for n, src in v] for k, v in out.items()}
