"""C28 — grammar matching always terminates (tpl/matcher/match.go, tpl/cl/compile.go).

A  K-gen: Gen/TplFirst.v (first/mayEmpty rule of every Matcher.First method) regenerated from /repo;
   C28_first_rules_match_source ties it to the model's first (= the compile-time left-recursion check)
   Props/C28.v : C28_match_terminates (productive grammar => Doc.Match needs at most
   fuel_bound = 1 + (|toks|+1)(R+1)W steps of recursion depth, any input, any start rule),
   C28_result_stable, and the two refutations of "compiles => terminates"
   (C28_compile_accepts_nullable_rep_refuted, C28_compile_accepts_left_rec_refuted)
B  extracted pipeline vs tpl.New + Compiler.Match (under a per-case watchdog) on seeded grammars
   biased towards recursion, optional/nullable parts and repetitions x derived/mutated inputs, for
   every pair on which the model terminates; the model's prediction "does not terminate" is
   compared with the implementation on the deterministic witness list below
C  direct oracle: Compiler.Match must return within the watchdog.  The witnesses of the two known
   defect classes (nullable repetition body; left recursion not crossing a Choice) are run ONCE
   each in their own child process under a time and memory limit; each is a listed known finding.
   Seeded generation does not run pairs the model classifies as non-terminating (they all belong
   to those two classes: the model has no certificate for them).
"""
from checks import tplm

CLAIM = {
    "level": "proof",
    "text": "Coq theorem over the line-by-line matcher model: for every grammar with a productivity certificate (ranks excluding "
            "left recursion, may-be-empty flags excluding nullable repetition bodies; decidable check) matching terminates on every "
            "input within an explicit fuel bound, and the result is independent of extra fuel. The property as stated (every grammar "
            "that compiles terminates) is refuted on the model exactly as on the implementation: doc = *(?IDENT) and "
            "doc = doc \"+\" IDENT compile, have no certificate, and exhaust any fuel (known findings, reproduced on the real "
            "code in child processes on every run). Model tied to the code by the differential run of C29's pipeline under a watchdog.",
    "note": "Trusted: Coq kernel, extraction, harness, tpl/scanner. 'Terminates' is shown for the model's recursion (fuel = call depth "
            "incl. loop iterations); scanner termination is C15/C32's subject. RetProcs (result rewriters) and the Dyn-error paths are "
            "modelled in Model/TplRp.v (runp), tied by the same differential run; see Props/C28.v for what is proved about runp.",
}

# deterministic witnesses: (grammar, input, what)
WITNESSES = [
    ("doc = *(?IDENT)\n", "", "nullable repetition body: *(?IDENT) loops forever (memory grows)"),
    ('doc = doc "+" IDENT\n', "a", "left recursion: doc = doc \"+\" IDENT recurses until the stack limit"),
    ("doc = *(*INT)\n", "x", "nullable repetition body: *(*INT)"),
    ("doc = +(?INT ?IDENT)\n", "", "nullable repetition body: +(?INT ?IDENT)"),
    ("doc = ?INT doc IDENT\n", "x", "hidden left recursion behind an optional: doc = ?INT doc IDENT"),
    # a RetProc raising a runtime (Dyn) error for a rule that matched no token: gRepeat0 keeps going at the same position
    ("doc = *(a ++ INT)\na = ?IDENT\n", "1", "RetProc Dyn error on an empty match inside *R: doc = *(a ++ INT), a = ?IDENT, RetProc(a) panics", "a=boom"),
]
# compile-time rejections that must stay rejections (left recursion crossing a Choice)
REJECTED = [("doc = a | INT\na = ?INT doc\n", "x"), ("doc = doc | INT\n", "1"), ("doc = INT | doc \"+\"\n", "1")]


def run(ctx):
    ctx.regen(["tokens", "tplcl", "tplfirst"])
    ctx.prove("C28")
    rng = ctx.rng
    cases, cats = [], []
    # left recursion hidden behind nullable prefixes, the recursion passing through a Choice option: every such grammar
    # must be rejected at compile time (RecursiveError).  Deterministic family + seeded variants; these pairs are run on
    # the implementation WHATEVER the model says, so a grammar that newly compiles and recurses forever is a failing input.
    fam = []
    for rules in tplm.leftrec_family():
        g = tplm.grammar_text(rules).encode()
        for t in tplm.LEFTREC_INPUTS:
            fam.append((g, t.encode(), "hidden-leftrec"))
    for _ in range(ctx.n(120, 6000)):
        tpls = tplm.leftrec_templates(tplm.gen_nullable(rng, 2), tplm.gen_nullable(rng, 2))
        g = tplm.grammar_text(rng.choice(tpls)).encode()
        for _ in range(2):
            fam.append((g, rng.choice(tplm.LEFTREC_INPUTS).encode(), "hidden-leftrec-seeded"))
    # every builtin token class (EOF, COMMENT, ... of cl's idents table) inside repetition / list / optional contexts on
    # inputs matched up to the very end of the token list: also run whatever the model says
    for g, t in tplm.builtin_class_family():
        fam.append((g, t, "builtin-class-at-end"))
    for g, t, c in fam:
        cases.append((g, t))
        cats.append(c)
    nfam = len(cases)
    for g, t in REJECTED:
        cases.append((g.encode(), t.encode()))
        cats.append("rejected-at-compile")
    for _ in range(ctx.n(300, 15000)):
        rules = tplm.gen_grammar(rng, recursive=(rng.below(3) > 0), depth=3)
        gtext = tplm.grammar_text(rules).encode()
        for _ in range(3):
            sent = tplm.derive(rng, ("ref", rules[0][0]), rules)
            if rng.below(2):
                sent = tplm.mutate_sentence(rng, sent)
            sent = sent[:12]      # backtracking over nested right recursion is exponential in the input length on both sides
            cases.append((gtext, tplm.sentence_text(sent).encode()))
            cats.append("seeded")
    # result rewriters (RetProcs) and the runtime-error (Dyn) paths of every combinator: a compiled grammar WITH
    # rewriters must terminate as well
    nrp0 = len(cases)
    for g, t, rps in tplm.retproc_family():
        cases.append((g, t, rps))
        cats.append("retproc")
    for _ in range(ctx.n(150, 8000)):
        rules = tplm.gen_grammar(rng, recursive=False)
        gtext = tplm.grammar_text(rules).encode()
        rps = tplm.gen_retprocs(rng, rules)
        for _ in range(2):
            sent = tplm.derive(rng, ("ref", rules[0][0]), rules)
            if rng.below(2):
                sent = tplm.mutate_sentence(rng, sent)
            cases.append((gtext, tplm.sentence_text(sent[:12]).encode(), rps))
            cats.append("retproc-seeded")
    nrp = len(cases) - nrp0
    res = tplm.run_pipeline(ctx, cases, watchdog="5s", always_run=range(nfam))
    cases = [(c[0], c[1], c[2] if len(c) > 2 else "-") for c in cases]
    if res is None:
        return
    mlines, mout, rows = res
    flags = ctx.notes.pop("productive_flags")
    idx = [i for i in range(len(cases)) if rows[i] is not None]

    def nonterm(r):     # the model's FUEL corresponds to a hang / stack overflow of the implementation
        return "FUEL" if (r.startswith("HANG") or r.startswith("CRASH")) else r
    ctx.diff_lines("match_doc~Compiler.Match(termination, compile verdict)",
                   ["%s | %s | %s" % (cases[i][0].decode("utf-8", "replace").replace("\n", " ; "), cases[i][1].decode("utf-8", "replace"), cases[i][2]) for i in idx],
                   "\n".join(nonterm(rows[i][0]) for i in idx), "\n".join(mout[i] for i in idx))
    fam_verdicts = {}
    for i in range(nfam):
        if rows[i] is not None:
            k = rows[i][0].split(" ")[0]
            fam_verdicts[k] = fam_verdicts.get(k, 0) + 1
    stats = {"productive(P)": 0, "no-certificate-but-terminates(N)": 0, "model-FUEL-not-run": 0, "compile-or-parse-error": 0}
    for i in range(len(cases)):
        if rows[i] is None:
            stats["model-FUEL-not-run"] += 1
            if flags[i] == "P" and mout[i] == "FUEL":
                ctx.broken("theorem-vs-model-runner", "model ran out of fuel on a grammar it certifies productive: %r" % (cases[i],))
            continue
        if flags[i] == "P":
            stats["productive(P)"] += 1
        elif flags[i] == "N":
            stats["no-certificate-but-terminates(N)"] += 1
        else:
            stats["compile-or-parse-error"] += 1
        r = rows[i]
        if r[0].startswith("HANG") or r[0].startswith("CRASH") or (len(r) > 1 and r[1] != "ok"):
            g, t, rps = cases[i]
            ctx.fail(tplm.key_of(g, t, rps), "Match(%r, %r, retprocs=%s): %s %s" % (g.decode("utf-8", "replace"), t.decode("utf-8", "replace"), rps, r[0][:80], r[1] if len(r) > 1 else ""),
                     {"grammar": g.decode("utf-8", "replace"), "input": t.decode("utf-8", "replace"), "retprocs": rps, "impl": r[0], "model": mout[i], "productive": flags[i]})
    # the deterministic witnesses: model must say FUEL; the implementation is run once each, alone
    impl = ctx.harness("tplm")
    model = ctx.model("tplm")
    wit = []
    for w in WITNESSES:
        g, t, what = w[:3]
        wrps = w[3] if len(w) > 3 else "-"
        gb, tb = g.encode(), t.encode()
        line = "%s\t%s\t%s\n" % (gb.hex(), tb.hex(), wrps)
        rc, sc = ctx.run([impl, "-mode", "scan"], input=line)
        rc, mo = ctx.run([model], input=sc)
        mres = mo.split("\n")[0].split("\t")[0]
        rc, out = ctx.run([impl, "-mode", "match", "-watchdog", "700ms"], input=line, timeout=20, mem_kb=4000000)
        first = (out.split("\n")[0] or "").split("\t")[0]
        ires = "FUEL" if (first.startswith("HANG") or rc not in (0,)) else first
        wit.append({"grammar": g, "input": t, "retprocs": wrps, "model": mres, "impl": first or "CRASH(rc=%d)" % rc})
        if mres != ires:
            ctx.broken("correspondence(non-termination witness)", "grammar=%r input=%r model=%s impl=%s rc=%d" % (g, t, mres, first, rc))
        if ires == "FUEL":
            ctx.fail(tplm.key_of(gb, tb, wrps), "Match(%r, %r, retprocs=%s) does not terminate: %s" % (g, t, wrps, what),
                     {"grammar": g, "input": t, "retprocs": wrps, "impl": first or "crash rc=%d" % rc, "what": what})
    ctx.cover(evaluations=len(idx) + len(WITNESSES), distinct_nontrivial=len(set(cases[i] for i in idx if flags[i] in ("P", "N"))), retproc_pairs=nrp,
              samples=[{"grammar": cases[i][0].decode("utf-8", "replace"), "input": cases[i][1].decode("utf-8", "replace"),
                        "impl": (rows[i] or ["(not run)"])[0][:120], "certificate": flags[i]} for i in (0, 5, 100, len(cases) - 1)] + wit[:2],
              rule="builtin-token-class family: the 18 builtin class names (whole idents table of tpl/cl incl. EOF and COMMENT, RAWSTRING, "
                   "QSTRING; SPACE is nullable and covered elsewhere) x 15 repetition/list/optional/adjoin/rule contexts x 10 inputs consumed to the end of the token list, "
                   "always run under the watchdog; RetProc family (%d pairs): a rewriter on a rule (reject the literal 0 with a runtime/Dyn error or an ordinary error, wrap, "
                   "identity; optionally a second rewriter on doc) in 13 repetition/sequence/choice/list/adjoin/nesting contexts x 14 inputs "
                   "(rejected element first/second/later/last/nested/absent) + seeded grammars with random rewriters; "
                   "hidden-left-recursion family (%d pairs, run on the implementation whatever the model says): 20 nullable constructs "
                   "(?R, *R, \"\", SPACE, choices with the nullable alternative first/middle/last, nested choices, nullable sequences) x 8 "
                   "templates (recursive alternative first/middle/last, reached from another rule, indirect through a choice / a "
                   "sequence, choice-in-sequence-in-choice, two nullable items) x 7 inputs (x, empty, wrong token, matching ones) + "
                   "seeded nullable constructs; the compile verdict (RecursiveError vs compiled) is part of the compared result. "
                   "seeded grammars of 1-4 rules (2/3 with arbitrary rule references incl. self/mutual recursion and \"\" leaves, "
                   "depth<=4) x 3 inputs (derived, half of them mutated, at most 12 tokens: matching time is exponential in the input "
                   "length for nested right recursion such as doc = +(\"<<=\" %% doc) %% RAWSTRING, on the implementation as on the model); each pair on which the model terminates is run on the "
                   "implementation under a 5s watchdog. EXCLUDED from the seeded run, never silently: pairs on which the model "
                   "exceeds its fuel bound (no productivity certificate: nullable repetition body or left recursion not crossing a "
                   "Choice) — that class is represented by %d deterministic witnesses run once each in a child process "
                   "(700ms watchdog, 4GB) and listed as known findings; %d compile-time rejections are checked to stay rejections. "
                   "non-trivial = distinct compiled pair." % (nrp, nfam, len(WITNESSES), len(REJECTED)),
              termination_classes=stats, witnesses=wit, hidden_leftrec_family={"pairs": nfam, "impl_outcomes": fam_verdicts})
    ctx.trust("modelled, not verified: tpl/matcher/match.go (hand-written Gallina model tied by differential run)")
    ctx.assume("RetProcs are drawn from the family {identity, wrap, reject-literal with a Dyn error, reject-literal with a plain error}; "
               "a rewriter that panics with a string while the remaining input is empty is outside it (Var.Match's recover indexes src[0])",
               "Choice matchers have at least one option")
