"""C08 — compilation output is deterministic (cl/compile.go, cl/classfile.go, x/build/build.go).

A  Props/C08.v: the compiler as a fold of an arbitrary per-file step over the files sorted by path
   is independent of the presentation order (sorted_files_perm_invariant, sort_unique); the same
   for the preload/redeclaration/emission-order model new_package; one permutation-invariance
   lemma per map-range loop shape; the order-dependent shapes refuted.
   K-gen: translator `mapranges` lists every `for ... range <map>` of cl/*.go and x/build/*.go
   (go/types) with a hash of the normalised statement -> Gen/MapRanges.v; obligation
   generated ⊆ reviewed (Proofs/MapRanges.v) by vm_compute.
B  K-diff: extracted new_package vs cl.NewPackage on generated func-only packages (XGo + Go
   files, colliding names): redeclaration errors (name, reporting file, previous file) in order,
   or the emission order of the funcs in the written Go.
C  search / direct oracle: corpus packages of /repo (cl/_testgop, cl/_testspx, demo, fullspec),
   deterministic witnesses, generated mixed packages (with and without compile errors), each
   compiled R times in one process with shuffled presentation and once in each of F fresh
   processes; all WriteTo bytes / error strings of one package must be identical.
"""
import json
import os
from concurrent.futures import ThreadPoolExecutor

import vlib
from checks import g9gen

CLAIM = {
    "level": "other",
    "text": "Kernel theorems in Coq: cl.NewPackage modelled as a fold of an arbitrary per-file step over the files "
            "sorted by path is invariant under every permutation of the presented files (any sorting algorithm, "
            "distinct paths); the concrete preload/redeclaration/emission-order model is invariant too and is compared "
            "with the real compiler on every run; every map-range loop of cl/*.go and x/build/*.go is regenerated from "
            "the source (go/types), must be in a reviewed list (obligation by computation) and has a permutation "
            "lemma for its shape (no order-dependent site is left after the repairs of initGopPkg, gmxCheckProjs and x/build "
            "loadPackage, which are sorted folds now). The rest of the "
            "compiler is explored: corpus + generated packages compiled repeatedly in one process and in fresh "
            "processes with shuffled presentation, bytes and error strings compared.",
    "note": "Modelled, not verified: NewPackage's sorting/preload/load loops, initLoader, the loop shapes. Reviewed by "
            "hand and pinned by statement hash: what each map-range body does. Explored only: everything gogen does, "
            "the un-modelled loaders. Recorder callbacks (goxRecorder.Complete) are not observed. Parse errors are "
            "outside the property (packages are generated parseable).",
}

FINDINGS = {
    # names of the deterministic witnesses of the three order dependences that were repaired in /repo
    # (initGopPkg, gmxCheckProjs, x/build loadPackage): regression inputs, reported under these keys
    "gofile-type-errors-order", "projs-default-class-collision", "builddir-two-packages",
}


def witness_pkgs():
    P = []
    # initGopPkg ranges ctx.syms: several Go-file types with an error each -> error list in map order
    body = "package main\n\n" + "".join("type T%d struct{ x Undef%d }\n" % (i, i) for i in range(12))
    P.append(("gofile-type-errors-order", [{"name": "a.go", "src": body}, {"name": "c.xgo", "src": "println \"hi\"\n"}], {}))
    # gmxCheckProjs ranges ctx.projs: two projects without project file, both default class "Game"
    kai = "println \"Hi\"\n"
    P.append(("projs-default-class-collision", [
        {"name": "Kai.tspx", "src": kai}, {"name": "Dog.tspx", "src": kai},
        {"name": "Cat_spx.gox", "src": "println \"cat\"\n"}, {"name": "bar.t2spx", "src": "println \"x\"\n"}], {}))
    # x/build loadPackage: no package main -> first package of a map
    P.append(("builddir-two-packages", [
        {"name": "a.xgo", "src": "package a\n\nfunc A() {}\n"}, {"name": "b.xgo", "src": "package b\n\nfunc B() {}\n"},
        {"name": "c.xgo", "src": "package c\n\nfunc C() {}\n"}, {"name": "d.xgo", "src": "package d\n\nfunc D() {}\n"}],
        {"via": "build"}))
    return P


def run(ctx):
    ctx.level = CLAIM["level"]
    ctx.regen(["mapranges"])
    ctx.prove("C08")
    # the generated table and its obligation, re-stated for the evidence
    try:
        sites = ctx.gen_json("mapranges")
        ctx.notes["map_range_sites"] = ["%s:%s %s range %s #%s" % (s["dir"], s["file"], s["func"], s["expr"], s["hash"]) for s in sites]
    except Exception:
        sites = []
    model = ctx.model("c08")
    ctx.log("model built")
    impl = ctx.harness("c08")
    ctx.log("harness built")
    exports = g9gen.export_table(ctx, vlib)
    ctx.log("export table written")

    # ---------------- B: K-diff on func-only packages
    n_order = ctx.n(800, 8000)
    ocases, olines, omodel = [], [], []
    fixed = [  # fixed shapes first: byte order of names, init/blank, Go-file main, collisions
        ([("a.xgo", ["A", "init", "_", "main"]), ("B.xgo", ["B", "init"]), ("a_b.xgo", ["C"]), ("ab.xgo", ["D"]), ("a.b.xgo", ["E"])], []),
        ([("b.xgo", ["A", "B", "A"]), ("a.xgo", ["A", "B"])], [("a.go", ["A", "C"]), ("0.go", ["C"])]),
        ([("x.xgo", ["f"])], [("m.go", ["main"])]),
        ([("x.xgo", ["f", "g"])], [("b.go", ["Dup"]), ("a.go", ["Dup"]), ("Z.go", ["Dup"])]),
    ]
    for xs, gs in fixed:
        files, items = [], []
        for n, names in xs + gs:
            body = "".join("func %s() {\n}\n" % c for c in names)
            isgo = n.endswith(".go")
            files.append({"name": n, "src": ("package main\n\n" if isgo else "") + body})
            items.append(("G:" if isgo else "X:") + n.encode().hex() + ":" + ",".join(c.encode().hex() for c in names))
        ocases.append(files)
        omodel.append(" ".join(items))
    for _ in range(n_order):
        files, line = g9gen.order_pkg(ctx.rng)
        ocases.append(files)
        omodel.append(line)
    for i, files in enumerate(ocases):
        olines.append(g9gen.case_line("o%d" % i, files))
    rc1, out1 = ctx.run([impl, "-exports", exports, "-reps", "2", "-shuffle", "-seed", str(ctx.seed)], input="\n".join(olines) + "\n")
    rc2, out2 = ctx.run([model], input="\n".join(omodel) + "\n")
    if rc1 != 0 or rc2 != 0:
        ctx.broken("correspondence(c08:run)", "impl rc=%d model rc=%d %s %s" % (rc1, rc2, out1[-300:], out2[-300:]))
        return
    irows = [l.split("\t") for l in out1.splitlines()]
    proj = [r[4] if len(r) > 4 else "?" for r in irows]
    ctx.log("K-diff ran: %d cases" % len(ocases))
    ctx.diff_lines("new_package~cl.NewPackage(order,redeclarations)", omodel, "\n".join(proj), out2)
    shape = {"redeclaration-errors": 0, "emission-order": 0}
    for p in proj:
        shape["redeclaration-errors" if p.startswith("E ") else "emission-order"] += 1
    failing = []
    for files, r in zip(ocases, irows):
        if len(r) > 1 and r[1] != "1":
            failing.append((files, r))

    # ---------------- C: search over realistic packages
    pk = []     # (id, files, extra)
    for cid, files in g9gen.repo_corpus(vlib.REPO):
        pk.append(("corpus:" + cid, files, {}))
    for cid, files in g9gen.det_pkgs_c08():
        pk.append(("det:" + cid, files, {}))
    wit = witness_pkgs()
    for cid, files, extra in wit:
        pk.append(("witness:" + cid, files, dict(extra, reps=40)))
    ngen = ctx.n(90, 350)
    for i in range(ngen):
        errs = [0, 0, 1, 2, 3][ctx.rng.below(5)]
        gerrs = [0, 0, 2, 4][ctx.rng.below(4)]
        pk.append(("gen:%d:e%d:g%d" % (i, errs, gerrs), g9gen.mixed_pkg(ctx.rng, errors=errs, go_type_errors=gerrs), {}))
    # x/build path on ordinary single-package directories
    for i in range(ctx.n(6, 100)):
        pk.append(("genbuild:%d" % i, g9gen.mixed_pkg(ctx.rng, errors=ctx.rng.below(2)), {"via": "build"}))
    # directories with several packages and no main, through x/build (first sorted package name since the repair)
    for i in range(ctx.n(4, 60)):
        names = ["zeta", "alpha", "Mid", "beta", "a_b", "ab"]
        files = []
        for k in range(2 + ctx.rng.below(3)):
            nm = names.pop(ctx.rng.below(len(names)))
            files.append({"name": "%s%d.xgo" % (nm, k), "src": "package %s\n\nfunc F%d() int {\n\treturn %d\n}\n" % (nm, k, ctx.rng.below(9))})
        pk.append(("genbuild-multi:%d" % i, files, {"via": "build", "reps": 16}))
    lines = [g9gen.case_line(cid, files, **extra) for cid, files, extra in pk]
    inp = "\n".join(lines) + "\n"
    R = ctx.n(8, 24)
    F = ctx.n(8, 24)

    def one(args):
        return ctx.run([impl, "-exports", exports] + args, input=inp, timeout=900)

    jobs = [["-reps", str(R), "-shuffle", "-seed", str(ctx.seed)]]
    for f in range(F):
        jobs.append(["-reps", "1", "-shuffle", "-seed", str(ctx.seed * 1000 + f + 1)])
    with ThreadPoolExecutor(max_workers=6) as ex:
        results = list(ex.map(one, jobs))
    for (rc, out), j in zip(results, jobs):
        if rc != 0 or len(out.splitlines()) != len(pk):
            ctx.broken("search(c08:run)", "harness rc=%d lines=%d/%d args=%s %s" % (rc, len(out.splitlines()), len(pk), j, out[-300:]))
            return
    ctx.log("search ran: %d packages x (%d + %d)" % (len(pk), R, F))
    rows = [[l.split("\t") for l in out.splitlines()] for rc, out in results]
    kinds = {}
    nvariants_hist = {}
    nontrivial = set()
    samples = []
    for i, (cid, files, extra) in enumerate(pk):
        inproc = rows[0][i]
        digests = set([inproc[2]] + [rows[k][i][2] for k in range(1, len(rows))])
        nin = int(inproc[1])
        total = max(nin, len(digests)) if nin > 1 else len(digests)
        kinds[inproc[3]] = kinds.get(inproc[3], 0) + 1
        nvariants_hist[str(total)] = nvariants_hist.get(str(total), 0) + 1
        if len(files) >= 2:
            nontrivial.add(g9gen.pkg_key(files))
        if total > 1:
            name = cid.split(":", 1)[1] if cid.startswith("witness:") else None
            key = name if name in FINDINGS else g9gen.pkg_key(files)
            # show the variants
            rcx, outx = ctx.run([impl, "-exports", exports, "-reps", "48", "-shuffle", "-dump", "-seed", str(ctx.seed)], input=lines[i] + "\n")
            ctx.fail(key, "%s: %d different results over %d in-process + %d fresh-process compilations of the same files"
                     % (cid, total, R if "reps" not in extra else extra["reps"], F),
                     {"package": files, "via": extra.get("via", "cl.NewPackage"), "variants": outx.split("\t")[-1][:3000]})
        if len(samples) < 4 and cid.startswith(("gen:", "corpus:cl/_testspx")):
            samples.append({"id": cid, "files": [f["name"] for f in files], "kind": inproc[3], "digest": inproc[2]})
    for files, r in failing:
        ctx.fail(g9gen.pkg_key(files), "func-only package: %s different results in 2 shuffled compilations" % r[1], {"package": files})

    ctx.cover(evaluations=len(ocases) * 2 + len(pk) * (R + F),
              distinct_nontrivial=len(set(omodel)) + len(nontrivial),
              samples=[{"order_case": omodel[4], "impl": proj[4]}] + samples,
              rule="K-diff: %d func-only packages (4 fixed + %d seeded; 1-4 XGo + 0-2 Go files, names from a 13-name pool so "
                   "that redeclarations occur) model vs impl on (redeclaration errors | emission order); search: %d packages "
                   "(%d /repo corpus dirs, %d deterministic, %d witnesses of known findings, %d seeded mixed packages with 0-3 "
                   "compile errors, %d through x/build.BuildFSDir) x (%d in-process shuffled + %d fresh processes); "
                   "non-trivial = distinct package with >= 2 files. The witnesses of the three repaired order dependences (several "
                   "erroneous Go-file types; two class projects sharing a default class name; several packages and no main through "
                   "x/build) are regression inputs; erroneous Go-file types and multi-package directories are generated again in the seeded part. "
                   "Packages with parse errors are not generated (the parser's first-error choice is outside C08)."
                   % (len(ocases), n_order, len(pk), sum(1 for p in pk if p[0].startswith("corpus:")),
                      sum(1 for p in pk if p[0].startswith("det:")), len(wit), ngen, ctx.n(6, 100), R, F),
              explanation="kernel theorem + K-gen audit of map ranges + K-diff of the ordering model + repetition search",
              kdiff_shape_histogram=shape, result_kind_histogram=kinds, variants_histogram=nvariants_hist,
              map_range_sites=len(sites))
    ctx.assume("Go's sort.Slice/sort.Strings return a sorted permutation (any such result equals the model's, C08_sort_unique)",
               "file paths of one package are distinct (they are keys of the maps pkg.Files / pkg.GoFiles)",
               "types.Identical is symmetric and transitive (hypothesis of C08_typeswitch_seen_perm)")
    ctx.trust("modelled, not verified: cl/compile.go NewPackage (sort, preload order, genMain), initLoader redeclaration check, "
              "ctx.inits ordering; the map-range loop shapes. Reviewed by hand, pinned by hash: the bodies of the 10 map-range "
              "statements. Explored only: gogen, the loaders, class-file handling")
