"""C20 — formatting is idempotent (format/format.go, printer/nodes.go).

A  Props/C20.v over Model/Expr.v: print (parse (print e)) = print e at token level; norm is a fixed point.
B  K-diff of the expression kernel: the real printer applied to the real re-parse of its own output gives the
   same tokens again, and they are the model's.
C  direct oracle on whole files: format.Source(format.Source(src)) = format.Source(src) byte for byte, on the
   repository's XGo and class files, a comment inserted before every token of the small files (deterministic),
   and seeded generated sources with layout perturbations (line breaks at legal places, trailing commas, blank
   lines, comments on their own line / at line ends) - layout is exactly what the model does not cover.
"""
from checks import g6fmt, c22

CLAIM = {
    "level": "other",
    "text": "Coq theorem for the expression kernel: for EVERY token list the parser model accepts (first pass), the second pass accepts the "
            "first pass's output and prints exactly the same tokens (the parenthesised tree is a fixed point of parse-after-print); tied to "
            "printer and parser by K-gen tables and a differential run.  Whitespace, line breaks, alignment and comment placement are not "
            "modelled: byte-level idempotence of format.Source is explored on the corpus, on a comment inserted before every token of the "
            "small files (deterministic) and on seeded sources with layout perturbations.",
    "note": "Kernel theorem + explored remainder (layout).  Trusted: Coq kernel, extraction, translator, harness.",
}


def run(ctx):
    ctx.regen(["tokens", "printerexpr"])
    ctx.prove("C20")
    model = ctx.model("expr")
    impl = ctx.harness("c22")
    T = c22.toks(ctx)
    g = c22.Gen(T)
    c22.fill_prec(g, T)
    cases = [c for c in c22.build_cases(ctx, T, g) if c[0] == "E"]
    if ctx.quick:   # C22 runs the whole enumeration; here: every tree of depth <= 2 and every third deeper one
        cases = [c for i, c in enumerate(cases) if c22.depth(c[1]) <= 2 or i % 3 == 0]
    pin = "".join("P\tE\t%s\n" % s for c, n, s in cases)
    rc1, o1 = ctx.run([impl], input=pin)
    rc2, o2 = ctx.run([model], input=pin)
    il, ml = o1.split("\n")[:-1], o2.split("\n")[:-1]
    if rc1 != 0 or rc2 != 0 or len(il) != len(cases) or len(ml) != len(cases):
        ctx.broken("correspondence(c20:run)", "impl rc=%d lines=%d model rc=%d lines=%d cases=%d" % (rc1, len(il), rc2, len(ml), len(cases)))
        return
    # second pass: print the re-parsed tree again
    second, first_toks, src = [], [], []
    for (c, n, s), a, b in zip(cases, il, ml):
        fa, fb = a.split("\t"), b.split("\t")
        if len(fa) < 4 or fa[1] == "parse-error" or fb[0] == "-" or "(?" in fa[2]:
            continue
        second.append(fa[2]); first_toks.append(fa[0]); src.append(s)
    pin = "".join("P\tE\t%s\n" % s for s in second)
    rc1, o1 = ctx.run([impl], input=pin)
    rc2, o2 = ctx.run([model], input=pin)
    il2, ml2 = o1.split("\n")[:-1], o2.split("\n")[:-1]
    if rc1 != 0 or rc2 != 0 or len(il2) != len(second) or len(ml2) != len(second):
        ctx.broken("correspondence(c20:run2)", "impl rc=%d lines=%d model rc=%d lines=%d cases=%d" % (rc1, len(il2), rc2, len(ml2), len(second)))
        return
    t2, m2 = [], []
    for s, t1, s2, a, b in zip(src, first_toks, second, il2, ml2):
        fa, fb = a.split("\t"), b.split("\t")
        t2.append(fa[0]); m2.append(fb[0])
        if fa[0] != t1:
            ctx.fail("tree:" + s.replace(" ", "_"), "second pass differs: Fprint(%s) = %s, Fprint(its re-parse %s) = %s" % (s, t1, s2, fa[0]),
                     {"tree": s, "first": t1, "reparsed": s2, "second": fa[0]})
    ctx.diff_lines("pr~printer.Fprint+scanner (second pass)", second, "\n".join(t2), "\n".join(m2))
    ctx.cover(evaluations=len(cases) + len(second), distinct_nontrivial=len(set(second)),
              rule="expression kernel: %d enumerated model trees printed, re-parsed and printed again (%d re-parse; tokens compared with the first pass and with the model)" % (len(cases), len(second)),
              second_pass_trees=len(second))
    g6fmt.run_property(ctx, "idem", "same", "C20 (idempotence)")
    ctx.trust("modelled, not verified: printer/nodes.go expr1/binaryExpr and parser/parser.go parseBinaryExpr..parseOperand (Model/Expr.v)",
              "explored, not modelled: layout (linebreak, exprList, funcBody, alignment), comment placement (format.Source on whole files)")
    ctx.assume("a variant of a corpus file that does not parse makes no claim")
