"""C41 — closing a fake connection unblocks pending I/O (x/fakenet/conn.go).

A  K-gen: translator `feederselects` re-reads fakeConn.Close, connFeeder.close, the four select statements of
   do/run with their case lists, the channel capacities, which feeder Read/Write use -> Gen/FeederSelects.v;
   Props/C41.v proves over the transition system that EXECUTES the generated close lists (commit-by-the-waker
   select semantics), for all reachable states: data_in_order_unmodified, result_to_its_caller,
   stream_closed_after_feeder / no_close_error_returned, close_returns_closed, closed_nobody_parked,
   after_close_eof, pending_returns (+ only_self_moves), worker_exits_after_close, close_mutex / closer_progress,
   and the tie obligations C41_tie_close / C41_tie_selects.
B  K-diff: the real fakenet.NewConn over instrumented streams (reads that block until fed or closed, gated
   writes, slow stream Close), race detector on: every script over {r w W f o c C} up to length L, seeded longer
   scripts, seeded concurrent readers/writers/closers.  The recorded history (calls, returns, source calls and
   returns, stream closes) is replayed by the EXTRACTED transition function: the runner looks for the hidden
   steps (polls, parks, rendezvous, statements of Close), gstep judges each; the model's own reading of the
   events must equal the recorded history.
C  direct oracle on the implementation: Read/Write after Close returned not EOF or touching the source, a
   pending call not released by Close, a call returning its stream's close error, a result that is not the
   source's result for the caller's own buffer, a buffer sourced twice / modified, worker leak, panic, data race.
"""
import itertools
import os

CLAIM = {
    "level": "proof",
    "text": "Coq theorems (all reachable states, unbounded goroutines/interleavings, environment may block a source call "
            "for ever) over a transition system of fakeConn with Go's select modelled as the runtime does it (poll, park, "
            "commit by the waker) and fakeConn.Close / connFeeder.close executed from the statement lists regenerated from "
            "x/fakenet/conn.go: data reaches the source in order/unmodified/once, results go to their own caller, after "
            "Close every new Read/Write is committed to EOF without touching the source, pending ones can return "
            "independently of the source, no call returns the error its stream produces because Close closed it, the "
            "workers exit. Tied by the regenerated tables and by replaying recorded sequential and concurrent histories of "
            "the real connection through the extracted step function.",
    "note": "Assumed as modelled: Go's select/close semantics on unbuffered channels (poll-and-park atomic, parked "
            "goroutine committed by the waker), sync.Mutex. 'Promptly' (real time) is outside the model: stated as "
            "enabledness + rank. The select tables of do/run are compared with the modelled ones (equality obligation), "
            "their semantics is the hand-written step function. Trusted: translator, the hidden-step search of the runner "
            "(every step is judged by the extracted gstep), Go race detector.",
}

ALPHA = "rwWfocC"


def run(ctx):
    ctx.regen(["feederselects"])
    ctx.prove("C41")
    model = ctx.model("c41")
    impl = ctx.harness("c41", race=True)
    env = dict(os.environ)
    env["GORACE"] = "halt_on_error=0 exitcode=66 log_path=%s" % os.path.join(ctx.scratch, "race")

    L = ctx.n(3, 5)
    scripts = ["".join(t) for n in range(1, L + 1) for t in itertools.product(ALPHA, repeat=n)]
    nex = len(scripts)
    for _ in range(ctx.n(400, 6000)):
        n = L + 1 + ctx.rng.below(4)
        scripts.append("".join(ALPHA[ctx.rng.below(len(ALPHA))] for _ in range(n)))
    rc1, out1 = ctx.run([impl, "-mode", "script", "-workers", "8"], input="\n".join(scripts) + "\n",
                        timeout=400, env=env, mem_kb=64000000)
    nconc = ctx.n(150, 4000)
    rc2, out2 = ctx.run([impl, "-mode", "conc", "-seed", str(ctx.seed), "-runs", str(nconc), "-workers", "8"],
                        timeout=900, env=env, mem_kb=64000000)
    races = [f for f in os.listdir(ctx.scratch) if f.startswith("race")]
    if races:
        text = open(os.path.join(ctx.scratch, races[0])).read()
        ctx.fail("race:fakenet", "data race reported by the Go race detector", {"race_log": text[:4000]})
    if rc1 not in (0, 66) or rc2 not in (0, 66):
        ctx.broken("correspondence(c41:run)", "harness rc=%d/%d %s %s" % (rc1, rc2, out1[-300:], out2[-300:]))
    rows, skipped = [], 0
    for line in (out1 + out2).splitlines():
        f = line.split("\t")
        if len(f) != 5:
            if rc1 in (0, 66) and rc2 in (0, 66):
                ctx.broken("correspondence(c41:format)", "bad harness line: %r" % line[:200])
            continue
        if f[3] == "skipped-after-failures":
            skipped += 1
            continue
        rows.append(f)
    if skipped:
        ctx.log("harness skipped %d cases after repeated failures" % skipped)
    for f in rows:
        if f[3] != "ok":
            ctx.fail(f[0], "fakenet conn: %s  history: %s" % (f[3], f[2][:600]),
                     {"case": f[0], "history": f[2], "verdict": f[3], "shape": f[4],
                      "replay": "echo <script> | h_c41 -mode script   /   h_c41 -mode conc -seed S -from K -runs 1 (schedule dependent)"})
    # the extracted step function judges every recorded history (also the failing ones: the model must reject them)
    inp = "".join("%s %s\n" % (f[1], f[2]) for f in rows)
    rc3, out3 = ctx.run([model], input=inp, timeout=600)
    mlines = out3.splitlines()
    if rc3 != 0 or len(mlines) != len(rows):
        ctx.broken("correspondence(c41:model)", "model rc=%d lines=%d cases=%d %s" % (rc3, len(mlines), len(rows), out3[-300:]))
        return
    good = [(f, m) for f, m in zip(rows, mlines) if f[3] == "ok"]
    ctx.diff_lines("gstep~fakenet.conn", [f[0] for f, _ in good],
                   "\n".join("OK " + f[2] for f, _ in good), "\n".join(m.split(" | ")[0] for _, m in good))
    shapes = {}
    for f in rows:
        w = f[4].split() or ["?"]
        k = " ".join(w[:2]) if w[0] == "script" else " ".join(w[:4])
        k += " " + w[-1]
        shapes[k] = shapes.get(k, 0) + 1
    nontriv = set(f[2] for f, m in good if " S" in f[2] and "K" in f[2])
    nvalid = sum(1 for _, m in good if m.startswith("OK"))
    hidden = sum(int(m.rsplit("steps=", 1)[1]) for _, m in good if "steps=" in m)
    pick = sorted(set([min(nex // 2, len(good) - 1), len(good) - 1, max(len(good) - 2, 0)])) if good else []
    ctx.cover(evaluations=len(rows), distinct_nontrivial=len(nontriv),
              samples=[{"case": good[k][0][0], "history": good[k][0][2], "model": good[k][1][-160:]} for k in pick],
              rule="scripts over {r: Read, w: Write blocked in the source, W: Write going through, f: feed a chunk, o: release a "
                   "blocked write, c: Close, C: Close over slow-closing streams}: exhaustive up to length %d (%d) + %d seeded longer ones; "
                   "%d seeded concurrent workloads (0-2 readers, 0-2 writers, 1-2 closers, 1-3 calls each, random feeds/releases/"
                   "delays, slow stream closes); every case ends with Close, a Read and a Write after it, all callers and both "
                   "workers must finish. non-trivial = distinct history with a source call and a Close"
                   % (L, nex, len(scripts) - nex, nconc),
              exhaustive_part=nex, traces_validated_against_impl=nvalid, model_transitions_replayed=hidden,
              input_shape_histogram=dict(sorted(shapes.items())))
    ctx.assume("Go's select/close on unbuffered channels behaves as modelled (poll-and-park atomic w.r.t. the channels of the "
               "select; a parked goroutine is committed by its waker; close(done) commits everybody parked on done)",
               "the instrumented streams are the environment: a blocked source call returns only when fed/released/closed")
    ctx.trust("modelled, not verified: x/fakenet/conn.go connFeeder.do/run (hand-written transitions for the four selects, "
              "compared table-wise with the regenerated case lists), fakeConn.Close/connFeeder.close (executed from the "
              "regenerated statement lists)",
              "hidden-step search in ocaml/c41_driver.ml (each step is checked by the extracted gstep)", "Go race detector")
