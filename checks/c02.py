"""C02 — XGo collection sugar evaluates like its documented Go expansion.

A  Props/C02.v (comprehension_*_correct by induction on the phrase list, forphrase, send/append,
   last phrase outermost, map/filter corollary)
B  three-way behaviour comparison, ONE program: every generated instance once with the XGo sugar
   and once as explicit Go loops / append calls written independently by the generator (the
   "documented expansion"), compiled by the real compiler, built, run; value + probe trace of
   the sugar version  vs  the extracted model (lower_* -> MiniGo eval, cross-checked in the driver
   against the definitional meaning spec_comprehension)
C  on the implementation: sugar value/trace = explicit-expansion value/trace; an instance the
   property gives a meaning to must compile and build
"""
import json
import os
import shutil

import vlib

CLAIM = {
    "level": "proof",
    "text": "Coq theorems over models of cl.compileComprehensionExpr / compileForPhraseStmt / compileSendStmt lowered into MiniGo: "
            "for every list of for-phrases (induction on the list), every container content, filter and element expression of the "
            "pure operand fragment with opaque probe calls, the compiled closure yields exactly the documented meaning — nested loops "
            "with the last for-phrase outermost, container evaluated once per outer iteration, filter after binding, results in "
            "iteration order (list/map), first match (select, one- and two-value forms, exists) — including the effect trace and an "
            "unchanged environment; `a <- v...` appends in order. Tied to the code by one compiled program comparing, per generated "
            "instance, the sugar with an independently generated explicit Go expansion and with the extracted model.",
    "note": "Operands are restricted to the pure fragment (constants, variables, probe calls, arithmetic/comparisons); containers are "
            "slices, slices of slices, ASCII strings, one-entry maps (iteration order unobservable) and ranges with positive step (the "
            "negative-step discrepancy is C04's finding). Go's range/append semantics are MiniGo evaluator rules (assumed). gogen "
            "(outside /repo) is modelled as observed. Blank loop variables (`for _ <- xs` -> `for range xs`) are part of the generated instances.",
}

NAMES = {"x": 1, "y": 2, "z": 3, "i": 11, "j": 12, "k": 13, "row": 20}


# ---- expressions: ("i", n) | ("v", name) | ("p", id, e) | ("pb", id, e) | ("bin", op, a, b)
#      | ("comp", c)   a nested comprehension as a whole operand (container: list, filter: exists, element: select);
#                      c = {"kind", "phrases", "elt", "elt2", "flavor": "compr" | "funclit"}
_DOC = [False]     # True while the explicit Go expansion is being rendered


def x_go(e, casts):
    t = e[0]
    if t == "comp":
        return comp_doc(e[1], casts) if _DOC[0] else comp_sugar(e[1], casts)
    if t == "i":
        return str(e[1]) if e[1] >= 0 else "(%d)" % e[1]
    if t == "v":
        return "int(%s)" % e[1] if e[1] in casts else e[1]
    if t == "p":
        return "p(%d, %s)" % (e[1], x_go(e[2], casts))
    if t == "pb":
        return "pb(%d, %s)" % (e[1], x_go(e[2], casts))
    op = {"=": "==", "!": "!="}.get(e[1], e[1])
    return "(%s %s %s)" % (x_go(e[2], casts), op, x_go(e[3], casts))


def x_m(e):
    t = e[0]
    if t == "comp":
        return comp_model(e[1])
    if t == "i":
        return "i%d" % e[1]
    if t == "v":
        return "v%d" % NAMES[e[1]]
    if t in ("p", "pb"):
        return "P %d %s" % (e[1], x_m(e[2]))
    return "%s %s %s" % (e[1], x_m(e[2]), x_m(e[3]))


# ---- containers
GLOB = {"xs": [1, 3, 5, 7, 11], "ys": [10, 20], "zs": []}


def c_go(c):
    t = c[0]
    if t == "comp":
        return comp_doc(c[1], ()) if _DOC[0] else comp_sugar(c[1], ())
    if t in GLOB:
        return t
    if t == "rows":
        return "rows"
    if t == "lit":
        return "[]int{%s}" % ", ".join(map(str, c[1]))
    if t == "range":
        return "%d:%d:%d" % (c[1], c[2], c[3])
    if t == "map1":
        return "map[int]int{%d: %d}" % (c[1], c[2])
    if t == "str":
        return '"%s"' % c[1]
    if t == "var":
        return c[1]
    if t == "pl":
        return "pl(%d, %s)" % (c[1], c_go(c[2]))
    raise ValueError(c)


def c_sugar(c):
    if c[0] == "comp":
        return comp_sugar(c[1], ())
    if c[0] == "lit":
        return "[%s]" % ", ".join(map(str, c[1]))
    if c[0] == "map1":
        return "{%d: %d}" % (c[1], c[2])
    if c[0] == "pl":
        return "pl(%d, %s)" % (c[1], c_sugar(c[2]))
    return c_go(c)


def c_m(c):
    t = c[0]
    if t == "comp":
        return comp_model(c[1])
    if t in GLOB:
        return "l" + ",".join(map(str, GLOB[t]))
    if t == "rows":
        return "n1,2;;3"
    if t == "lit":
        return "l" + ",".join(map(str, c[1]))
    if t == "range":
        return "r%d,%d,%d" % (c[1], c[2], c[3])
    if t == "map1":
        return "m%d:%d" % (c[1], c[2])
    if t == "str":
        return "s" + c[1].encode().hex()
    if t == "var":
        return "v%d" % NAMES[c[1]]
    if t == "pl":
        return "P %d %s" % (c[1], c_m(c[2]))
    raise ValueError(c)


def base_kind(c):
    return base_kind(c[2]) if c[0] == "pl" else c[0]


# ---- a phrase: {"key": name|None, "val": name|None('_'), "x": container, "cond": expr|None}
def ph_sugar(p, casts):
    vars_ = (p["key"] + ", " if p["key"] else "") + (p["val"] or "_")
    s = "for %s <- %s" % (vars_, c_sugar(p["x"]))
    if p["cond"] is not None:
        s += " if " + x_go(p["cond"], casts)
    return s


def ph_m(p):
    return "%s %s %s %s" % (NAMES[p["key"]] if p["key"] else "-", NAMES[p["val"]] if p["val"] else "_", c_m(p["x"]),
                            "N" if p["cond"] is None else "C " + x_m(p["cond"]))


def loop_open(p, casts, ind):
    """Explicit Go loop header(s) for one phrase (the documented expansion)."""
    k, v = p["key"], p["val"]
    c = p["x"]
    t = "\t" * ind
    if base_kind(c) == "range":
        cc = c if c[0] == "range" else c[2]
        hdr = "%sfor %s := %d; %s < %d; %s += %d {\n" % (t, v or "_r", cc[1], v or "_r", cc[2], v or "_r", cc[3])
    else:
        if k and v:
            lhs = "%s, %s := " % (k, v)
        elif k:
            lhs = "%s := " % k
        elif v:
            lhs = "_, %s := " % v
        else:
            lhs = ""
        hdr = "%sfor %srange %s {\n" % (t, lhs, c_go(c))
    n = 1
    if p["cond"] is not None:
        hdr += "%s\tif %s {\n" % (t, x_go(p["cond"], casts))
        n = 2
    return hdr, n


def casts_of(phrases):
    return set(p["val"] for p in phrases if base_kind(p["x"]) == "str" and p["val"])


IIFE_SIG = {"list": "[]int", "map": "map[int]int", "sel1": "int", "sel2": "(int, bool)", "exists": "bool"}


def comp_sugar(c, casts):
    kind, phrases, elt, elt2 = c["kind"], c["phrases"], c.get("elt"), c.get("elt2")
    if c.get("flavor") == "funclit":
        # a func literal with a for-in loop building the same slice (one phrase)
        p = phrases[0]
        return "func() []int {\n\t\tvar r []int\n\t\t%s {\n\t\t\tr = append(r, %s)\n\t\t}\n\t\treturn r\n\t}()" % (ph_sugar(p, casts), x_go(elt, casts))
    fors = " ".join(ph_sugar(p, casts) for p in phrases)
    if kind == "list":
        return "[%s %s]" % (x_go(elt, casts), fors)
    if kind == "map":
        return "{%s: %s %s}" % (x_go(elt, casts), x_go(elt2, casts), fors)
    # nested brace forms are parenthesised: like a composite literal, `{...}` cannot start an operand of a filter
    par = ("(%s)" if c.get("nested") else "%s")
    if kind in ("sel1", "sel2"):
        return par % ("{%s %s}" % (x_go(elt, casts), fors))
    return par % ("{%s}" % fors)


def comp_doc(c, casts):
    """The explicit Go expansion of a comprehension, as an immediately-invoked func literal."""
    kind, phrases, elt, elt2 = c["kind"], c["phrases"], c.get("elt"), c.get("elt2")
    old, _DOC[0] = _DOC[0], True
    try:
        doc = "func() %s {\n" % IIFE_SIG[kind]
        doc += {"list": "var res []int\n", "map": "res := map[int]int{}\n"}.get(kind, "")
        closes = 0
        for p in reversed(phrases):
            h, n = loop_open(p, casts, 0)
            doc += h
            closes += n
        if kind == "list":
            doc += "res = append(res, %s)\n" % x_go(elt, casts)
        elif kind == "map":
            doc += "res[%s] = %s\n" % (x_go(elt, casts), x_go(elt2, casts))
        elif kind == "sel1":
            doc += "return %s\n" % x_go(elt, casts)
        elif kind == "sel2":
            doc += "return %s, true\n" % x_go(elt, casts)
        else:
            doc += "return true\n"
        doc += "}\n" * closes
        doc += {"list": "return res\n", "map": "return res\n", "sel1": "return 0\n", "sel2": "return 0, false\n", "exists": "return false\n"}[kind]
        return doc + "}()"
    finally:
        _DOC[0] = old


def comp_model(c):
    kind, phrases, elt, elt2 = c["kind"], c["phrases"], c.get("elt"), c.get("elt2")
    m = "C %s %d %s" % (kind, len(phrases), " ".join(ph_m(p) for p in phrases))
    if elt is not None:
        m += " " + x_m(elt)
    if elt2 is not None:
        m += " " + x_m(elt2)
    return m


def has_nest(c):
    def in_e(e):
        return e is not None and (e[0] == "comp" or (e[0] in ("p", "pb") and in_e(e[2])) or (e[0] == "bin" and (in_e(e[2]) or in_e(e[3]))))
    def in_c(x):
        return x[0] == "comp" or (x[0] == "pl" and in_c(x[2]))
    return any(in_c(p["x"]) or in_e(p["cond"]) for p in c["phrases"]) or in_e(c.get("elt")) or in_e(c.get("elt2"))


def mk_case(kind, phrases, elt=None, elt2=None):
    """-> dict(sugar=..., doc=..., model=..., shape=...) ; phrases in SOURCE order (last = outermost)."""
    casts = casts_of(phrases)
    c = {"kind": kind, "phrases": phrases, "elt": elt, "elt2": elt2}
    ret = {"list": "showL(res)", "map": "showM(res)", "sel1": "fmt.Sprint(res)", "sel2": "fmt.Sprint(res, ok)", "exists": "fmt.Sprint(res)"}
    lhs = "res, ok" if kind == "sel2" else "res"
    sugar = "\t%s := %s\n\treturn %s\n" % (lhs, comp_sugar(c, casts), ret[kind])
    doc = "\t%s := %s\n\treturn %s\n" % (lhs, comp_doc(c, casts), ret[kind])   # explicit expansion: outermost loop = last phrase
    model = comp_model(c)[2:]
    shape = "%s/%dph/%s%s%s" % (kind, len(phrases), "+".join(base_kind(p["x"]) for p in phrases), "/filter" if any(p["cond"] is not None for p in phrases) else "",
                                "/nested" if has_nest(c) else "")
    return {"sugar": sugar, "doc": doc, "model": model.strip(), "shape": shape}


def mk_for(p, body):
    casts = casts_of([p])
    sugar = "\t%s {\n\t\tp(100, %s)\n\t}\n\treturn \"-\"\n" % (ph_sugar(p, casts), x_go(body, casts))
    _DOC[0] = True
    try:
        h, n = loop_open(p, casts, 1)
        doc = h + "\t" * (1 + n) + "p(100, %s)\n" % x_go(body, casts) + "".join("\t" * l + "}\n" for l in range(n, 0, -1)) + "\treturn \"-\"\n"
    finally:
        _DOC[0] = False
    nested = has_nest({"phrases": [p], "elt": body})
    return {"sugar": sugar, "doc": doc, "model": "for %s %s" % (ph_m(p), x_m(body)),
            "shape": "for/%s%s%s" % (base_kind(p["x"]), "/filter" if p["cond"] is not None else "", "/nested" if nested else "")}


def mk_for_lambda(p, body, how):
    """The for-phrase statement inside a block lambda passed to an OVERLOADED function (the lambda body may be compiled
    once per candidate overload; the loop must still be lowered once).  how: "second" = resolved by the second overload,
    "first" = by the first one; "comma" = `for v <- x, cond` spelling of the filter."""
    c = mk_for(p, body)
    loop_s = "\n".join("\t" + l for l in c["sugar"].splitlines()[:-1])
    loop_d = "\n".join("\t" + l for l in c["doc"].splitlines()[:-1])
    if how == "comma":
        loop_s = loop_s.replace(" if ", ", ", 1)
    arg = '"tag"' if how == "first" else "1"
    direct = ("visitTagged(func(x int) {\n%s\n\t}, \"tag\")" if how == "first" else "visitTimes(func(x float64) {\n%s\n\t}, 1)")
    sugar = "\tvisit(x => {\n%s\n\t}, %s)\n\treturn \"-\"\n" % (loop_s, arg)
    doc = "\t" + direct % loop_d + "\n\treturn \"-\"\n"
    return {"sugar": sugar, "doc": doc, "model": c["model"], "shape": c["shape"] + "/in-overloaded-lambda"}


def lambda_cases():
    P = lambda key, val, x, cond=None: {"key": key, "val": val, "x": x, "cond": cond}
    odd = lambda v: ("pb", 1, ("bin", "=", ("bin", "%", V(v), ("i", 2)), ("i", 1)))
    out = []
    for how in ("second", "first", "comma"):
        out += [mk_for_lambda(P(None, "i", ("range", 0, 6, 1), odd("i")), V("i"), how),
                mk_for_lambda(P(None, "i", ("range", 1, 9, 3), ("pb", 2, ("bin", ">", ("p", 3, V("i")), ("i", 1)))), ("bin", "*", V("i"), ("i", 2)), how),
                mk_for_lambda(P(None, "x", ("xs",), odd("x")), V("x"), how),
                mk_for_lambda(P("i", "x", ("pl", 4, ("ys",)), ("pb", 1, ("bin", ">", V("x"), V("i")))), ("bin", "+", V("i"), V("x")), how),
                mk_for_lambda(P(None, "i", ("range", 0, 4, 1)), ("p", 5, V("i")), how)]
    return out


def mk_send(es):
    sugar = "\ta := []int{1, 2}\n\ta <- %s\n\treturn showL(a)\n" % ", ".join(x_go(e, ()) for e in es)
    doc = "\ta := []int{1, 2}\n\ta = append(a, %s)\n\treturn showL(a)\n" % ", ".join(x_go(e, ()) for e in es)
    return {"sugar": sugar, "doc": doc, "model": "send %d %s" % (len(es), " ".join(x_m(e) for e in es)), "shape": "send/%d" % len(es)}


def mk_sendall(c):
    sugar = "\ta := []int{1, 2}\n\ta <- %s...\n\treturn showL(a)\n" % c_sugar(c)
    doc = "\ta := []int{1, 2}\n\ta = append(a, %s...)\n\treturn showL(a)\n" % c_go(c)
    return {"sugar": sugar, "doc": doc, "model": "sendall %s" % c_m(c), "shape": "sendall"}


def V(n):
    return ("v", n)


def fixed_cases():
    cs = []
    P = lambda key, val, x, cond=None: {"key": key, "val": val, "x": x, "cond": cond}
    gt = lambda a, b: ("bin", ">", a, b)
    cs.append(mk_case("list", [P(None, "x", ("xs",), gt(V("x"), ("i", 3)))], ("bin", "*", V("x"), V("x"))))
    cs.append(mk_case("list", [P(None, "x", ("xs",))], ("p", 1, V("x"))))
    cs.append(mk_case("list", [P("i", "x", ("xs",), ("bin", "=", ("bin", "%", V("i"), ("i", 2)), ("i", 1)))], ("bin", "+", V("i"), V("x"))))
    # the documentation's two-phrase example shape: the first phrase's filter uses the variable of the last (outer) one
    cs.append(mk_case("list", [P(None, "x", ("xs",), ("bin", "<", V("x"), V("y"))), P(None, "y", ("pl", 7, ("ys",)), gt(V("y"), ("i", 2)))],
                      ("bin", "+", ("p", 1, V("x")), ("p", 2, V("y")))))
    cs.append(mk_case("list", [P(None, "x", ("pl", 5, ("lit", [1, 2])), ("pb", 6, gt(V("x"), ("i", 0)))), P(None, "y", ("pl", 7, ("ys",)))], ("p", 1, ("bin", "+", V("x"), V("y")))))
    cs.append(mk_case("list", [P(None, "x", ("var", "row")), P(None, "row", ("rows",))], V("x")))
    cs.append(mk_case("list", [P(None, "x", ("zs",))], V("x")))
    cs.append(mk_case("list", [P(None, "x", ("range", 0, 10, 3), gt(V("x"), ("i", 0)))], V("x")))
    cs.append(mk_case("list", [P("i", "x", ("str", "ab"))], ("bin", "+", V("i"), V("x"))))
    cs.append(mk_case("list", [P("k", "x", ("map1", 7, 70))], ("bin", "+", V("k"), V("x"))))
    cs.append(mk_case("map", [P("i", "x", ("xs",), gt(V("x"), ("i", 3)))], V("x"), V("i")))
    cs.append(mk_case("map", [P("i", "x", ("lit", [4, 4, 5]))], ("p", 1, V("x")), ("p", 2, V("i"))))
    cs.append(mk_case("sel1", [P(None, "x", ("xs",), ("pb", 3, gt(V("x"), ("i", 3))))], ("p", 1, V("x"))))
    cs.append(mk_case("sel1", [P(None, "x", ("xs",), gt(V("x"), ("i", 99)))], V("x")))
    cs.append(mk_case("sel2", [P(None, "x", ("xs",), gt(V("x"), ("i", 3)))], V("x")))
    cs.append(mk_case("sel2", [P(None, "x", ("xs",), gt(V("x"), ("i", 99)))], V("x")))
    cs.append(mk_case("sel2", [P(None, "x", ("xs",), gt(V("x"), V("y"))), P(None, "y", ("pl", 7, ("lit", [100, 6])))], ("bin", "+", V("x"), V("y"))))
    cs.append(mk_case("exists", [P(None, "x", ("xs",), ("pb", 3, gt(V("x"), ("i", 3))))]))
    cs.append(mk_case("exists", [P(None, "x", ("zs",), gt(V("x"), ("i", 0)))]))
    cs.append(mk_for(P(None, "x", ("xs",), gt(V("x"), ("i", 1))), V("x")))
    cs.append(mk_for(P("i", "x", ("pl", 5, ("xs",))), ("bin", "*", V("i"), V("x"))))
    cs.append(mk_for(P("k", "x", ("map1", 7, 70)), ("bin", "+", V("k"), V("x"))))
    cs.append(mk_for(P(None, "x", ("range", 0, 10, 3), gt(V("x"), ("i", 0))), V("x")))
    cs.append(mk_for(P("i", "x", ("str", "ab")), ("bin", "+", V("i"), V("x"))))
    cs.append(mk_send([("p", 1, ("i", 5)), ("p", 2, ("i", 6))]))
    cs.append(mk_send([("i", 9)]))
    cs.append(mk_sendall(("xs",)))
    cs.append(mk_sendall(("pl", 4, ("lit", [7, 8]))))
    return cs


def blank_cases():
    """Blank loop variables (`for _ <- xs` is emitted as `for range xs` since the repair in /repo)."""
    P = lambda key, val, x, cond=None: {"key": key, "val": val, "x": x, "cond": cond}
    return [
        mk_case("list", [P(None, None, ("xs",))], ("p", 1, ("i", 1))),
        mk_case("exists", [P(None, None, ("xs",))]),
        mk_case("exists", [P(None, None, ("zs",))]),
        mk_for(P(None, None, ("pl", 2, ("xs",))), ("i", 1)),
        mk_case("list", [P(None, "x", ("xs",)), P(None, None, ("ys",))], V("x")),
        mk_case("sel2", [P(None, None, ("map1", 7, 70))], ("i", 9)),
        mk_case("list", [P("i", None, ("str", "ab"))], V("i")),
    ]


def nested_cases():
    """A for-phrase inside an operand of another for-phrase: container / filter / element, comprehension or func literal
    with a for-in loop, same and different variable names, key/value forms, two levels."""
    P = lambda key, val, x, cond=None: {"key": key, "val": val, "x": x, "cond": cond}
    C = lambda kind, phrases, elt=None, elt2=None, flavor="compr": ("comp", {"kind": kind, "phrases": phrases, "elt": elt, "elt2": elt2, "flavor": flavor, "nested": True})
    gt = lambda a, b: ("bin", ">", a, b)
    mul = lambda a, b: ("bin", "*", a, b)
    add = lambda a, b: ("bin", "+", a, b)
    y10 = C("list", [P(None, "y", ("ys",))], mul(V("y"), ("i", 10)))
    return [
        mk_for(P(None, "x", y10), V("x")),                                                       # for x <- [y*10 for y <- ys] {...}
        mk_case("list", [P(None, "x", y10)], add(V("x"), ("i", 1))),                              # [x+1 for x <- [y*10 for y <- ys]]
        mk_case("list", [P(None, "x", C("list", [P("x", None, ("ys",))], mul(V("x"), ("i", 10))))], V("x")),   # same name, key form: indices*10
        mk_case("list", [P(None, "x", C("list", [P(None, "x", ("xs",))], add(V("x"), ("i", 1))))], V("x")),     # same name, value form
        mk_case("list", [P("i", "x", C("list", [P("i", "x", ("xs",))], mul(V("i"), V("x"))))], add(V("i"), V("x"))),
        mk_for(P("i", "x", C("list", [P(None, "y", ("pl", 5, ("ys",)), ("pb", 6, gt(V("y"), ("i", 10))))], ("p", 7, V("y")))), add(V("i"), V("x"))),
        mk_for(P(None, "x", C("list", [P(None, "y", ("ys",))], mul(V("y"), ("i", 10)), flavor="funclit")), V("x")),   # func literal with a for-in inside the container
        mk_case("list", [P(None, "x", C("list", [P(None, "x", ("xs",), gt(V("x"), ("i", 3)))], V("x"), flavor="funclit"))], mul(V("x"), ("i", 2))),
        mk_case("sel2", [P(None, "x", C("list", [P(None, "y", ("xs",))], add(V("y"), ("i", 1))), gt(V("x"), ("i", 5)))], V("x")),
        mk_case("exists", [P(None, "x", C("list", [P(None, "y", ("zs",))], V("y")), gt(V("x"), ("i", 0)))]),
        mk_case("map", [P("i", "x", C("list", [P(None, "y", ("ys",))], add(V("y"), ("i", 1))))], V("x"), V("i")),
        # inside the filter: [x for x <- xs if {for y <- [3, 4, 5] if y == x}]
        mk_case("list", [P(None, "x", ("xs",), C("exists", [P(None, "y", ("lit", [3, 4, 5]), ("bin", "=", V("y"), V("x")))]))], V("x")),
        mk_case("list", [P(None, "x", ("xs",), C("exists", [P(None, "x", ("lit", [3, 4, 5]), gt(V("x"), ("i", 4)))]))], ("p", 1, V("x"))),
        # inside the element: [{y+x for y <- ys if y > 10} for x <- xs]
        mk_case("list", [P(None, "x", ("lit", [1, 3]))], C("sel1", [P(None, "y", ("ys",), gt(V("y"), ("i", 10)))], add(V("y"), V("x")))),
        mk_case("map", [P("i", None, ("lit", [4, 5]))], V("i"), C("sel1", [P(None, "x", ("pl", 2, ("ys",)))], add(V("x"), V("i")))),
        # two levels, and the same name at every level
        mk_case("list", [P(None, "x", C("list", [P(None, "y", C("list", [P(None, "z", ("xs",))], mul(V("z"), ("i", 2))), gt(V("y"), ("i", 2)))], V("y")))], V("x")),
        mk_case("list", [P(None, "x", C("list", [P(None, "x", C("list", [P(None, "x", ("xs",))], mul(V("x"), ("i", 2))))], add(V("x"), ("i", 1))))], V("x")),
        # nested container in a multi-phrase comprehension; the inner phrase reuses the name of the outer phrase
        mk_case("list", [P(None, "x", C("list", [P(None, "y", ("ys",))], mul(V("y"), ("i", 2)))), P(None, "y", ("lit", [1, 2]))], add(V("x"), V("y"))),
        mk_case("list", [P(None, "x", C("list", [P(None, "z", ("lit", [1, 2]))], add(V("z"), V("y")))), P(None, "y", ("ys",))], V("x")),
    ]


def finding_cases():
    return []


def used_vars(e, acc):
    """Free variables of an expression (a nested comprehension contributes its free variables)."""
    if e is None:
        return acc
    if e[0] == "v":
        acc.add(e[1])
    elif e[0] in ("p", "pb"):
        used_vars(e[2], acc)
    elif e[0] == "bin":
        used_vars(e[2], acc)
        used_vars(e[3], acc)
    elif e[0] == "comp":
        acc |= comp_free(e[1])
    return acc


def cont_vars(c, acc):
    if c[0] == "var":
        acc.add(c[1])
    elif c[0] == "pl":
        cont_vars(c[2], acc)
    elif c[0] == "comp":
        acc |= comp_free(c[1])
    return acc


def comp_free(c):
    free, bound = set(), set()
    for p in reversed(c["phrases"]):              # outermost first
        free |= cont_vars(p["x"], set()) - bound
        bound |= set(n for n in (p["key"], p["val"]) if n)
        free |= used_vars(p["cond"], set()) - bound
    free |= (used_vars(c.get("elt"), set()) | used_vars(c.get("elt2"), set())) - bound
    return free


def gen_case(rng):
    """A random well-typed instance in which every loop variable is used (Go rejects unused variables; that the
    compiler accepts them is C06's finding, not a subject of C02)."""
    while True:
        c = gen_case1(rng)
        if c is not None:
            return c


def gen_case1(rng):
    pid = [0]

    def probe(e, bool_=False):
        if rng.below(3) == 0:
            pid[0] += 1
            return ("pb" if bool_ else "p", pid[0], e)
        return e

    def ival(vars_, depth=0):
        r = rng.below(5 if depth < 2 else 2)
        if r == 0 or not vars_:
            return ("i", rng.below(9) - 2)
        if r == 1:
            return V(rng.choice(vars_))
        op = rng.choice(["+", "*", "-"])
        return ("bin", op, probe(ival(vars_, depth + 1)), ival(vars_, depth + 1))

    def cond(vars_):
        if nesting and rng.below(5) == 0:
            return ("comp", inner("exists", [v for v in vars_], 1))
        op = rng.choice([">", "<", "=", "!"])
        return probe(("bin", op, ival(vars_, 1), ival(vars_, 1)), True)

    cur_visible = []

    nesting = rng.below(3) == 0        # this instance nests for-phrases inside operands

    def inner(kind, visible, depth):
        """A comprehension (or a func literal with a for-in loop) used as a whole operand; its variable names are drawn
        from the same pools as the enclosing ones, so they coincide with enclosing names about half of the time."""
        while True:
            npi = 1 if rng.below(3) else 2
            vs = ["x", "y", "z"]
            ks = ["i", "j", "k"]
            phs, seen = [], []
            for lvl in reversed(range(npi)):
                if depth < 2 and rng.below(4) == 0:
                    c = ("comp", inner("list", visible + seen, depth + 1))
                else:
                    c = rng.choice([("xs",), ("ys",), ("zs",), ("lit", [rng.below(9) - 2 for _ in range(1 + rng.below(3))])])
                    if rng.below(3) == 0:
                        pid[0] += 1
                        c = ("pl", pid[0], c)
                val = rng.choice([v for v in vs if v not in [q["val"] for q in phs]])
                key = rng.choice([k for k in ks if k not in [q["key"] for q in phs]]) if rng.below(3) == 0 else None
                own = [val] + ([key] if key else [])
                scope = own + [v for v in seen + visible if v not in own]
                cd = cond(scope) if rng.below(2) == 0 else None
                phs.insert(0, {"key": key, "val": val, "x": c, "cond": cd})
                seen = own + [v for v in seen if v not in own]
            scope = seen + [v for v in visible if v not in seen]
            elt = probe(ival(scope)) if kind != "exists" else None
            c = {"kind": kind, "phrases": phs, "elt": elt, "elt2": None, "nested": True,
                 "flavor": "funclit" if (kind == "list" and npi == 1 and rng.below(4) == 0) else "compr"}
            # every variable of the inner comprehension is used, or becomes blank
            ok = True
            for i, ph in enumerate(phs):
                used = used_vars(c["elt"], set()) | used_vars(ph["cond"], set())
                for q in phs[:i]:                      # phrases nested inside ph
                    used |= cont_vars(q["x"], set()) | used_vars(q["cond"], set())
                if ph["key"] and ph["key"] not in used:
                    ph["key"] = None
                if ph["val"] not in used:
                    ph["val"] = None
            if ok:
                return c

    def container(allow_rows):
        if nesting and rng.below(3) == 0:
            return ("comp", inner("list", list(cur_visible), 1))
        r = rng.below(8)
        if nesting and r == 6:
            r = 0                      # no string containers next to nested operands (rune casts are per top-level scope)
        if r == 0:
            c = ("xs",)
        elif r == 1:
            c = ("ys",)
        elif r == 2:
            c = ("zs",)
        elif r == 3:
            c = ("lit", [rng.below(9) - 2 for _ in range(1 + rng.below(3))])
        elif r == 4:
            s = rng.below(7) - 3
            c = ("range", s, s + rng.below(8) - 1, 1 + rng.below(3))
        elif r == 5:
            c = ("map1", rng.below(9), rng.below(90))
        elif r == 6:
            c = ("str", rng.choice(["ab", "xyz", "q"]))
        else:
            c = ("xs",)
        if c[0] in ("xs", "ys", "zs", "lit") and (c[0] != "lit" or c[1]) and rng.below(3) == 0:
            pid[0] += 1
            c = ("pl", pid[0], c)
        return c

    kind = rng.choice(["list", "list", "map", "sel1", "sel2", "exists", "for", "send", "sendall"])
    if kind == "send":
        return mk_send([probe(ival([])) for _ in range(1 + rng.below(3))])
    if kind == "sendall":
        c = container(False)
        while base_kind(c) in ("range", "map1", "str") or (c[0] == "lit" and not c[1]) or "\n" in c_sugar(c):
            # (a multi-line func literal before a line-ending `...` trips the scanner's semicolon rule -- a scanner matter, not C02's)
            c = container(False)
        return mk_sendall(c)
    np = 1 if kind == "for" else 1 + rng.below(3)
    names_v, names_k = ["x", "y", "z"], ["i", "j", "k"]
    # build from the outermost (last in source) to the innermost so that inner phrases may use outer variables
    phrases, outer = [], []
    for lvl in reversed(range(np)):
        cur_visible[:] = [v for v in outer if v != "row"]
        c = container(True)
        if outer and "row" in outer and rng.below(2) == 0:
            c = ("var", "row")
        key = names_k[lvl] if rng.below(3) == 0 and base_kind(c) != "range" else None   # a range yields single values
        val = names_v[lvl]
        if lvl == np - 1 and np >= 2 and rng.below(4) == 0 and kind != "for":
            c, val, key = ("rows",), "row", None
        own = [val] if val != "row" else []
        if key:
            own.append(key)
        ints_outer = [v for v in outer if v != "row"]
        cd = cond(own + ints_outer) if rng.below(2) == 0 and (own or ints_outer) else None
        phrases.insert(0, {"key": key, "val": val, "x": c, "cond": cd})
        outer = outer + own + (["row"] if val == "row" else [])
    ints = [v for v in outer if v != "row"]
    elt = probe(ival(ints)) if kind != "exists" else None
    if elt is not None and nesting and rng.below(5) == 0:
        elt = ("comp", inner("sel1", ints, 1))
    elt2 = probe(ival(ints)) if kind == "map" else None
    used = set()
    used_vars(elt, used)
    used_vars(elt2, used)
    for p in phrases:
        used_vars(p["cond"], used)
        cont_vars(p["x"], used)
    for p in phrases:
        if p["key"] and p["key"] not in used:
            p["key"] = None
        if p["val"] not in used:
            if base_kind(p["x"]) == "range":
                return None           # `for _ <- a:b:c` goes through toForStmt (C04), not through for-range
            p["val"] = None           # blank loop variable
    if all(p["val"] is None and p["key"] is None for p in phrases) and rng.below(2):
        return None                   # keep fully blank instances a minority
    if kind == "for":
        return mk_for(phrases[0], elt)
    if kind == "exists":
        return mk_case("exists", phrases)
    return mk_case(kind, phrases, elt, elt2)


def gomod(repo):
    req = ""
    for l in open(os.path.join(repo, "go.mod")):
        if "github.com/qiniu/x " in l:
            req = l.strip()
    return ("module c02cases\n\ngo 1.18\n\nrequire (\n\tgithub.com/goplus/xgo v0.0.0\n\t%s\n)\n\n"
            "replace github.com/goplus/xgo => %s\n" % (req, repo))


def run(ctx):
    ctx.prove("C02")
    model = ctx.model("c02")
    impl = ctx.harness("c02")
    d = os.path.join(ctx.scratch, "cases")
    os.makedirs(d)
    open(os.path.join(d, "go.mod"), "w").write(gomod(vlib.REPO))
    shutil.copy(os.path.join(vlib.REPO, "go.sum"), os.path.join(d, "go.sum"))

    fixed = fixed_cases() + blank_cases() + nested_cases() + lambda_cases()
    finds = finding_cases()
    cases = fixed + [c for c, _ in finds]
    nfixed = len(cases)
    for _ in range(ctx.n(150, 3000)):
        cases.append(gen_case(ctx.rng))
    json.dump([{"sugar": c["sugar"], "doc": c["doc"]} for c in cases], open(os.path.join(d, "cases.json"), "w"))
    ctx.log("phase: gen: compile program with the real compiler")
    rc, out = ctx.run([impl, "gen", "-dir", d, "-cases", os.path.join(d, "cases.json")], cwd=d, timeout=400)
    if rc != 0:
        ctx.broken("correspondence(c02: compile the program with the real compiler)", out[-1500:])
        return
    status = json.load(open(os.path.join(d, "status.json")))["status"]
    ctx.log("phase: go build")
    rc, out = ctx.run("go build -o prog . 2>&1", cwd=d, timeout=400)
    if rc != 0:
        ctx.broken("correspondence(c02: go build of the compiled program)", out[-1500:])
        return
    ctx.log("phase: run + model")
    rc, out = ctx.run([os.path.join(d, "prog")], timeout=120)
    if rc != 0:
        ctx.broken("correspondence(c02: run of the program)", "rc=%d %s" % (rc, out[-800:]))
        return
    got = {}
    for l in out.splitlines():
        f = l.split("\t")
        if len(f) == 5 and f[0].isdigit():
            got[int(f[0])] = dict(x.split("=", 1) for x in f[1:])
    rc, mout = ctx.run([model], input="\n".join(c["model"] for c in cases) + "\n")
    mres = mout.splitlines()
    if rc != 0 or len(mres) != len(cases):
        ctx.broken("correspondence(c02: model run)", mout[-500:])
        return
    impl_v, hist, nontriv = [], {}, set()
    for k, c in enumerate(cases):
        hist[c["shape"]] = hist.get(c["shape"], 0) + 1
        fk = finds[k - len(fixed)][1] if len(fixed) <= k < nfixed else None
        if status[k] != "ok":
            impl_v.append("COMPILE-ERROR")
            key = "case:" + (fk + ":" + c["shape"].split("/")[0] if fk else vlib.sha(c["sugar"]))
            ctx.fail(key, "rejected by the toolchain (%s): %s" % (status[k][:160], c["sugar"].strip().splitlines()[0] if c["shape"].split("/")[0] not in ("for", "send") else c["sugar"].strip()[:120]),
                     {"sugar": c["sugar"], "doc": c["doc"], "status": status[k]})
            continue
        g = got.get(k)
        if g is None:
            impl_v.append("MISSING")
            continue
        impl_v.append("v=%s\tt=%s" % (g["v"], g["t"]))
        if g["t"] != "[]" or g["v"] not in ("L", "M", "false", "0", "0 false", "-"):
            nontriv.add(c["model"])
        if g["v"] != g["xv"] or g["t"] != g["xt"]:
            ctx.fail("case:" + vlib.sha(c["sugar"]), "sugar and explicit expansion differ: %s %s vs %s %s for %s" % (g["v"], g["t"], g["xv"], g["xt"], c["sugar"].strip()[:200]),
                     {"sugar": c["sugar"], "doc": c["doc"], "impl": g})
    ctx.diff_lines("eval(lower_*)~compiled program", [c["sugar"] for c in cases], "\n".join(impl_v), "\n".join(mres))
    if any("SPECDIFF" in m for m in mres):
        ctx.broken("model(c02: lowering vs definitional meaning)", next(m for m in mres if "SPECDIFF" in m))
    ctx.cover(evaluations=len(cases), distinct_nontrivial=len(nontriv),
              samples=[{"sugar": cases[i]["sugar"], "explicit_expansion": cases[i]["doc"], "impl": impl_v[i], "model": mres[i]} for i in (3, 16, nfixed + 1, len(cases) - 1)],
              rule="%d fixed instances (incl. the documentation's shapes) + %d known-finding instances + %d seeded instances: list/map/select(1,2)/exists "
                   "comprehensions with 1-3 for-phrases (key/value forms, filters, inner phrases using outer variables), for-phrase statements, "
                   "`a <- v,..` / `a <- b...`; containers: slices, slice of slices, literal slices, ASCII strings, one-entry maps, ranges with "
                   "positive step; probe calls p/pb/pl at random places make evaluation order visible; each instance also as explicit Go loops; "
                   "non-trivial = distinct instance with a non-empty result or trace; blank loop variables are generated; NOT generated: "
                   "negative-step ranges (C04), multi-entry maps (iteration order), non-int element types"
                   % (len(fixed), len(finds), len(cases) - nfixed),
              shape_histogram=dict(sorted(hist.items(), key=lambda kv: -kv[1])[:40]))
    ctx.assume("Go's for-range over slices / strings (ASCII) / maps and append behave as the MiniGo evaluator rules say",
               "operands are pure expressions over user variables with opaque probe calls; they cannot mention _gop_ret / _gop_ok")
    ctx.trust("modelled, not verified: cl/expr.go compileComprehensionExpr, cl/stmt.go compileForPhraseStmt / compileSendStmt / isAppendable "
              "(hand-written lowering models tied by the differential run), gogen ForRange/RangeAssignThen incl. the iterator protocol for range "
              "objects (outside /repo)")
