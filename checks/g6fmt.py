"""Shared by checks/c19.py, c20.py, c21.py: the corpus, the deterministic comment-insertion enumeration,
the seeded source generator and the call of the implementation driver harness/cmd/fmtrt.

One evaluated source gives a dict
  id, sha, parse (ok|invalid), fmt (ok|error|panic), tree (C19), idem (C20), comments (C21), ncomments, detail
"""
import os
import vlib as _v

CLASS_EXT = (".gox", ".spx", ".gmx", ".gsh", ".yap", ".rdx")
SRC_EXT = (".xgo", ".gop") + CLASS_EXT


def repo():
    return _v.REPO


def corpus():
    """every XGo / class file of the repository, sorted: [(path, is_class)]"""
    out = []
    for root, dirs, files in os.walk(repo()):
        dirs[:] = sorted(d for d in dirs if d != ".git")
        for f in sorted(files):
            if f.endswith(SRC_EXT):
                out.append((os.path.join(root, f), f.endswith(CLASS_EXT)))
    return sorted(out)


SMALL_DIRS = ("printer/_testdata", "parser/_testdata", "demo")


def small(limit):
    """the files of the comment-insertion dimension: under printer/_testdata, parser/_testdata, demo, at most `limit` bytes"""
    out = []
    for p, c in corpus():
        rel = os.path.relpath(p, repo())
        if rel.startswith(SMALL_DIRS) and os.path.getsize(p) <= limit:
            out.append((p, c))
    return out


FIELDS = ("id", "sha", "parse", "fmt", "tree", "idem", "comments", "ncomments", "detail")


def run_fmtrt(ctx, exe, requests, timeout=900):
    """requests: list of ('F', is_class, path) | ('S', is_class, bytes).  Returns (list of result dicts, ok)."""
    lines = []
    for kind, cls, arg in requests:
        if kind == "F":
            lines.append("F\t%d\t%s" % (1 if cls else 0, arg))
        else:
            lines.append("S\t%d\t%s" % (1 if cls else 0, arg.hex()))
    rc, out = ctx.run([exe], input="\n".join(lines) + "\n", timeout=timeout)
    res = []
    for l in out.split("\n"):
        if not l:
            continue
        f = l.split("\t")
        if len(f) != len(FIELDS):
            ctx.broken("fmtrt(line)", "unexpected output line: %s" % l[:200])
            continue
        d = dict(zip(FIELDS, f))
        d["id"] = os.path.relpath(d["id"], repo()) if d["id"].startswith("/") else d["id"]
        res.append(d)
    if rc != 0:
        ctx.broken("fmtrt(run)", "rc=%d %s" % (rc, out[-300:]))
    return res, rc == 0


# ---------------------------------------------------------------------------------------------
# seeded generator of valid XGo sources (dimensions on which C19/C20/C21 hold on the unchanged tree):
# script-style and func-style files; statements: assignment, command call, if/else, for-in, for-range,
# return, defer, go, var/const/type/import declarations, lambdas, comprehensions, error wrapping,
# slice/map literals, string interpolation; expressions over all binary/unary operators with the
# parentheses precedence requires; layout perturbations: blank lines, line breaks after , ( [ { and
# binary operators, trailing commas, extra blanks, comments on their own line and at line ends.
BINOPS = ["||", "&&", "==", "!=", "<", "<=", ">", ">=", "+", "-", "|", "^", "*", "/", "%", "<<", ">>", "&", "&^"]
PREC = {"||": 1, "&&": 2, "==": 3, "!=": 3, "<": 3, "<=": 3, ">": 3, ">=": 3, "+": 4, "-": 4, "|": 4, "^": 4,
        "*": 5, "/": 5, "%": 5, "<<": 5, ">>": 5, "&": 5, "&^": 5}
UNOPS = ["-", "!", "^", "+"]
NAMES = ["a", "b", "c", "x", "y", "n", "foo", "bar"]
LITS = ["1", "2", "10", "3.5", '"s"', "'c'", "1r", "2.5r", "true", "nil", "0x1f"]


class SrcGen:
    def __init__(self, rng, layout):
        self.r = rng
        self.layout = layout      # probability (in %) of a layout perturbation at a legal place

    def pick(self, xs):
        return xs[self.r.below(len(xs))]

    def nl(self, depth):
        """a legal line break (after an opening bracket, a comma or a binary operator)"""
        if self.layout and self.r.below(100) < self.layout:
            return "\n" + "\t" * (depth + 1)
        return " " if self.r.below(4) == 0 and self.layout else ""

    def expr(self, d, p=0, depth=0):
        """an expression of binding strength >= p"""
        k = self.r.below(14) if d > 0 else self.r.below(2)
        if k == 0:
            return self.pick(NAMES)
        if k == 1:
            return self.pick(LITS)
        if k in (2, 3, 4, 5):
            op = self.pick(BINOPS)
            q = PREC[op]
            s = self.expr(d - 1, q, depth) + " " + op + self.nl(depth) + " " + self.expr(d - 1, q + 1, depth)
            return "(" + s + ")" if q < p else s
        if k == 6:
            o1 = self.pick(UNOPS)
            if self.r.below(3) == 0:      # a chain of prefix operators; a blank only where the two would lex as one token
                o2 = self.pick(UNOPS + ["&", "*", "<-"])
                o1 = o1 + (" " if (o1 + o2)[:2] in ("--", "++", "&&", "&^") or self.r.below(3) == 0 else "") + o2
            s = o1 + self.expr(d - 1, 6, depth)
            return "(" + s + ")" if 6 < p else s
        if k == 7:
            n = self.r.below(3)
            args = [self.expr(d - 1, 0, depth + 1) for _ in range(n)]
            sep = "," + self.nl(depth)
            # a trailing ",\n" only when no argument spans several lines (nested multi-line argument lists with trailing
            # commas are not idempotent: deterministic witness in DET_SOURCES)
            tail = "," + "\n" + "\t" * depth if args and self.layout and self.r.below(100) < self.layout // 2 and not any("\n" in a for a in args) else ""
            return self.pick(["f", "g", "obj.m", "fmt.sprint"]) + "(" + (self.nl(depth) if tail else "") + (sep + " ").join(args) + tail + ")"
        if k == 8:
            return self.expr(d - 1, 7, depth) + "[" + self.expr(d - 1, 0, depth) + "]" if self.r.below(2) else self.pick(NAMES) + "." + self.pick(["f", "g", "len"])
        if k == 9:
            n = 1 + (self.r.below(3) == 0) + (self.r.below(9) == 0)      # sometimes doubled / tripled parentheses
            return "(" * n + self.expr(d - 1, 0, depth) + ")" * n
        if k == 10:
            n = self.r.below(4)
            return "[" + ", ".join(self.expr(d - 1, 0, depth) for _ in range(n)) + "]"
        if k == 11:
            return self.pick(["f(a)!", "g()?", "f(a)?:0"]) if p <= 6 else "f(a)!"
        if k == 12:
            s = self.pick(["x => x * 2", "(x, y) => x + y", "=> 1"])
            return "(" + s + ")"
        return "{" + ", ".join('"k%d": %s' % (i, self.expr(d - 1, 0, depth)) for i in range(self.r.below(3))) + "}"

    def cond(self, depth):
        """a condition: not a bare parenthesised lambda / composite literal (the printer strips the parentheses
        of a control clause: deterministic witnesses in DET_SOURCES)"""
        if self.r.below(5) == 0:
            # a parenthesised condition holding a composite literal of a named type (the printer strips the parentheses of a
            # control clause unless such a literal would be exposed); untyped {...} literals: deterministic family, listed
            return "(" + self.pick(["T{}.ok()", "P{1}.get() < %s" % self.pick(NAMES), "f(T{}) > 0", "!T{a: 1}.ok()", "x == T{}", "T{}.m().n()",
                                    "pkg.T{}.ok() && " + self.pick(NAMES), "(T{}).ok()", "a[T{}.i] > 0"]) + ")"
        return self.expr(1, 1, depth) + " " + self.pick(["==", "!=", "<", ">"]) + " " + self.expr(1, 4, depth)

    def blank(self):
        return "\n" * self.r.below(3) if self.layout and self.r.below(100) < self.layout else ""

    def comment(self, ind):
        if self.layout and self.r.below(100) < self.layout // 2:
            if self.r.below(3) == 0:
                # a multi-line block comment: in column 1 or indented like the code, text lines uniformly indented
                # (mixed indentation of the text lines is not idempotent: deterministic family, listed)
                pre = self.pick(["", ind])
                text = self.pick(["", "\t", " * "])
                first = self.pick(["/*", "/* head"])
                if self.r.below(2):
                    # text lines with different indentation (usage-style), the whole comment uniformly prefixed
                    inds = ["", "    ", "\t", "\t\t"]
                    return pre + first + "\n" + "".join(pre + self.pick(inds) + w + "\n" for w in ("Usage:", "run a b", "run c")) + pre + "*/\n"
                return pre + first + "\n" + pre + text + "aaa\n" + pre + text + "bbb\n" + pre + (" */" if text == " * " else "*/") + "\n"
            return ind + self.pick(["// note", "/* block */", "// TODO: x", "//go:noinline"]) + "\n"
        return ""

    def eolc(self):
        if self.layout and self.r.below(100) < self.layout // 3:
            return " " + self.pick(["// eol", "/* eol */"])
        return ""

    def stmt(self, d, ind):
        k = self.r.below(13)
        t = ind
        depth = len(ind)
        if k == 0:
            return t + "%s := %s%s\n" % (self.pick(NAMES), self.expr(2, 0, depth), self.eolc())
        if k == 1:
            return t + "%s = %s%s\n" % (self.pick(NAMES), self.expr(2, 0, depth), self.eolc())
        if k == 2:
            return t + "%s %s%s\n" % (self.pick(["println", "echo", "fmt.println"]), ", ".join(self.expr(1, 0, depth) for _ in range(1 + self.r.below(3))), self.eolc())
        if k == 3 and d > 0:
            s = t + "if %s {\n%s%s}" % (self.cond(depth), self.block(d - 1, ind + "\t"), t)
            if self.r.below(2):
                s += " else {\n%s%s}" % (self.block(d - 1, ind + "\t"), t)
            return s + "\n"
        if k == 4 and d > 0:
            return t + "for %s <- %s {\n%s%s}\n" % (self.pick(["v", "i, v"]), self.pick(["xs", "[1, 2, 3]", "0:10", "1:n:2"]), self.block(d - 1, ind + "\t"), t)
        if k == 5 and d > 0:
            return t + "for i := 0; i < %s; i++ {\n%s%s}\n" % (self.expr(1, 4, depth), self.block(d - 1, ind + "\t"), t)
        if k == 6:
            return t + "%s %s(%s)\n" % (self.pick(["defer", "go"]), self.pick(["f", "obj.close"]), self.expr(1, 0, depth))
        if k == 7:
            return t + "var %s = %s\n" % (self.pick(NAMES), self.expr(2, 0, depth))
        if k == 8:
            return t + "%s := [%s for x <- %s%s]\n" % (self.pick(NAMES), self.expr(1, 0, depth), self.pick(["xs", "0:n"]), self.pick(["", " if x > 1", " if x%2 == 0"]))
        if k == 9:
            return t + 'println "%s"\n' % self.pick(["a=${a}", "$$", "${x+1}!", "plain"])
        if k == 10:
            if self.r.below(2):
                # a one-line function literal whose comments run across the printer's one-liner limit
                n = self.pick([20, 60, 95, 99, 100, 101, 105, 160])
                # (after a blank line: directly under a line with a trailing comment the alignment of that comment is not
                #  idempotent when the literal's body is only a long comment - deterministic witness in DET_SOURCES)
                if self.r.below(2):
                    # a one-line literal around the 100-column one-liner limit, hand-aligned with surplus blanks
                    w = 88 + self.r.below(24)
                    sp = " " * self.r.below(6)
                    return "\n" + t + "%s %s:= %s func(first int, second int) int { return first*second + %s }\n" % (self.pick(NAMES), sp, sp, "1" * (w - 60))
                return "\n" + t + "%s := func() { %s%s }\n" % (self.pick(NAMES), self.pick(["", "y() ", "/* a */ y(); "]), _com(n))
            return t + "%s++\n" % self.pick(NAMES)
        if k == 11 and d > 0:
            self.nlabel = getattr(self, "nlabel", 0) + 2
            l1 = "%sL%d: ;\n" % (t, self.nlabel) if self.r.below(3) == 0 else ""     # a labeled empty statement closing a clause
            l2 = "%sL%d:\n" % (t, self.nlabel + 1) if self.r.below(4) == 0 else ""
            return t + "switch %s {\n%scase 1, 2:\n%s%s%sdefault:\n%s%s%s}\n" % (self.pick(NAMES), t, self.block(d - 1, ind + "\t"), l1, t, self.block(d - 1, ind + "\t"), l2, t)
        return t + "%s.%s(%s)\n" % (self.pick(NAMES), self.pick(["add", "set"]), self.expr(1, 0, depth))

    def block(self, d, ind):
        out = ""
        for _ in range(1 + self.r.below(3)):
            out += self.comment(ind) + self.stmt(d, ind) + self.blank()
        return out

    def file(self):
        out = ""
        if self.r.below(3) == 0:
            out += 'import (\n\t"fmt"\n\t"os"\n)\n\n' if self.r.below(2) else 'import "fmt"\n\n'
        for _ in range(self.r.below(3)):
            k = self.r.below(4)
            if k == 0:
                out += "func %s(%s) %s {\n%s\treturn %s\n}\n\n" % (self.pick(["add", "mul", "get"]), self.pick(["a, b int", "x float64", ""]), self.pick(["int", "(int, error)", ""]) if False else "int",
                                                                 self.block(1, "\t"), self.expr(2, 0, 1))
            elif k == 1:
                out += "type %s struct {\n\tx int\n\ty, z string\n}\n\n" % self.pick(["T", "Point"])
            elif k == 2:
                out += "const %s = %s\n\n" % (self.pick(["K", "Max"]), self.pick(["1", "1 << 3", '"s"']))
            else:
                out += "var (\n\t%s int\n\t%s = %s\n)\n\n" % (self.pick(NAMES), self.pick(NAMES), self.expr(1, 0, 1))
        out += self.block(2, "")
        return out.encode()


# deterministic witnesses outside the corpus (always run; each failing one is listed in known_findings.txt )
DET_SOURCES = [
    b"if (x => x * 2) {\n}\n", b"if (=> 1) {\n}\n", b"for (x => x) {\n}\n", b"switch (x => x) {\n}\n", b"if ((x, y) => x + y) {\n}\n",
    b"if (T{}) {\n}\n", b"if (x!) {\n}\n", b"if (a ?: b) {\n}\n", b"x := ((a))\n", b"if ((a)) {\n}\n",
    b"println ${/*C*/name}\n", b"m.Foo/*C*/()\n", b"C.printf /*C*/ c\"x\"\n", b"/*C*/ echo a\necho b\n", b"a := 4/ /*C*/5r\n",
    b"x = fmt.sprint(obj.m( nil,\n\t),\n)\n",
    b"a = 3.5 // eol\nfoo := func() { /*c0 long comment text long comment text long comment text long comment text long comment text long com*/ }\n",
    # control characters inside comments (a form feed in a /*-comment makes the printer drop the following line break)
    b"x := 1 /*\f*/\ny := 2\n", b"x := 1 //\f\ny := 2\n", b"x := 1 # a\fb\ny := 2\n", b"x := 1 /*\v*/\ny := 2\n", b"/*\f*/\nx := 1\n",
    b"import \"fmt\" /*\f*/\n\nfmt.println 1\n", b"func f() {\n\tx := 1 /*\f*/\n\ty := 2\n}\n", b"func f() {\n\t/*\f*/\n\ty := 2\n}\n",
    b"x := 1 /* a\fb */\ny := 2\n", b"// a\fb\nx := 1\n", b"x := [1, /*\f*/ 2]\ny := 2\n", b"x := 1 //\v\ny := 2\n", b"x := 1 /*\r*/\ny := 2\n",
    b"x := 1 /* \x01 */\ny := 2\n", b"x := 1 /*\f*/ + 2\ny := 2\n", b"if x /*\f*/ {\n}\n",
    b"#!/usr/bin/env xgo\nprintln 1\n", b"# sharp comment\nprintln 1 # trailing\n", b"#\nprintln 1\n",
]

SMALL_LIMIT_QUICK = 300
SMALL_LIMIT_THOROUGH = 4000


def deterministic_requests(ctx):
    lim = SMALL_LIMIT_QUICK if ctx.quick else SMALL_LIMIT_THOROUGH
    files = small(lim)
    reqs = [("S", False, s) for s in DET_SOURCES]
    reqs += [("S", c, s) for c, s in families()]
    reqs += [("S", c, open(p, "rb").read()) for p, c in corpus()]
    reqs += [("F", c, p) for p, c in files]
    return reqs, len(DET_SOURCES) + len(families()), len(corpus()), files


def seeded_requests(ctx, n):
    reqs = []
    for i in range(n):
        g = SrcGen(ctx.rng, [0, 20, 40][i % 3])
        reqs.append(("S", False, g.file()))
    return reqs


def shape_hist(results):
    h = {}
    for r in results:
        k = "%s/%s" % (r["parse"], r["fmt"])
        h[k] = h.get(k, 0) + 1
    return h


def run_property(ctx, field, good, what):
    """Common body of C19/C20/C21: deterministic set + seeded set through fmtrt; `field` must equal `good`."""
    exe = ctx.harness("fmtrt")
    reqs, ndet, ncorp, files = deterministic_requests(ctx)
    res, ok = run_fmtrt(ctx, exe, reqs)
    nvalid = sum(1 for r in res if r["parse"] == "ok")
    nfail = 0
    for r in res:
        if r["parse"] != "ok":
            continue
        if r["fmt"] != "ok":
            # format.Source failing or panicking on a valid source defeats every formatting property
            ctx.fail("src:" + r["sha"], "%s: format.Source %s on a source that parses (%s)" % (what, r["fmt"], r["id"]), dict(r))
            nfail += 1
        elif r[field] != good:
            ctx.fail("src:" + r["sha"], "%s fails on %s: %s = %s %s" % (what, r["id"], field, r[field], r["detail"][:160]), dict(r))
            nfail += 1
    nseed = ctx.n(1000, 40000)
    sreqs = seeded_requests(ctx, nseed)
    sres, ok2 = run_fmtrt(ctx, exe, sreqs)
    svalid = 0
    if len(sres) != len(sreqs):
        ctx.broken("fmtrt(seeded)", "%d results for %d sources" % (len(sres), len(sreqs)))
    for (k, c, src), r in zip(sreqs, sres):
        if r["parse"] != "ok":
            continue
        svalid += 1
        if r["fmt"] != "ok" or r[field] != good:
            ctx.fail("src:" + r["sha"], "%s fails on a generated source: fmt=%s %s=%s %s" % (what, r["fmt"], field, r[field], r["detail"][:160]),
                     {"source": src.decode("utf-8", "replace"), "result": dict(r)})
    hist = shape_hist(res)
    ctx.cover(evaluations=len(res) + len(sres), distinct_nontrivial=len(set(r["sha"] for r in res + sres if r["parse"] == "ok")),
              samples=[dict(res[i]) for i in (0, ndet + 3, len(res) // 2, len(res) - 5) if i < len(res)],
              rule="deterministic (seed-independent): %d witness and family sources (token adjacency: every operator x every prefix operator in "
                   "normal and compact contexts; comment layout: block/line comments x indentation x nesting level x container; comment sizes "
                   "across the printer's 30/40/100 limits in one-line bodies, blocks, literals, struct/interface types) + the %d XGo/class files of the repository + a comment (\"/*C*/\" and \"//C\\n\") inserted "
                   "before EVERY token of the %d files <= %d bytes under printer/_testdata, parser/_testdata, demo (%d sources, %d of them parse; a variant that "
                   "does not parse makes no claim); seeded: %d generated sources with layout perturbations (%d parse); generator does not produce: a bare "
                   "parenthesised lambda as if/for/switch condition, comments inside expressions, control characters (\\f, \\v, ...) inside comments "
                   "(all three are in the deterministic set); non-trivial = distinct "
                   "source that parses; failing deterministic sources: %d" % (ndet, ncorp, len(files), SMALL_LIMIT_QUICK if ctx.quick else SMALL_LIMIT_THOROUGH,
                                                                        len(res), nvalid, len(sres), svalid, nfail),
              result_histogram=hist, deterministic_sources=len(res), deterministic_valid=nvalid, seeded_sources=len(sres), seeded_valid=svalid,
              deterministic_failing=nfail)
    return res, sres


# ---------------------------------------------------------------------------------------------
# deterministic families (seed-independent, run on every run of C19/C20/C21)

PREFIX_OPS = ["+", "-", "!", "^", "&", "<-", "*"]
BIN_OPS_ALL = BINOPS + ["->", "<>"]


def family_adjacency():
    """token adjacency: EVERY operator / prefix operator directly followed by EVERY prefix operator (not only the pairs of
    the current mayCombine table, so that a pair dropped from the table is still exercised), in normal mode and in the
    printer's compact modes (several call arguments, index, slice/composite literal elements, with a higher-precedence
    right operand that starts with the prefix operator)."""
    out = []
    for o2 in PREFIX_OPS:
        for o1 in PREFIX_OPS:                       # unary chains
            out.append("x := %s %sa\n" % (o1, o2))
            out.append("func f(a int) int {\n\treturn %s %sa\n}\n" % (o1, o2))
            out.append("x := f(%s %sa, b)\n" % (o1, o2))
            out.append("x := %s %s %sa\n" % (o1, o2, o2))
        for o1 in BIN_OPS_ALL:                      # binary operator, then a unary operand
            out.append("x := a %s %sb\n" % (o1, o2))
            out.append("x := f(a %s %sb, d)\n" % (o1, o2))
            out.append("x := f(a %s %sb*c, d)\n" % (o1, o2))           # compact mode, unary leads a tighter right operand
            out.append("x := f(a %s %sb.g(c)*c, d)\n" % (o1, o2))
            out.append("x := s[a %s %sb*c]\n" % (o1, o2))
            out.append("x := [a %s %sb*c, d]\n" % (o1, o2))
            out.append("x := T{k: a %s %sb*c, j: d}\n" % (o1, o2))
            out.append("x := a*b %s %sb*c %s d\n" % (o1, o2, o1))
            out.append("println a %s %sb*c, d\n" % (o1, o2))
            out.append("x := (a %s %sb) * c\n" % (o1, o2))
        out.append("ch <- %sb\n" % o2)             # send statement
        out.append("x := a[1:%sb]\n" % o2)
        out.append("x := 1 .f + %sb\n" % o2)
    out += ["x := 1 .f\n", "x := a / *p\n", "x := a & ^b\n", "x := a < <-c\n", "x := a - -1\n", "x := - -1\n", "x := 2 - -a.b\n"]
    return [(False, s.encode()) for s in out]


def _nest(level, container, body_lines):
    """body_lines placed at block nesting `level` inside the container; returns (is_class, source)"""
    cls = container == "class"
    src = ""
    base = 0
    if container in ("func", "class"):
        if cls:
            src += "var (\n\tn int\n)\n\n"
        src += "func f() {\n"
        base = 1
    else:
        src += "x := 1\n"
    opened = 0
    while base + opened < level:
        src += "\t" * (base + opened) + "if x > %d {\n" % opened
        opened += 1
    ind = "\t" * (base + opened)
    src += ind + "y()\n"
    src += "".join(body_lines)
    src += ind + "z()\n"
    for k in range(opened - 1, -1, -1):
        src += "\t" * (base + k) + "}\n"
    if base:
        src += "}\n"
    return cls, src


def family_comment_layout():
    """multi-line block comments and line comments: {first line bare "/*" | "/* text"} x {text lines unindented | 1 | 2 tabs |
    line of stars} x {block nesting level 0..3} x {comment in column 1 | indented like the code} x {script | func body |
    class file}; the comment before a statement, and as the last thing of its block."""
    out = []
    for container in ("script", "func", "class"):
        for level in range(0, 4):
            if container != "script" and level == 0:
                continue
            for col1 in (True, False):
                pre = "" if col1 else "\t" * level
                for first in ("/*", "/* head"):
                    for text in ("", "\t", "\t\t", " * "):
                        lines = [pre + first + "\n", pre + text + "aaa\n", pre + text + "bbb\n", pre + ("*/" if text != " * " else " */") + "\n"]
                        out.append(_nest(level, container, lines))
                for lc in ("// one\n", "// one\n" + pre + "// two\n", "//go:noinline\n", "# sharp\n"):
                    out.append(_nest(level, container, [pre + lc]))
                out.append(_nest(level, container, [pre + "/* one line */\n"]))
                out.append(_nest(level, container, [pre + "/*\n", "aaa\n", pre + "\tbbb\n", "*/\n"]))     # mixed indentation
    # as the last item of a block / file, and between declarations
    for first in ("/*", "/* head"):
        for text in ("", "\t"):
            c = first + "\n" + text + "aaa\n" + text + "bbb\n*/\n"
            out.append((False, "func f() {\n\ty()\n" + c + "}\n"))
            out.append((False, "func f() {\n\ty()\n}\n\n" + c + "\nfunc g() {\n}\n"))
            out.append((False, "x := 1\nif x > 0 {\n\ty()\n" + c + "}\n"))
            out.append((False, "x := 1\n" + c))
            out.append((False, "type T struct {\n" + c + "\ta int\n}\n"))
            out.append((False, "var (\n" + c + "\ta int\n)\n"))
            out.append((False, "switch x {\ncase 1:\n" + c + "\ty()\n}\n"))
            out.append((False, "x := [\n" + c + "\t1,\n]\n"))
    return [(cls, s.encode()) for cls, s in out]


def _com(n, k=0):
    """a block comment of exactly n bytes"""
    body = ("c%d " % k) + "long comment text " * 12
    return "/*" + body[:max(0, n - 4)] + "*/" if n >= 4 else "/**/"


SIZES = [10, 29, 30, 31, 39, 40, 41, 59, 60, 61, 90, 98, 99, 100, 101, 102, 150, 250]


def family_comment_sizes():
    """one-line bodies, blocks, literals, struct and interface types holding comments whose total size runs across the
    printer's limits (isOneLineFieldList 30, exprList 40, funcBody/bodySize 100), as one group and as several groups."""
    out = []
    for n in SIZES:
        c = _com(n)
        out += [
            "func f() { %s }\n\n// trailing\n" % c,
            "func f() { x() %s }\n\n// trailing\n" % c,
            "func f() { %s x() }\n" % c,
            "func k() { /* a */ x(); %s }\n" % c,
            "func k() { %s x(); /* b */ }\n" % c,
            "func k() { /* a */ /* b */ %s /* d */ }\n" % c,
            "var h = func() { y() /* first */ %s /* third */ }\n\n// trailing\n" % c,
            "var h = func() { %s }\n" % c,
            "x := func(a int) int { return a %s }\n" % c,
            "go func() { %s }()\n" % c,
            "f(func() { %s }, 1)\n" % c,
            "onStart => { %s }\n" % c,
            "x := (a, b) => { y() %s }\n" % c,
            "x := 1\nif x > 0 { y() %s }\n" % c,
            "for i <- 0:3 { %s }\n" % c,
            "type T struct { a int %s }\n" % c,
            "type T struct { %s a, b int }\n" % c,
            "type T struct { a int; %s b string }\n" % c,
            "type I interface { M() %s }\n" % c,
            "type I interface { %s }\n" % c,
            "func f(a struct{ x int %s }) {\n}\n" % c,
            "x := T{a: 1 %s}\n" % c,
            "x := T{%s a: 1, b: 2}\n" % c,
            "x := [1, 2 %s, 3]\n" % c,
            "x := {\"k\": 1 %s}\n" % c,
            "x := f(a, %s b)\n" % c,
            "x := T{\n\tshort: 1, %s\n\tmuchLongerFieldNameForAlignmentDecisions: 2,\n}\n" % c,
            "func (p *T) m() { %s }\n" % c,
            "func f() (r int) { %s return }\n" % c,
        ]
        # the same total split over several comment groups
        a, b = _com(n // 2, 1), _com(n - n // 2, 2)
        out += [
            "func f() { %s x(); %s }\n" % (a, b),
            "func f() { %s %s }\n" % (a, b),
            "var h = func() { %s y(); %s }\n" % (a, b),
            "type T struct { a int %s; b int %s }\n" % (a, b),
        ]
    return [(False, s.encode()) for s in out]


def family_control_clause():
    """parenthesised conditions / tags / range operands whose parentheses the printer may strip (stripParens): composite
    literals of a named type in every position of the expression - callee, argument, selector base, index, operand."""
    exprs = ["T{}.ok()", "T{}.f", "x == T{}", "f(T{})", "T{}.m().n()", "P{1}.get() < 2", "!T{}.ok()", "T{a: 1}.x > 0", "pkg.T{}.ok()",
             "(T{}).ok()", "a[T{}.i]", "m[T{}]", "f(T{}).g(U{})", "T{}.ok() && b", "b && T{}.ok()", "f(x) && g(T{}.y)", "<-T{}.ch", "-T{}.n",
             "T{}.a.b.c()", "T{}.m(U{})", "f(T{})(U{})", "T{}.f[0]", "T{}.s[1:2]", "x.(T) == T{}", "[]T{}.len()", "[1, 2].len() > 0",
             "{\"a\": 1}.len() > 0", "map[string]T{}.len() > 0", "T{}.ok()!", "T{}.get()?:0 > 1", "(x => T{}.v(x))(1) > 0", "f(=> T{})",
             "S{}.size()", "struct{}{} == x", "a", "a + b", "f()", "(a)", "a.b.c"]
    out = []
    for e in exprs:
        e = e.replace("\\\"", '"')
        out += ["x := 1\nif (%s) {\n\ty()\n}\n" % e,
                "x := 1\nif v := 1; (%s) {\n\ty()\n}\n" % e,
                "x := 1\nfor (%s) {\n\ty()\n}\n" % e,
                "x := 1\nfor i := 0; (%s); i++ {\n\ty()\n}\n" % e,
                "x := 1\nswitch (%s) {\ncase 1:\n\ty()\n}\n" % e,
                "x := 1\nfor v <- (%s) {\n\ty()\n}\n" % e,
                "x := 1\nfor v := range (%s) {\n\ty()\n}\n" % e,
                "func f() {\n\tif (%s) {\n\t\ty()\n\t} else if (%s) {\n\t\tz()\n\t}\n}\n" % (e, e),
                "x := [v for v <- xs if (%s)]\n" % e,
                "x := 1\nif ((%s)) {\n\ty()\n}\n" % e]
    return [(False, s.encode()) for s in out]


def family_funclit_width():
    """one-line function literals whose header + body size runs across the 100-column one-liner limit, written with 0..6 surplus
    blanks in front of "func" (hand-aligned source), in assignment, declaration, call-argument and nested positions."""
    out = []
    for width in range(88, 112):
        digits = "1" * max(1, width - 60)
        lit = "func(first int, second int) int { return first*second + %s }" % digits
        for blanks in (0, 1, 2, 4, 7):
            sp = " " * blanks
            out += ["handler %s:= %s %s\n" % (sp, sp, lit),
                    "var handler %s= %s %s\n" % (sp, sp, lit),
                    "register(1, %s %s)\n" % (sp, lit),
                    "func g() {\n\thandler %s= %s %s\n}\n" % (sp, sp, lit),
                    "x := 1\nif x > 0 {\n\tif x > 1 {\n\t\th %s:= %s %s\n\t}\n}\n" % (sp, sp, lit),
                    "m := {\"k\": %s %s}\n" % (sp, lit)]
    return [(False, s.encode()) for s in out]


def family_comment_text_profiles():
    """multi-line /*-comments with every indentation profile of three inner lines over {none, 4 blanks, 1 tab, 2 tabs} (plus a
    blank inner line), first line bare or with text, at top level and inside a function body: what stripCommonPrefix sees."""
    inds = ["", "    ", "\t", "\t\t"]
    out = []
    for first in ("/*", "/* Usage"):
        for i1 in inds:
            for i2 in inds:
                for i3 in inds:
                    body = "%sUsage:\n%srun a b\n%srun c\n" % (i1, i2, i3)
                    out.append("%s\n%s*/\nx := 1\n" % (first, body))
                    out.append("func f() {\n\t%s\n%s\t*/\n\ty()\n}\n" % (first, "".join("\t" + l + "\n" for l in body.split("\n")[:-1])))
        out.append("%s\nUsage:\n\n    run a b\n    run c\n*/\nx := 1\n" % first)
        out.append("%s\nUsage:\n    run a b\n\nEnd\n*/\nx := 1\n" % first)
        out.append("%s\n\tUsage:\n\t    run a b\n\t    run c\n*/\nx := 1\n" % first)
    return [(False, s.encode()) for s in out]


def family_labeled_empty():
    """a labeled empty statement ("done: ;" / "done:" before a closing brace) in every block-final position: case clause (last and
    not last), comm clause, plain block, if/else, for body, func body, func literal, lambda block, script top level."""
    out = []
    for lab in ("done: ;", "done:\n\t;", "done: {}", "done:\n\tx++"):
        out += [
            "func f(x int) {\n\tswitch x {\n\tcase 1:\n\t\ty()\n\t%s\n\tcase 2:\n\t\tz()\n\t}\n}\n" % lab,
            "func f(x int) {\n\tswitch x {\n\tcase 1:\n\t\ty()\n\tcase 2:\n\t\tz()\n\t%s\n\t}\n}\n" % lab,
            "func f(x int) {\n\tswitch x {\n\tcase 1:\n\t%s\n\tdefault:\n\t\tz()\n\t}\n}\n" % lab,
            "func f(x int) {\n\tswitch x {\n\tdefault:\n\t\ty()\n\t%s\n\tcase 2:\n\t}\n}\n" % lab,
            "func f(x any) {\n\tswitch x.(type) {\n\tcase int:\n\t\ty()\n\t%s\n\tcase string:\n\t\tz()\n\t}\n}\n" % lab,
            "func f(c chan int) {\n\tselect {\n\tcase v := <-c:\n\t\ty(v)\n\t%s\n\tcase c <- 1:\n\t\tz()\n\t}\n}\n" % lab,
            "func f(c chan int) {\n\tselect {\n\tcase <-c:\n\t\ty()\n\tdefault:\n\t\tz()\n\t%s\n\t}\n}\n" % lab,
            "func f() {\n\ty()\n%s\n}\n" % lab,
            "func f() {\n\t{\n\t\ty()\n\t%s\n\t}\n\tz()\n}\n" % lab,
            "func f(x int) {\n\tif x > 0 {\n\t\ty()\n\t%s\n\t} else {\n\t\tz()\n\t%s\n\t}\n}\n" % (lab, lab.replace("done", "end")),
            "func f() {\n\tfor i := 0; i < 3; i++ {\n\t\ty()\n\t%s\n\t}\n}\n" % lab,
            "func f() {\n\tfor v <- xs {\n\t\ty(v)\n\t%s\n\t}\n}\n" % lab,
            "func f() {\n\th := func() {\n\t\ty()\n\t%s\n\t}\n\th()\n}\n" % lab,
            "func f() {\n\tswitch {\n\tcase a:\n\t\tswitch {\n\t\tcase b:\n\t\t\ty()\n\t\t%s\n\t\tcase c:\n\t\t}\n\tcase d:\n\t}\n}\n" % lab,
            "y()\n%s\n" % lab,
            "x := 1\nswitch x {\ncase 1:\n\ty()\n%s\ncase 2:\n\tz()\n}\n" % lab,
            "x := 1\nif x > 0 {\n\ty()\n%s\n}\n" % lab,
            "func f(x int) {\n\tswitch x {\n\tcase 1:\n\t\tgoto done\n\t%s\n\tcase 2:\n\t\tfallthrough\n\tcase 3:\n\t}\n}\n" % lab,
        ]
    return [(False, s.encode()) for s in out]


def family_multi_parens():
    """doubled / tripled parentheses around binary sub-expressions at expression depths 1..5: plain, call arguments (1 and 2+),
    index, slice, composite / slice / map literal elements, nested calls; the printer collapses ((x)) and its blank decisions
    depend on the depth it reaches the operand with."""
    out = []
    cores = ["a+b", "a*b", "a+b*c", "-a"]
    for core in cores:
        for np in (1, 2, 3):
            pe = "(" * np + core + ")" * np
            for e in [pe, pe + "*c", "c*" + pe, pe + "+c", "c-" + pe, pe + "*" + pe, "d+" + pe + "*c", "(" + pe + "*c)+d", "((" + pe + "*c))*d"]:
                out += ["x := %s\n" % e, "x := g(%s)\n" % e, "x := g(p, %s)\n" % e, "x := g(p, q, %s, r)\n" % e, "x := tbl[%s]\n" % e,
                        "x := tbl[%s*n]\n" % pe if e == pe else "x := tbl[p][%s]\n" % e, "x := s[%s:n]\n" % e, "x := [p, %s]\n" % e,
                        "x := T{k: %s, j: 1}\n" % e, "x := {\"k\": %s}\n" % e, "x := g(h(p, %s), q)\n" % e, "x := g(p, h(q, k(r, %s)))\n" % e,
                        "println p, %s\n" % e, "return_(%s)\n" % e, "x := g(p, tbl[%s])\n" % e, "x := g(p, [q, %s])\n" % e,
                        "if g(p, %s) > 0 {\n}\n" % e]
    return [(False, s.encode()) for s in out]


def family_tight_width():
    """sources written TIGHTER or LOOSER than their canonical text (no blanks / doubled blanks around binary operators and after
    commas), sized so that the source extent and the canonical width lie on different sides of the printer's size thresholds: the
    100-column one-line function body limit (funcBody/bodySize via nodeSize) and the 40-column / ratio thresholds of exprList
    alignment.  A printer that sizes a node from its source extent instead of its printed form decides differently in pass 2."""
    out = []
    names = "abcdefghijklmnopqrstuvwxyz"
    for n in range(8, 34):
        ops = [names[i % 26] for i in range(n)]
        for glue in ("+", " + ", "  +  "):
            body = glue.join(ops)
            out += ["func f(a, b, c int) int { return %s }\n" % body,
                    "func f(a,b,c int) int {return %s}\n" % body,
                    "h := func(a, b int) int { return %s }\n" % body,
                    "func (p *T) m(a int) (r int) { r = %s; return }\n" % body]
    for n in range(4, 22, 2):
        ops = [names[i % 26] for i in range(n)]
        for glue in ("+", " + ", "  *  "):
            e = glue.join(ops)
            out += ["x := []int{\n\t%s,\n\t1,\n\t%s,\n}\n" % (e, e),
                    "m := map[string]int{\n\t\"k\": %s,\n\t\"kkkkkk\": 1,\n\t\"kk\": %s, // c\n}\n" % (e, e),
                    "m := {\n\t\"k\": %s,\n\t\"kkkkkk\": 1,\n\t\"kk\": %s,\n}\n" % (e, e),
                    "f(%s,\n\t1,\n\t%s)\n" % (e, e),
                    "type T struct {\n\ta [%s]int // c\n\tbbbbbb int // d\n}\n" % e]
    return [(False, s.encode()) for s in out]


def families():
    return (family_adjacency() + family_comment_layout() + family_comment_sizes() + family_control_clause() +
            family_funclit_width() + family_comment_text_profiles() + family_labeled_empty() + family_multi_parens() + family_tight_width())
