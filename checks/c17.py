"""C17 — every AST node's span is exact and nested (ast/ast.go, ast/ast_gop.go, parser/parser.go).

A  Props/C17.v over the REGENERATED Pos()/End() bodies (K-gen: Gen/AstPos.v from the method bodies of
   ast/ast.go + ast/ast_gop.go and, for the aliased Comment/CommentGroup, GOROOT go/ast; Gen/Tokens.v):
   C17_span_table_ok (vm_compute obligation: every body against its layout template under every valuation
   of the atomic conditions), C17_span_exact (unbounded trees), C17_children_nested_ordered,
   C17_span_ValueSpecTag.
B  K-diff: the extracted interpreter of the generated bodies (pe) vs the real Pos()/End() methods on EVERY
   node of every parsed corpus file and of generated files (File.End, a loop, is modelled by hand; its
   normalised source is hash-checked).
C  span oracle on every file that parses without errors, against the real scanner's tokens: Pos/End are
   token boundaries, children nested and ordered, expression slices re-parse to the same expression.
"""
import os

import vlib

CLAIM = {
    "level": "proof",
    "text": "Coq theorems for trees of any size: the Pos()/End() methods of every node kind except File return exactly "
            "the start of the first and the end of the last present item of the kind's concrete-syntax template, and "
            "when the items of a node are laid out one after the other every child lies inside its parent's span, in "
            "order and without overlap. The method bodies are regenerated from the source on every run and compared "
            "with the templates by a decidable check over all valuations of their conditions (vm_compute). What the "
            "theorems do not cover — that the parser records the positions the templates name, and the re-parse clause "
            "— is explored by a span oracle over every node of the corpus and of generated files.",
    "note": "Modelled, not verified: the Pos/End bodies as an interpreted table (translator/gen_astpos.go; File.End by "
            "hand, hash-checked); tied by comparing Pos()/End() of every node with the extracted interpreter. Templates "
            "are hand-written from the grammar comments (Model/C17.v). Theorem gaps stated in Props/C17.v: File, parser "
            "position recording, re-parse. Known findings (known_findings.txt): c\"...\"/py\"...\" literals, "
            "matrix literal re-parse, command-style "
            "call end, indexed slice literal. Excluded by the Reading: synthesised entry of script files and package "
            "name, nodes inside ${} / domain-text arguments, non-existent FieldLists, implicit semicolons, comments, "
            "FuncDecl.Type starting at 'func' (go/ast convention), command-style calls and operator names for re-parse.",
}

EXTS = (".xgo", ".gox", ".gop", ".spx", ".gsh", ".gmx", ".tspx", ".tgmx", ".go")

# deterministic witnesses of the known root causes (besides the corpus files that contain them)
WITNESSES = [
    b'echo c"hi"\n',                          # R1  c"..." literal: End short by the prefix
    b"f := func() { println x }\n",           # R4  command-style call before a blank and "}"
    b"x := 1 // c\necho x // d\n",            # R4  ... before a trailing comment
    b"echo x  \n",                            # R4  ... before trailing blanks
    b"for {\nL:\n}\n",                        # R6  label before "}": the implicit empty statement
    b"switch x {\ncase 1:\nL:\n}\n",          # R6
    # regression cases of repaired defects
    b"println([1, 2, 3][0])\nx := [1, 2][i]\ny := [a, b][1:]\necho [f(x)][0]!\n",       # R5 (repaired): indexed slice literal
    b"x := f()!:0\ny := g(s)?:(n*2) + 1\nreturn h(a)!:(b + 1), k()!\n",                 # error wrapping with default, both operators
]

CHAN_DIRS = ("chan ", "<-chan ", "chan<- ")


def chan_type(dirs, elem="int"):
    """outermost direction first; `chan` directly before `<-chan` needs parentheses"""
    t = elem
    for d in reversed(dirs):
        t = "chan (" + t + ")" if d == "chan " and t.startswith("<-") else d + t
    return t


def chan_witnesses():
    """every channel type of depth 1-3 with every direction combination (39 types), in type and in
    expression positions: one deterministic source per position"""
    import itertools
    types = [chan_type(ds) for n in (1, 2, 3) for ds in itertools.product(CHAN_DIRS, repeat=n)]
    positions = [
        "v%d := make(%s)", "w%d := (%s)(nil)", "var u%d %s", "f%d := func(a %s) %s { return nil }", "s%d := []%s{}",
        "t%d := x.(%s)", "m%d := map[string]%s{}", "echo make(%s, %d)", "g%d := f(%s)(nil)", "type T%d struct {\n\tC %s\n}",
        "func h%d(a, b %s, c ...%s) (r %s) {\n\treturn\n}", "n%d := new(%s)",
    ]
    out = []
    for p in positions:
        lines = []
        for i, t in enumerate(types):
            k = p.count("%s")
            if p.startswith("echo"):
                lines.append(p % (t, i))
            else:
                lines.append(p % ((i,) + (t,) * k))
        out.append(("\n".join(lines) + "\n").encode())
    return out


# node kinds an error-free parse cannot produce
NOT_PRODUCIBLE = ("Package", "BadExpr", "BadStmt", "BadDecl")
# kinds the generator must not produce (known findings, explored through the corpus): matrix literals (R3)
GEN_EXCLUDED = ("MatrixLit", "ElemEllipsis")

# sha of the normalised source of File.End, which Model/C17.v models by hand
FILE_END_SHA = None


def corpus_files(repo):
    out = []
    for root, dirs, files in os.walk(repo):
        dirs[:] = sorted(d for d in dirs if d != ".git")
        for f in sorted(files):
            if f.endswith(EXTS):
                out.append(os.path.join(root, f))
    return out


def gen_json(ctx, name, ok):
    """JSON side copy of a generator (build/gen<PTAG>, private per worktree); None if the translator failed"""
    if not ok:
        return None
    try:
        return ctx.gen_json(name)
    except Exception:
        return None


def run(ctx):
    gen_ok = ctx.regen(["aststructs", "astpos", "tokens"])
    ctx.prove("C17")
    model = ctx.model("c17")
    impl = ctx.harness("c17")
    jst = gen_json(ctx, "aststructs", True)
    js_kinds = jst["node_order"] if jst else []
    # without the static bodies the run is already broken; the K-diff and the span oracle still search
    pj = gen_json(ctx, "astpos", gen_ok) or {"unparsed": ["<translator failed>"], "bodies": {}}
    # the only body outside the translated fragment must be File.End, and it must be the one modelled by hand
    unparsed = [u.split(":")[0] for u in pj["unparsed"]]
    src = (pj["bodies"].get("File", {}).get("End") or {}).get("src", "")
    want = ("{ if f.ShadowEntry != nil { return f.ShadowEntry.End() } for n := len(f.Decls) - 1; n >= 0; n-- { d := f.Decls[n] "
            "if fn, ok := d.(*FuncDecl); ok && fn.Shadow { continue } return d.End() } if f.Package != token.NoPos { return f.Name.End() } "
            "return f.Name.Pos() }")
    ctx.check_gen_obligation("hand-modelled File.End unchanged", unparsed == ["File.End"] and src == want,
                             "unparsed bodies: %s; File.End source: %s" % (unparsed, src[:300]))

    files = corpus_files(vlib.REPO)
    wit = WITNESSES + chan_witnesses()
    cases = ["src\t" + w.hex() for w in wit] + ["file\t" + p for p in files]
    ngen = ctx.n(600, 40000)
    cases += ["gen\t%d" % (ctx.rng.next() % (1 << 62)) for _ in range(ngen)]
    rc, out = ctx.run([impl, "run"], input="\n".join(cases) + "\n", timeout=600)
    if rc != 0:
        ctx.broken("correspondence(c17:impl-run)", "rc=%d %s" % (rc, out[-400:]))
        return
    lines = out.split("\n")
    if lines and lines[-1] == "":
        lines.pop()
    if len(lines) != len(cases):
        ctx.broken("correspondence(c17:impl-run)", "cases=%d result lines=%d" % (len(cases), len(lines)))
        return
    ctx.log("implementation: %d files parsed, spans taken, oracle run" % len(cases))
    res = [l.split("\t") for l in lines]
    live = [i for i, r in enumerate(res) if r[0] != "-"]
    rc, mout = ctx.run([model], input="\n".join(res[i][0] for i in live) + "\n", timeout=600)
    if rc != 0:
        ctx.broken("correspondence(c17:model-run)", "rc=%d %s" % (rc, mout[-400:]))
        return
    mlines = mout.split("\n")
    if mlines and mlines[-1] == "":
        mlines.pop()
    if len(mlines) != len(live):
        ctx.broken("correspondence(c17:model-run)", "cases=%d model lines=%d" % (len(live), len(mlines)))
        return
    ctx.log("model: Pos/End of every node of %d trees" % len(live))
    def rel(c):
        f = c.split("\t")
        if f[0] == "src":
            return "src:" + vlib.sha(bytes.fromhex(f[1]))
        return c.replace(vlib.REPO + "/", "").replace("\t", ":")
    ctx.diff_lines("pe(pos_bodies)~Pos()/End()", [rel(cases[i]) for i in live],
                   "\n".join(res[i][1] for i in live), "\n".join(mlines))

    # C: the span oracle
    nodes = 0
    stats = {}
    hist = {"file": 0, "file-parse-errors": 0, "gen": 0, "gen-parse-errors": 0, "gen-damaged": 0, "src": 0, "src-parse-errors": 0, "noparse": 0}
    distinct = set()
    nfind = 0
    kinds_by = {}
    for i, r in enumerate(res):
        what = cases[i].split("\t")[0]
        info = r[3] if len(r) > 3 else ""
        if r[0] == "-":
            hist["noparse"] += 1
            continue
        hist[what + ("-parse-errors" if "parse-errors" in info else "-damaged" if "damaged" in info else "")] += 1
        distinct.add(vlib.sha(r[0]))
        for tok in info.split():
            if "=" in tok:
                k, v = tok.split("=")
                if k == "nodes":
                    nodes += int(v)
                else:
                    stats[k] = stats.get(k, 0) + int(v)
        if "parse-errors" not in info and "damaged" not in info and len(r) > 4:
            kh = kinds_by.setdefault(what, {})
            for kv in r[4].split(","):
                if "=" in kv:
                    k, v = kv.split("=")
                    kh[k] = kh.get(k, 0) + int(v)
        if r[2] != "ok":
            for f in r[2].split(";"):
                a, w, detail = (f.split("|", 2) + ["", ""])[:3]
                ident = rel(cases[i])
                if ident.startswith("file:"):
                    ident = ident[5:]
                key = "%s:%s:%s" % (ident, a, w)
                nfind += 1
                ctx.fail(key, "%s: %s %s: %s" % (rel(cases[i]), a, w, detail[:300]), {"case": rel(cases[i]), "finding": f})
    # every node kind an error-free parse can produce must have been explored (oracle + K-diff), and the
    # generator must reach every kind it is allowed to produce
    all_kinds = js_kinds
    total = {}
    for kh in kinds_by.values():
        for k, v in kh.items():
            total[k] = total.get(k, 0) + v
    missing_total = [k for k in all_kinds if k not in NOT_PRODUCIBLE and total.get(k, 0) == 0]
    gen_h = kinds_by.get("gen", {})
    missing_gen = [k for k in all_kinds if k not in NOT_PRODUCIBLE + GEN_EXCLUDED and gen_h.get(k, 0) == 0]
    ctx.check_gen_obligation("every parser-producible node kind explored", not missing_total and not missing_gen,
                             "kinds never seen in an error-free tree: %s; kinds the generator never produced: %s" % (missing_total, missing_gen))
    ctx.cover(evaluations=len(cases), distinct_nontrivial=len(distinct),
              samples=[{"case": rel(cases[i]), "verdict": res[i][2][:200], "info": res[i][3]} for i in (0, len(files) // 2, len(cases) - 1)],
              rule="%d fixed witnesses (root causes R1,R4,R6; every channel type of depth 1-3 x every direction combination x 12 type/expression "
                   "positions) + every corpus file under /repo (%d: %s; .go parsed as XGo) + %d generated XGo files (grammar-based, every producible node kind: "
                   "channel types in type and expression position, slice/map literals, "
                   "lambdas, error wrapping, ranges, comprehensions, env expressions, units, interpolation, command calls, statements; ~10%% "
                   "damaged; NOT generated, known findings explored through the corpus: c/py string literals, matrix literals, "
                   "command call + blank + '}', label before '}'); non-trivial = distinct exported tree" % (len(wit), len(files), ",".join(EXTS), ngen),
              nodes_compared=nodes, oracle_stats=stats, node_kind_histogram_generated=dict(sorted(gen_h.items())),
              node_kind_histogram_corpus=dict(sorted(kinds_by.get("file", {}).items())),
              node_kind_histogram_witnesses=dict(sorted(kinds_by.get("src", {}).items())),
              kinds_not_producible=list(NOT_PRODUCIBLE), kinds_not_generated=list(GEN_EXCLUDED), input_shape_histogram=hist, oracle_findings=nfind,
              static_gen="ok" if gen_ok else "unparsed", unparsed_bodies=unparsed)
    ctx.trust("modelled, not verified: the Pos()/End() methods as the interpreter Model/C17.v:pe over the generated bodies; File.End modelled by hand",
              "the span oracle uses the real scanner (scanner.Scanner) for token boundaries and parser.ParseExpr for the re-parse clause",
              "harness/internal/astx reflection export and child enumeration")
    ctx.assume("trees satisfy the side conditions of their templates (good_tree: mandatory children present, paired parentheses ...)",
               "the parser records in each position field the start of the token the template names (explored by the oracle, not proved)")
