"""C17 — every AST node's span is exact and nested (ast/ast.go, ast/ast_gop.go, parser/parser.go).

A  Props/C17.v over the REGENERATED Pos()/End() bodies (K-gen: Gen/AstPos.v from the method bodies of
   ast/ast.go + ast/ast_gop.go and, for the aliased Comment/CommentGroup, GOROOT go/ast; Gen/Tokens.v):
   C17_span_table_ok (vm_compute obligation: every body against its layout template under every valuation
   of the atomic conditions), C17_span_exact (unbounded trees), C17_children_nested_ordered,
   C17_span_refuted_ValueSpecTag.
B  K-diff: the extracted interpreter of the generated bodies (pe) vs the real Pos()/End() methods on EVERY
   node of every parsed corpus file and of generated files (File.End, a loop, is modelled by hand; its
   normalised source is hash-checked).
C  span oracle on every file that parses without errors, against the real scanner's tokens: Pos/End are
   token boundaries, children nested and ordered, expression slices re-parse to the same expression.
"""
import os

import vlib

CLAIM = {
    "level": "proof",
    "text": "Coq theorems for trees of any size: the Pos()/End() methods of every node kind except File return exactly "
            "the start of the first and the end of the last present item of the kind's concrete-syntax template, and "
            "when the items of a node are laid out one after the other every child lies inside its parent's span, in "
            "order and without overlap. The method bodies are regenerated from the source on every run and compared "
            "with the templates by a decidable check over all valuations of their conditions (vm_compute). What the "
            "theorems do not cover — that the parser records the positions the templates name, and the re-parse clause "
            "— is explored by a span oracle over every node of the corpus and of generated files.",
    "note": "Modelled, not verified: the Pos/End bodies as an interpreted table (translator/gen_astpos.go; File.End by "
            "hand, hash-checked); tied by comparing Pos()/End() of every node with the extracted interpreter. Templates "
            "are hand-written from the grammar comments (Model/C17.v). Theorem gaps stated in Props/C17.v: File, parser "
            "position recording, re-parse. Known findings (known_findings.d/C17.txt): c\"...\"/py\"...\" literals, classfile "
            "field tags (also refuted in the model: C17_span_refuted_ValueSpecTag), matrix literal re-parse, command-style "
            "call end, indexed slice literal. Excluded by the Reading: synthesised entry of script files and package "
            "name, nodes inside ${} / domain-text arguments, non-existent FieldLists, implicit semicolons, comments, "
            "FuncDecl.Type starting at 'func' (go/ast convention), command-style calls and operator names for re-parse.",
}

EXTS = (".xgo", ".gox", ".gop", ".spx", ".gsh", ".gmx", ".tspx", ".tgmx", ".go")

# deterministic witnesses of the known root causes (besides the corpus files that contain them)
WITNESSES = [
    b'echo c"hi"\n',                          # R1  c"..." literal: End short by the prefix
    b"f := func() { println x }\n",           # R4  command-style call before a blank and "}"
    b"x := 1 // c\necho x // d\n",            # R4  ... before a trailing comment
    b"echo x  \n",                            # R4  ... before trailing blanks
    b"for {\nL:\n}\n",                        # R6  label before "}": the implicit empty statement
    b"switch x {\ncase 1:\nL:\n}\n",          # R6
]
# sha of the normalised source of File.End, which Model/C17.v models by hand
FILE_END_SHA = None


def corpus_files(repo):
    out = []
    for root, dirs, files in os.walk(repo):
        dirs[:] = sorted(d for d in dirs if d != ".git")
        for f in sorted(files):
            if f.endswith(EXTS):
                out.append(os.path.join(root, f))
    return out


def private_json(ctx, gens):
    """The translator's JSON side copies, regenerated into this run's scratch directory
    (build/gen is shared between concurrent runs, also with private worktrees)."""
    import json
    d = os.path.join(ctx.scratch, "genjson")
    rc, out = ctx.run([os.path.join(vlib.BIN, "translator"), "-repo", vlib.REPO, "-out", os.path.join(ctx.scratch, "genv"),
                       "-json", d] + list(gens), cwd=vlib.REPO, timeout=300)
    if rc != 0:
        ctx.broken("translator(%s)" % ",".join(gens), out[-800:])
        return None, d
    return {g: json.load(open(os.path.join(d, g + ".json"))) for g in gens}, d


def run(ctx):
    gen_ok = ctx.regen(["aststructs", "astpos", "tokens"])
    ctx.prove("C17")
    model = ctx.model("c17")
    impl = ctx.harness("c17")
    js, jdir = private_json(ctx, ["astpos"])
    # without the static bodies the run is already broken; the K-diff and the span oracle still search
    pj = js["astpos"] if js else {"unparsed": ["<translator failed>"], "bodies": {}}
    # the only body outside the translated fragment must be File.End, and it must be the one modelled by hand
    unparsed = [u.split(":")[0] for u in pj["unparsed"]]
    src = (pj["bodies"].get("File", {}).get("End") or {}).get("src", "")
    want = ("{ if f.ShadowEntry != nil { return f.ShadowEntry.End() } for n := len(f.Decls) - 1; n >= 0; n-- { d := f.Decls[n] "
            "if fn, ok := d.(*FuncDecl); ok && fn.Shadow { continue } return d.End() } if f.Package != token.NoPos { return f.Name.End() } "
            "return f.Name.Pos() }")
    ctx.check_gen_obligation("hand-modelled File.End unchanged", unparsed == ["File.End"] and src == want,
                             "unparsed bodies: %s; File.End source: %s" % (unparsed, src[:300]))

    files = corpus_files(vlib.REPO)
    cases = ["src\t" + w.hex() for w in WITNESSES] + ["file\t" + p for p in files]
    ngen = ctx.n(800, 40000)
    cases += ["gen\t%d" % (ctx.rng.next() % (1 << 62)) for _ in range(ngen)]
    rc, out = ctx.run([impl, "run"], input="\n".join(cases) + "\n", timeout=600)
    if rc != 0:
        ctx.broken("correspondence(c17:impl-run)", "rc=%d %s" % (rc, out[-400:]))
        return
    lines = out.split("\n")
    if lines and lines[-1] == "":
        lines.pop()
    if len(lines) != len(cases):
        ctx.broken("correspondence(c17:impl-run)", "cases=%d result lines=%d" % (len(cases), len(lines)))
        return
    ctx.log("implementation: %d files parsed, spans taken, oracle run" % len(cases))
    res = [l.split("\t") for l in lines]
    live = [i for i, r in enumerate(res) if r[0] != "-"]
    rc, mout = ctx.run([model], input="\n".join(res[i][0] for i in live) + "\n", timeout=600)
    if rc != 0:
        ctx.broken("correspondence(c17:model-run)", "rc=%d %s" % (rc, mout[-400:]))
        return
    mlines = mout.split("\n")
    if mlines and mlines[-1] == "":
        mlines.pop()
    if len(mlines) != len(live):
        ctx.broken("correspondence(c17:model-run)", "cases=%d model lines=%d" % (len(live), len(mlines)))
        return
    ctx.log("model: Pos/End of every node of %d trees" % len(live))
    def rel(c):
        f = c.split("\t")
        if f[0] == "src":
            return "src:" + vlib.sha(bytes.fromhex(f[1]))
        return c.replace(vlib.REPO + "/", "").replace("\t", ":")
    ctx.diff_lines("pe(pos_bodies)~Pos()/End()", [rel(cases[i]) for i in live],
                   "\n".join(res[i][1] for i in live), "\n".join(mlines))

    # C: the span oracle
    nodes = 0
    stats = {}
    hist = {"file": 0, "file-parse-errors": 0, "gen": 0, "gen-parse-errors": 0, "gen-damaged": 0, "src": 0, "src-parse-errors": 0, "noparse": 0}
    distinct = set()
    nfind = 0
    for i, r in enumerate(res):
        what = cases[i].split("\t")[0]
        info = r[3] if len(r) > 3 else ""
        if r[0] == "-":
            hist["noparse"] += 1
            continue
        hist[what + ("-parse-errors" if "parse-errors" in info else "-damaged" if "damaged" in info else "")] += 1
        distinct.add(vlib.sha(r[0]))
        for tok in info.split():
            if "=" in tok:
                k, v = tok.split("=")
                if k == "nodes":
                    nodes += int(v)
                else:
                    stats[k] = stats.get(k, 0) + int(v)
        if r[2] != "ok":
            for f in r[2].split(";"):
                a, w, detail = (f.split("|", 2) + ["", ""])[:3]
                ident = rel(cases[i])
                if ident.startswith("file:"):
                    ident = ident[5:]
                key = "%s:%s:%s" % (ident, a, w)
                nfind += 1
                ctx.fail(key, "%s: %s %s: %s" % (rel(cases[i]), a, w, detail[:300]), {"case": rel(cases[i]), "finding": f})
    ctx.cover(evaluations=len(cases), distinct_nontrivial=len(distinct),
              samples=[{"case": rel(cases[i]), "verdict": res[i][2][:200], "info": res[i][3]} for i in (0, len(files) // 2, len(cases) - 1)],
              rule="every corpus file under /repo (%d: %s; .go parsed as XGo) + %d generated XGo files (grammar-based: slice/map literals, "
                   "lambdas, error wrapping, ranges, comprehensions, env expressions, units, interpolation, command calls, statements; ~10%% "
                   "damaged; NOT generated, known findings explored through the corpus: c/py string literals, classfile tags, matrix literals, "
                   "command call + blank + '}', indexed slice literals); non-trivial = distinct exported tree" % (len(files), ",".join(EXTS), ngen),
              nodes_compared=nodes, oracle_stats=stats, input_shape_histogram=hist, oracle_findings=nfind,
              static_gen="ok" if gen_ok else "unparsed", unparsed_bodies=unparsed)
    ctx.trust("modelled, not verified: the Pos()/End() methods as the interpreter Model/C17.v:pe over the generated bodies; File.End modelled by hand",
              "the span oracle uses the real scanner (scanner.Scanner) for token boundaries and parser.ParseExpr for the re-parse clause",
              "harness/internal/astx reflection export and child enumeration")
    ctx.assume("trees satisfy the side conditions of their templates (good_tree: mandatory children present, paired parentheses ...)",
               "the parser records in each position field the start of the token the template names (explored by the oracle, not proved)")
