"""C27 — grammar compilation never panics (tpl.New / cl.NewEx / compileExpr / Token.Len).

A  K-gen: Gen/Tokens.v (tpl tokens table, Token.Len body) and Gen/TplCl.v (idents map, special
   names) regenerated from /repo; Props/C27.v: C27_token_len_total (vm_compute over 0..255 on the
   regenerated Len), C27_check_token_range, C27_compile_expr_no_panic, C27_compile_no_panic,
   C27_new_no_panic
B  extracted parse_file -> compile  vs  tpl.New: outcome class (parse error / compile error /
   compiled / panic) on: every byte value in CHAR and STRING literals (\\x, octal, raw and backquote
   forms), every operator spelling of the table and near-misses, identifiers of the idents table and
   undefined ones, duplicate / self-referencing / mutually recursive rules, malformed grammar texts
C  direct oracle: a panic escaping tpl.New on any of these texts; tpl.New accepting an unparsable text
"""
from checks import tplm
from checks import c31 as g31

CLAIM = {
    "level": "proof",
    "text": "Token.Len and the tokens table are regenerated from tpl/token/token.go and the identifier table from "
            "tpl/cl/compile.go on every run; Coq proves Len total on all 256 byte values and on every token checkToken can "
            "return, and that the line-by-line model of compileExpr/tokenExpr/checkToken/NewEx returns a compiler or an error "
            "(never panics) for every parsed grammar (any tree without nil operand, any rule names, any literals), composed with "
            "C31's 'no parse error => no nil operand'. The model is tied to tpl.New by a differential run over all byte values x "
            "literal forms, all operator spellings, and malformed grammars, with recover in the harness.",
    "note": "Trusted: Coq kernel, translator, extraction, harness. strconv.Unquote/UnquoteChar are not modelled (their results "
            "are model inputs; assumed: non-multibyte rune < 256, strings are bytes). Two panics exist in compileExpr for trees "
            "the parser only returns together with an error (nil operand, 1-byte CHAR literal); tpl.New never reaches them "
            "(theorem C27_new_no_panic), cl.NewEx called directly on a hand-built AST could.",
}


def literal_cases():
    out = []
    for b in range(256):
        forms = ["'\\x%02x'" % b, "'\\%03o'" % b, '"\\x%02x"' % b, '"\\%03o"' % b]
        if 0x20 <= b < 0x7f:
            c = chr(b)
            if c not in "'\\":
                forms.append("'%s'" % c)
            if c not in '"\\':
                forms.append('"%s"' % c)
            if c != "`":
                forms.append("`%s`" % c)
        for f in forms:
            out.append(("byte-literal", ("doc = %s\n" % f).encode()))
    for b in (0x80, 0x9e, 0xc3, 0xff):      # raw non-ASCII bytes inside literals (invalid UTF-8 / multibyte)
        out.append(("byte-literal", b"doc = '" + bytes([b]) + b"'\n"))
        out.append(("byte-literal", b'doc = "' + bytes([b]) + b'"\n'))
        out.append(("byte-literal", b"doc = `" + bytes([b]) + b"`\n"))
    return out


def run(ctx):
    ctx.regen(["tokens", "tplcl", "tplfirst"])
    ctx.prove("C27")
    rng = ctx.rng
    cases = literal_cases()
    # operator spellings of the regenerated table, and near misses
    try:
        tj = ctx.gen_json("tokens")["tpl_"]
        spellings = sorted(set(v for v in tj["spelling"].values() if v))
    except Exception:
        spellings = sorted(tplm.OPS)
    ctx.notes["spellings_from_table"] = len(spellings)
    for s in spellings:
        for f in ('"%s"' % s, '"%s%s"' % (s, s[-1]), '"%s"' % s[:-1], '"%s "' % s):
            cases.append(("spelling", ("doc = %s\n" % f).encode()))
        if len(s) == 1 and s not in "'\\":
            cases.append(("spelling", ("doc = '%s'\n" % s).encode()))
    for s in ["", "''", "'ab'", "'\\u00e9'", "'\\''", '"\\u00e9"', '"é"', "'é'", '"\\"', "'\\", '"if"', '"_x"', '"9"', '"a+"',
              '"\\n"', "'\\n'", "'\\0'", '"\\x"', "'\\x9'", "`", "'", '"', "'\\777'", '"\\400"']:
        cases.append(("odd-literal", ("doc = %s\n" % s).encode()))
    idents = ["EOF", "COMMENT", "IDENT", "INT", "FLOAT", "IMAG", "CHAR", "STRING", "RAT", "UNIT", "LPAREN", "RPAREN", "LBRACK",
              "RBRACK", "LBRACE", "RBRACE", "RAWSTRING", "QSTRING", "SPACE", "ILLEGAL", "SEMICOLON", "ADD", "undefined", "doc", "_"]
    for s in idents:
        cases.append(("ident", ("doc = %s\n" % s).encode()))
        cases.append(("ident", ("doc = *%s | INT\n" % s).encode()))
    for t in ["doc = doc\n", "doc = doc | INT\n", 'doc = doc "+" INT\n', "doc = a\na = doc | INT\n", "doc = a | b\na = b\nb = a\n",
              "doc = INT\ndoc = IDENT\n", "doc = INT\na = b\n", "a = b\nb = INT | a\n", "doc = (a | INT) a\na = ?doc IDENT | STRING\n",
              "doc = x\n", "doc = INT\ndoc = x\n", "x = \n", "doc = *(a | b)\na = ?b INT\nb = IDENT | a\n", "doc = INT % doc ++ doc\n",
              "doc = *?INT\n", "doc = *(?IDENT)\n", "doc = +\"\"\n", "doc = INT => { return 1 }\n", "doc = INT | INT | \"x\" | IDENT\n"]:
        cases.append(("rules", t.encode()))
    # left recursion hidden behind nullable prefixes: the compile verdict (RecursiveError) must agree with the model
    for rules in tplm.leftrec_family():
        cases.append(("hidden-leftrec", tplm.grammar_text(rules).encode()))
    # a rule whose body fails to compile x a reference to it that a later pass (CheckConflicts / First) reaches:
    # every error kind of compileExpr combined with every reference context
    BROKEN = ['"@@"', '"=:="', "'\\u00e9'", "'é'", "'a'", '"9"', "'\\x9e'", '"é"', 'INT "@@"', '?"@@"', '*\'a\'', '"@@" | INT', 'INT | "@@"',
              'INT % "@@"', '"@@" % ","', 'IDENT ++ "@@"', '("@@")', '+("=:=" IDENT)', 'undefinedName', 'undefinedName "@@"']
    CONTEXTS = ['doc = a | INT\n', 'doc = INT | a\n', 'doc = INT | ?"x" a\n', 'doc = INT | *"x" a IDENT\n', 'doc = *a | INT\n',
                'doc = +a | INT\n', 'doc = ?a STRING | INT\n', 'doc = a % "," | INT\n', 'doc = (?"x" % a) | INT\n',
                'doc = a ++ IDENT | INT\n', 'doc = b | INT\nb = ?"x" a\n', 'doc = b | INT\nb = a | STRING\n', 'doc = INT (a | STRING)\n',
                'doc = INT *(a "," | STRING)\n', 'doc = INT a | STRING\n', 'doc = a\n', 'doc = INT | "" a\n', 'doc = INT | SPACE a\n']
    for ctxg in CONTEXTS:
        for body in BROKEN:
            cases.append(("broken-rule-x-reference", (ctxg + "a = " + body + "\n").encode()))
            cases.append(("broken-rule-x-reference", ("a = " + body + "\n" + ctxg).encode()))     # the broken rule declared first
    nfixed = len(cases)
    # malformed grammar texts: C31's malformed stream + mutated structured grammars
    for t in g31.MISSING:
        cases.append(("malformed-list", t.encode()))
    for _ in range(ctx.n(1200, 60000)):
        k = rng.below(10)
        if k < 2:
            # seeded: a random grammar one of whose rules is replaced by a broken body
            rules = tplm.gen_grammar(rng, recursive=True)
            lines = ["%s = %s" % (n, " ".join(tplm.words(e))) for n, e in rules]
            j = rng.below(len(lines))
            lines[j] = "%s = %s" % (rules[j][0], rng.choice(BROKEN))
            if len(lines) > 1 and rng.below(2):
                lines[0] += " | " + rules[j][0]
            text = ("\n".join(lines) + "\n").encode()
            cat = "broken-rule-seeded"
        elif k < 5:
            rules = tplm.gen_grammar(rng, recursive=True)
            ws = []
            for n, e in rules:
                ws += [n, "="] + tplm.words(e) + [";"]
            text = " ".join(g31.mutate(rng, ws)).encode()
            cat = "mutated-grammar"
        elif k < 7:
            text = tplm.grammar_text(tplm.gen_grammar(rng, recursive=True)).encode()
            cat = "recursive-grammar"
        elif k < 9:
            text = ("doc = " + " ".join(rng.choice(g31.VOCAB + ["INT", "IDENT", '"+"', "'\\x9e'", '"<<"', "x"]) for _ in range(1 + rng.below(10)))).encode()
            cat = "token-soup"
        else:
            base = bytearray(tplm.grammar_text(tplm.gen_grammar(rng)).encode())
            for _ in range(1 + rng.below(3)):
                base.insert(rng.below(len(base) + 1), rng.choice(g31.BYTES))
            text = bytes(base)
            cat = "random-bytes"
        cases.append((cat, text))

    model = ctx.model("tplm")
    impl = ctx.harness("tplm")
    inp = "".join("%s\t\n" % t.hex() for _, t in cases)
    rc, out = ctx.run([impl, "-mode", "scan"], input=inp)
    if rc != 0:
        ctx.broken("correspondence(c27:scan)", "rc=%d %s" % (rc, out[-300:]))
        return
    mlines = out.split("\n")[:len(cases)]
    rc2, out2 = ctx.run([model, "compile"], input="\n".join(mlines) + "\n")
    rc3, out3 = ctx.run([impl, "-mode", "compile"], input=inp)
    if rc2 != 0 or rc3 != 0:
        ctx.broken("correspondence(c27:run)", "model rc=%d impl rc=%d %s %s" % (rc2, rc3, out2[-300:], out3[-300:]))
        return
    rows = [l.split("\t") for l in out3.split("\n")[:len(cases)]]
    mout = [l.split("\t")[0] for l in out2.split("\n")[:len(cases)]]
    keys = [tplm.key_of(t, b"") for _, t in cases]
    ctx.diff_lines("compile~tpl.New", ["%s %r" % (k, t) for k, (_, t) in zip(keys, cases)],
                   "\n".join(r[0] for r in rows), "\n".join(mout))
    # the scanner-output assumption of C27_new_no_panic: a CHAR word of a grammar scanned without error has >= 2 bytes
    for (cat, t), ml in zip(cases, mlines):
        if not ml.startswith("!"):
            for w in ml.split("\t")[0].split(" "):
                if w.startswith("c") and len(w.split("~")[0]) < 1 + 4:
                    ctx.broken("assumption(char-literal-has-two-quotes)", "scanner returned CHAR %s without error for %r" % (w, t))
    outcome, hist = {}, {}
    for k, (cat, t), r in zip(keys, cases, rows):
        outcome[r[0]] = outcome.get(r[0], 0) + 1
        hist[cat] = hist.get(cat, 0) + 1
        if len(r) < 2 or r[1] != "ok":
            ctx.fail(k, "tpl.New(%r): %s" % (t.decode("utf-8", "replace"), r[1] if len(r) > 1 else r[0]),
                     {"grammar_text": t.decode("utf-8", "replace"), "text_hex": t.hex(), "impl": r[0], "verdict": r[1:] and r[1]})
    ctx.cover(evaluations=len(cases), distinct_nontrivial=len(set(t for c, t in cases if c != "byte-literal")) + 256,
              samples=[{"text": cases[i][1].decode("utf-8", "replace"), "impl": rows[i][0], "category": cases[i][0]}
                       for i in (0x9e * 4, nfixed - 3, nfixed + 60, len(cases) - 1)],
              rule="all 256 byte values in CHAR and STRING literals as \\xHH and \\OOO, printable ones also raw and in backquotes, raw "
                   "non-ASCII bytes; every spelling of the regenerated tokens table (%d) as \"s\", with last char doubled, truncated, "
                   "with a blank, and as 's'; odd literals; every identifier of the idents table, undefined ones; duplicate / "
                   "self- / mutually-recursive rules; 20 kinds of rule bodies that fail to compile x 18 reference contexts (first item of a choice "
                   "alternative, after nullable items, inside * + ? %% ++, through a second rule, nested choice, unreachable) in both "
                   "declaration orders; 160 grammars with left recursion hidden behind nullable prefixes; C31's missing-factor texts; seeded: mutated structured grammars, recursive "
                   "grammars, token soups, random bytes. non-trivial = distinct text outside the byte-literal family + the 256 byte "
                   "values." % len(spellings),
              outcome_histogram=outcome, category_histogram=hist, fixed_part=nfixed)
    ctx.trust("modelled, not verified: tpl/cl/compile.go compileExpr/tokenExpr/checkToken/NewEx (hand-written Gallina model); "
              "K-gen: tpl/token Token.Len + tokens table, tpl/cl idents map and special names (translated on every run)")
    ctx.assume("strconv.UnquoteChar reports multibyte=false only for values < 256; strconv.Unquote returns a byte string",
               "a CHAR token that tpl/scanner returns without reporting an error is at least 2 bytes long (checked on every case of this run)")
