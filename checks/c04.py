"""C04 — a range expression start:end:step denotes the same integer sequence in every context.

K-gen  h_c04 compiles template programs with the real compiler and reads the emitted `for`
       statement (init / Cond.Op / Post.Tok / temporaries) and the NewRange__0 call;
       translator `rangeloop` cross-checks that with cl/stmt.go:toForStmt / cl/expr.go:
       compileRangeExpr and writes Gen/RangeLoop.v; the theorems are re-checked against it
A      Props/C04.v
B      ONE program containing every context as a function of (start,end,step) + literal
       instances, compiled by the real compiler, built with `go build`, run over the full grid;
       printed sequences vs the extracted model (run_shape / iter_of_args)
C      the property itself on the implementation's output: all contexts print the same sequence
       (step != 0); omitted start/step = explicit 0/1
"""
import json
import os
import shutil

import vlib

CLAIM = {
    "level": "proof",
    "text": "Coq theorems over the regenerated shape of the `for` loop that cl/stmt.go:toForStmt emits and a "
            "line-by-line model of the runtime iterator qiniu/x/xgo.IntRange: for every start, end and step > 0 "
            "(unbounded, with a proved fuel bound) for-in, for-range (:= and =, identifier and computed operands, "
            "with filter) and the comprehension enumerate the same arithmetic progression; omitted start = 0, "
            "omitted step = 1; for step < 0 the theorem C04_negative_step_characterised states exactly how the "
            "contexts differ (known finding, witness (5,0,-1)). The model is tied to the code on every run by "
            "regenerating the loop shape from the compiler's output (cross-checked against the source of "
            "toForStmt/compileRangeExpr) and by running one compiled program over the full grid [-6..6]^3 in "
            "8 contexts + literal instances against the extracted model.",
    "note": "Integers are Z (no overflow, as in the property's reading). The iterator (module qiniu/x, outside "
            "/repo) and gogen's `for it := X.Gop_Enum(); ; { v, ok := it.Next() ...}` protocol are hand-modelled "
            "and tied only by the differential run. Loop bodies that assign to the loop variable or to the "
            "operands are outside the model. Trusted: Coq kernel, extraction, harness, Go toolchain.",
}

CAP = 30
CTX_G = ["forin", "forrange", "forassign", "forincomp", "forassigncomp", "forincond", "compr", "comprcomp"]
STMT = CTX_G[:6]
COMPR = CTX_G[6:]


def parse(line):
    d = {}
    for f in line.split():
        if "=" in f:
            k, v = f.split("=", 1)
            d[k] = v
    return d


def klass(s, e, st):
    a = "st>0" if st > 0 else ("st<0" if st < 0 else "st=0")
    b = "s<e" if s < e else ("s=e" if s == e else "s>e")
    c = ""
    if st != 0 and s != e:
        c = " div" if (e - s) % st == 0 else " nondiv"
    return "%s %s%s" % (a, b, c)


def gomod(repo):
    req = ""
    for l in open(os.path.join(repo, "go.mod")):
        if "github.com/qiniu/x " in l:
            req = l.strip()
    return ("module c04grid\n\ngo 1.18\n\nrequire (\n\tgithub.com/goplus/xgo v0.0.0\n\t%s\n)\n\n"
            "replace github.com/goplus/xgo => %s\n" % (req, repo))


def run(ctx):
    impl = ctx.harness("c04")
    d = os.path.join(ctx.scratch, "grid")
    os.makedirs(d)
    open(os.path.join(d, "go.mod"), "w").write(gomod(vlib.REPO))
    shutil.copy(os.path.join(vlib.REPO, "go.sum"), os.path.join(d, "go.sum"))

    # ---- cases
    R = ctx.n(6, 20)
    rng = range(-R, R + 1)
    grid = [(s, e, st) for s in rng for e in rng for st in rng]
    for _ in range(ctx.n(300, 20000)):   # seeded, beyond the grid (longer spans, larger steps)
        grid.append((ctx.rng.below(121) - 60, ctx.rng.below(121) - 60, ctx.rng.below(41) - 20))
    defs = [(s, e, 0) for s in range(-6, 7) for e in range(-6, 7)]
    lits = [(s, e, st) for s in (-3, 0, 2, 5) for e in (-3, 0, 2, 5) for st in (-2, -1, 1, 2, 3)]
    for _ in range(ctx.n(40, 200)):
        st = ctx.rng.below(12) - 6
        lits.append((ctx.rng.below(13) - 6, ctx.rng.below(13) - 6, st if st != 0 else 7))
    if ctx.replay:
        try:
            r = json.load(open(ctx.replay)).get("replay", {})
            grid.insert(0, (int(r["s"]), int(r["e"]), int(r["st"])))
        except Exception as ex:  # noqa
            ctx.log("replay file not understood:", ex)
    open(os.path.join(d, "lits.txt"), "w").write("".join("%d %d %d\n" % t for t in lits))

    # ---- K-gen: shape of the emitted code (dynamic) + source cross-check (static) -> Gen/RangeLoop.v
    dyn_path = os.path.join(vlib.BUILD, "gen", "rangeloop_dyn.json") if not vlib.PRIVATE else os.path.join(d, "shape.json")
    os.makedirs(os.path.dirname(dyn_path), exist_ok=True)
    ctx.log("phase: gen: templates + grid program")
    rc, out = ctx.run([impl, "gen", "-dir", d, "-lits", os.path.join(d, "lits.txt"), "-shape", dyn_path], cwd=d, timeout=300)
    compiled = rc == 0
    if not compiled:
        ctx.broken("translator(rangeloop: compile templates / grid program with the real compiler)", out[-1500:])
    else:
        ctx.regen(["rangeloop"])
        try:
            gen = ctx.gen_json("rangeloop")
            same = gen["dynamic"] == json.load(open(dyn_path))
            ctx.check_gen_obligation("rangeloop: emitted loop shape = shape Gen/RangeLoop.v was written from", same,
                                     "the compiler now emits a different loop for the templates: %s" % json.dumps(json.load(open(dyn_path))["loops"].get("forin_ident")))
            if gen["static"].get("unparsed"):
                ctx.notes["static_gen"] = "unparsed: " + "; ".join(gen["static"]["unparsed"])
        except Exception as ex:  # noqa
            ctx.broken("table-obligation(rangeloop.json)", str(ex))

    # ---- A
    ctx.log("phase: prove")
    ok = ctx.prove("C04")
    for name in ("gen_shapes_full", "gen_shapes_defaults", "gen_shapes_nostep", "gen_ranges_full", "gen_ranges_defaults", "gen_ranges_nostep"):
        ctx.obligations += 1
        ctx.discharged += 1 if ok else 0
    model = ctx.model("c04")

    # ---- B: build and run the compiled grid program
    ctx.log("phase: go build + run")
    cases = ["G %d %d %d" % t for t in grid] + ["D %d %d %d" % t for t in defs] + ["L %d 0 0" % k for k in range(len(lits))]
    mcases = ["G %d %d %d" % t for t in grid] + ["D %d %d %d" % t for t in defs] + ["L %d %d %d" % t for t in lits]
    triples = grid + defs + lits
    impl_lines = None
    if compiled:
        rc, out = ctx.run("go build -o prog . 2>&1", cwd=d, timeout=300)
        if rc != 0:
            # the compiler produced Go that does not build: every case fails to run
            ctx.broken("correspondence(c04: go build of the compiled grid program)", out[-1500:])
        else:
            rc, out = ctx.run([os.path.join(d, "prog")], input="\n".join(cases) + "\n", timeout=120)
            impl_lines = out.splitlines()
            if rc != 0 or len(impl_lines) != len(cases):
                # the program died or hung: the case after the last complete line is the input that does it
                k = min(len(impl_lines), len(cases) - 1)
                ctx.broken("correspondence(c04: run of the grid program)", "rc=%d after %d of %d cases; next case: %s" % (rc, len(impl_lines), len(cases), cases[k]))
                s_, e_, st_ = (grid + defs + lits)[k]
                ctx.fail("range:crash:%d:%d:%d" % (s_, e_, st_), "the compiled program crashes / does not terminate / exhausts memory on case `%s` (start:end:step = %d:%d:%d)" % (cases[k], s_, e_, st_),
                         {"s": s_, "e": e_, "st": st_, "case": cases[k], "rc": rc})
                impl_lines = impl_lines[:k]
    rc2, mout = ctx.run([model], input="\n".join(mcases) + "\n")
    if rc2 != 0:
        ctx.broken("correspondence(c04: model run)", mout[-500:])
        return
    if impl_lines is None:
        return
    mlines = mout.splitlines()
    if len(impl_lines) == len(mcases):
        ctx.diff_lines("run_shape/iter_of_args~compiled program", mcases, "\n".join(impl_lines), mout)
    else:
        ctx.diff_lines("run_shape/iter_of_args~compiled program (cases before the crash)", mcases[:len(impl_lines)], "\n".join(impl_lines), "\n".join(mlines[:len(impl_lines)]))

    # ---- C: direct oracle on the implementation's output
    hist, nontriv, seen = {}, set(), set()
    explicit = {}
    for (s, e, st), c, l in zip(triples, cases, impl_lines):
        v = parse(l)
        tag = c[0]
        if tag == "G":
            k = klass(s, e, st)
            hist[k] = hist.get(k, 0) + 1
            explicit[(s, e, st)] = v.get("forin")
        if (tag, s, e, st) in seen:
            continue
        seen.add((tag, s, e, st))
        if any(x not in ("[]", "DIV", "PANIC") for x in v.values()):
            nontriv.add((tag, s, e, st))
        if tag in ("G", "L"):
            if st == 0:
                continue   # excluded by the property (K-diff still compares the model on it)
            vals = set(v.values())
            if len(vals) > 1 or "PANIC" in vals or not v:
                stm = set(v[x] for x in STMT if x in v)
                com = set(v[x] for x in COMPR if x in v)
                if st < 0 and stm == {"[]"} and len(com) == 1 and s > e:
                    key = "negstep:statement-contexts-empty,comprehension-counts-down"
                elif st < 0 and stm == {"DIV"} and com == {"[]"} and s < e:
                    key = "negstep:statement-contexts-do-not-terminate,comprehension-empty"
                else:
                    key = "range:%d:%d:%d" % (s, e, st)
                ctx.fail(key, "start:end:step = %d:%d:%d enumerates differently by context: %s" % (s, e, st, l),
                         {"s": s, "e": e, "st": st, "literal_operands": tag == "L", "impl": l})
        else:  # D: omitted start / step against the explicit forms
            want0 = explicit.get((0, e, 1))
            wants = explicit.get((s, e, 1))
            if want0 is not None and (v.get("fordef") != want0 or v.get("comprdef") != want0):
                ctx.fail("defaults::%d" % e, "`:%d` differs from `0:%d:1`: %s vs %s" % (e, e, l, want0), {"e": e, "impl": l})
            if wants is not None and (v.get("fornostep") != wants or v.get("comprnostep") != wants):
                ctx.fail("defaults:%d:%d" % (s, e), "`%d:%d` differs from `%d:%d:1`: %s vs %s" % (s, e, s, e, l, wants), {"s": s, "e": e, "impl": l})

    ngrid = (2 * R + 1) ** 3
    ctx.cover(evaluations=len(impl_lines), distinct_nontrivial=len(nontriv),
              samples=[{"case": mcases[i], "impl": impl_lines[i]} for i in (5 * (2 * R + 1) ** 2 + 9, ngrid // 2 + 3, len(grid) + 20, len(cases) - 3) if i < len(impl_lines)],
              rule="one compiled program, 8 contexts as functions of (start,end,step): exhaustive grid [-%d..%d]^3 incl. step 0 (%d), "
                   "%d seeded triples in [-60..60]^2 x [-20..20]; omitted start/step forms for 169 (start,end); %d literal-operand "
                   "instances (80 fixed + seeded) in 3 contexts; sequences longer than %d are reported as DIV on both sides; "
                   "non-trivial = distinct case where some context yields a non-empty sequence; step 0 is compared with the model "
                   "but excluded from the property oracle" % (R, R, ngrid, len(grid) - ngrid, len(lits), CAP),
              exhaustive=True, exhaustive_part=ngrid, input_class_histogram=dict(sorted(hist.items())))
    ctx.assume("integers are mathematical (Z): no overflow of start + k*step (the grid stays far inside int)",
               "the loop body does not assign to the loop variable nor to identifier operands of the range expression")
    ctx.trust("modelled, not verified: cl/stmt.go toForStmt (shape regenerated from the compiler's output on every run), "
              "cl/expr.go compileRangeExpr (argument order regenerated), github.com/qiniu/x/xgo IntRange.Gop_Enum / intRangeIter.Next "
              "(hand-written model, outside /repo), gogen's lowering of `for v <- X` over an object with Gop_Enum (iterator protocol)")
