"""MiniGo programs for C25: generation, rendering to Go source, serialisation for the model
(same prefix-token syntax as the <shape> printed by harness/cmd/c25 and ocaml/c25_driver.ml).

expr : ("I",z) ("S",str) ("V",x) ("A",a,b) ("C",f,args) ("L",x,sel,args) ("F",x,f)
       ("U",ps,res,body) ("N",T,e)
stmt : ("E",cmd,e) ("D",x,e) ("W",x,e) ("If",c,thn,els) ("R",rs) ("B",body)
decl : ("im",name_or_None,path) ("va",x,e) ("ty",T) ("fn",f,ps,res,body,sig) ("me",T,r,m,ps,res,body)
"""


def hx(s):
    return s.encode().hex() or "-"


# ------------------------------------------------------------------ serialisation

def ser_expr(e, o):
    t = e[0]
    if t == "I":
        o += ["I", str(e[1])]
    elif t == "S":
        o += ["S", hx(e[1])]
    elif t == "V":
        o += ["V", e[1]]
    elif t == "A":
        o.append("A")
        ser_expr(e[1], o)
        ser_expr(e[2], o)
    elif t == "C":
        o += ["C", e[1], str(len(e[2]))]
        for a in e[2]:
            ser_expr(a, o)
    elif t == "L":
        o += ["L", e[1], e[2], str(len(e[3]))]
        for a in e[3]:
            ser_expr(a, o)
    elif t == "F":
        o += ["F", e[1], e[2]]
    elif t == "U":
        o += ["U", str(len(e[1]))] + list(e[1]) + [str(int(e[2]))]
        ser_stmts(e[3], o)
    elif t == "N":
        o += ["N", e[1]]
        ser_expr(e[2], o)
    else:
        raise ValueError(t)


def ser_stmts(l, o):
    o.append(str(len(l)))
    for s in l:
        ser_stmt(s, o)


def ser_stmt(s, o):
    t = s[0]
    if t == "E":
        o += ["E", "1" if s[1] else "0"]
        ser_expr(s[2], o)
    elif t in ("D", "W"):
        o += [t, s[1]]
        ser_expr(s[2], o)
    elif t == "If":
        o.append("If")
        ser_expr(s[1], o)
        ser_stmts(s[2], o)
        ser_stmts(s[3], o)
    elif t == "R":
        o += ["R", str(len(s[1]))]
        for e in s[1]:
            ser_expr(e, o)
    elif t == "B":
        o.append("B")
        ser_stmts(s[1], o)
    else:
        raise ValueError(t)


def ser_prog(decls):
    o = ["0", "0", str(len(decls))]
    for d in decls:
        t = d[0]
        if t == "im":
            o += ["im", d[1] or "-", hx(d[2])]
        elif t == "va":
            o += ["va", d[1]]
            ser_expr(d[2], o)
        elif t == "ty":
            o += ["ty", d[1]]
        elif t == "fn":
            o += ["fn", d[1], str(len(d[2]))] + list(d[2]) + ["1" if d[3] else "0"]
            ser_stmts(d[4], o)
        elif t == "me":
            o += ["me", d[1], d[2], d[3], str(len(d[4]))] + list(d[4]) + ["1" if d[5] else "0"]
            ser_stmts(d[6], o)
        else:
            raise ValueError(t)
    return " ".join(o)


# ------------------------------------------------------------------ rendering to Go

# result lists of function literals by arity (unnamed results)
RESULTS = ["", " int", " (int, error)", " (int, string, error)"]


def gostr(s):
    return '"' + s.replace("\\", "\\\\").replace('"', '\\"').replace("\n", "\\n") + '"'


class R:
    def __init__(self):
        self.o = []
        self.ind = 0

    def expr(self, e):
        t = e[0]
        if t == "I":
            return str(e[1])
        if t == "S":
            return gostr(e[1])
        if t == "V":
            return e[1]
        if t == "A":
            r = self.expr(e[2])
            if e[2][0] == "A":
                r = "(" + r + ")"
            return "%s + %s" % (self.expr(e[1]), r)
        if t == "C":
            return "%s(%s)" % (e[1], ", ".join(self.expr(a) for a in e[2]))
        if t == "L":
            return "%s.%s(%s)" % (e[1], e[2], ", ".join(self.expr(a) for a in e[3]))
        if t == "F":
            return "%s.%s" % (e[1], e[2])
        if t == "U":
            ps, res, body = e[1], e[2], e[3]
            sig = "func(%s)%s" % (", ".join(ps) + (" int" if ps else ""), RESULTS[int(res)])
            return sig + " " + self.block(body)
        if t == "N":
            return "%s{%s}" % (e[1], self.expr(e[2]))
        raise ValueError(t)

    def block(self, body):
        if not body:
            return "{\n" + "\t" * self.ind + "}"
        self.ind += 1
        lines = ["\t" * self.ind + self.stmt(s) for s in body]
        self.ind -= 1
        return "{\n" + "\n".join(lines) + "\n" + "\t" * self.ind + "}"

    def stmt(self, s):
        t = s[0]
        if t == "E":
            return self.expr(s[2])
        if t == "D":
            return "%s := %s" % (s[1], self.expr(s[2]))
        if t == "W":
            return "var %s = %s" % (s[1], self.expr(s[2]))
        if t == "If":
            r = "if %s != 0 %s" % (self.expr(s[1]), self.block(s[2]))
            if s[3]:
                r += " else " + self.block(s[3])
            return r
        if t == "R":
            return "return" + (" " + ", ".join(self.expr(x) for x in s[1]) if s[1] else "")
        if t == "B":
            return self.block(s[1])
        raise ValueError(t)


def render(decls):
    r = R()
    out = ["package main", ""]
    for d in decls:
        t = d[0]
        if t == "im":
            out.append("import %s%s" % ((d[1] + " ") if d[1] else "", gostr(d[2])))
        elif t == "va":
            out.append("var %s = %s" % (d[1], r.expr(d[2])))
        elif t == "ty":
            out.append("type %s struct{ n int }" % d[1])
        elif t == "fn":
            sig = d[5] if len(d) > 5 and d[5] else "(%s)%s" % (", ".join(d[2]) + (" int" if d[2] else ""), " int" if d[3] else "")
            out.append("func %s%s %s" % (d[1], sig, r.block(d[4])))
        elif t == "me":
            out.append("func (%s %s) %s(%s)%s %s" % (d[2], d[1], d[3], ", ".join(d[4]) + (" int" if d[4] else ""),
                                                    " int" if d[5] else "", r.block(d[6])))
        out.append("")
    return "\n".join(out)


def model_line(decls):
    """imports without explicit name get the last path element (path.Base) as name, as formatFile does"""
    ds = []
    for d in decls:
        if d[0] == "im" and d[1] is None:
            ds.append(("im", d[2].split("/")[-1], d[2]))
        else:
            ds.append(d)
    return ser_prog(ds)


# ------------------------------------------------------------------ building blocks

def I(z):
    return ("I", z)


def S(s):
    return ("S", s)


def V(x):
    return ("V", x)


def call(f, *a):
    return ("C", f, list(a))


def sel(x, s, *a):
    return ("L", x, s, list(a))


def println(*a):
    return ("E", False, sel("fmt", "Println", *a))


def printf(fmt_, *a):
    return ("E", False, sel("fmt", "Printf", S(fmt_), *a))


HELPERS = {
    "apply": ("fn", "apply", ["f", "v"], True, [("R", [call("f", V("v"))])], "(f func(int) int, v int) int"),
    "apply2": ("fn", "apply2", ["f", "a", "b"], True, [("R", [call("f", V("a"), V("b"))])], "(f func(int, int) int, a, b int) int"),
    "each": ("fn", "each", ["f"], False, [("E", False, call("f", I(1))), ("E", False, call("f", I(2)))], "(f func(int))"),
    "twice": ("fn", "twice", ["f"], False, [("E", False, call("f")), ("E", False, call("f"))], "(f func())"),
    "take2": ("fn", "take2", ["f", "v"], True, [("R", [V("v")])], "(f func(int) (int, error), v int) int"),
    "take3": ("fn", "take3", ["f", "v"], True, [("R", [V("v")])], "(f func(int) (int, string, error), v int) int"),
    "two": ("fn", "two", ["k"], True, [("R", [V("k"), V("nil")])], "(k int) (int, error)"),
    "three": ("fn", "three", ["k"], True, [("R", [V("k"), S("s"), V("nil")])], "(k int) (int, string, error)"),
    "sinks": ("fn", "sinks", ["s"], False, [("E", False, sel("fmt", "Println", S("sink"), V("s")))], "(s string)"),
}


# a type whose method is named like an fmt function: `var fmt = P{1}; fmt.Println(2)` is a method call
SHADOW_P = [("ty", "P"), ("me", "P", "p", "Println", ["k"], False,
                           [("E", False, sel("fmt", "Print", S("P.Println "), ("A", ("F", "p", "n"), V("k")), S("\n")))])]


def typeT(name="T", methods=("Get", "Add", "Show")):
    ds = [("ty", name)]
    for m in methods:
        if m.lower() == "get":
            ds.append(("me", name, "t", m, [], True, [("R", [("F", "t", "n")])]))
        elif m.lower() == "add":
            ds.append(("me", name, "t", m, ["k"], True, [("R", [("A", ("F", "t", "n"), V("k"))])]))
        elif m.lower() == "neg":
            ds.append(("me", name, "t", m, [], True, [("R", [("A", ("F", "t", "n"), I(1000))])]))
        else:
            ds.append(("me", name, "t", m, [], False, [println(S(name + "." + m), ("F", "t", "n"))]))
    return ds


# ------------------------------------------------------------------ seeded random programs

class Gen:
    """Go main programs: fmt printing (Println/Printf/Print/Sprint/Sprintf/Fprintln), package functions
    (strings.ToUpper/Repeat, strconv.Itoa), user functions and methods, function-literal arguments.
    NOT generated (deterministic set): binders named like an import or like an XGo builtin, types
    with a lower-case twin of a method, call statements in a for-post position, negative literals,
    a `var` statement as first statement of main."""

    VARS = ["a", "b", "c", "x", "y", "k", "v", "w"]

    def __init__(self, rng, shadow_bias=0):
        self.rng = rng
        self.shape = {}
        self.shadow_bias = shadow_bias   # > 0: nested scopes declare `var fmt = P{..}` (tracked shadowing) with probability 1/bias

    def note(self, k):
        self.shape[k] = self.shape.get(k, 0) + 1

    def pick(self, xs):
        return xs[self.rng.below(len(xs))]

    def shadowed(self):
        return any("fmt" in sc for sc in self.scopes)

    def vars_of(self, ty):
        seen, out = set(), []
        for sc in reversed(self.scopes):
            for n, t in sc.items():
                if n not in seen:
                    seen.add(n)
                    if t == ty:
                        out.append(n)
        return sorted(out)

    def fresh(self):
        cand = [n for n in self.VARS if n not in self.scopes[-1]]
        return self.pick(cand) if cand else None

    def int_expr(self, d=0):
        r = self.rng.below(10)
        if d > 2 or r < 2:
            return I(self.rng.below(10))
        if r < 4:
            vs = self.vars_of("int")
            if vs:
                return V(self.pick(vs))
            return I(7)
        if r == 4:
            return ("A", self.int_expr(d + 1), self.int_expr(d + 1))
        if r == 5:
            ts = self.vars_of("T")
            if ts:
                self.note("call:method")
                t = self.pick(ts)
                return sel(t, "Get") if self.rng.below(2) else sel(t, "Add", self.int_expr(d + 1))
            return I(3)
        if r == 6:
            self.note("call:apply-funclit")
            self.need.add("apply")
            return call("apply", self.funclit(1, True, d + 1), self.int_expr(d + 1))
        if r == 7:
            self.note("call:apply2-funclit")
            self.need.add("apply2")
            return call("apply2", self.funclit(2, True, d + 1), self.int_expr(d + 1), self.int_expr(d + 1))
        if r == 8 and self.userfuncs:
            self.note("call:userfunc")
            f, ar = self.pick(self.userfuncs)
            return call(f, *[self.int_expr(d + 1) for _ in range(ar)])
        return I(self.rng.below(50))

    def str_expr(self, d=0):
        r = self.rng.below(8)
        if d > 2 or r < 2:
            return S(self.pick(["x", "go", "a b", "q%", ""]))
        if r == 2:
            vs = self.vars_of("string")
            if vs:
                return V(self.pick(vs))
            return S("s")
        if r in (3, 4) and self.shadowed():
            return S("sh")
        if r == 3:
            self.note("fmt:Sprint")
            return sel("fmt", "Sprint", self.int_expr(d + 1))
        if r == 4:
            self.note("fmt:Sprintf")
            return sel("fmt", "Sprintf", S("%d-%s"), self.int_expr(d + 1), self.str_expr(d + 1))
        if r == 5:
            self.note("pkg:strings")
            self.imports.add("strings")
            return sel("strings", "ToUpper", self.str_expr(d + 1))
        if r == 6:
            self.note("pkg:strings")
            self.imports.add("strings")
            return sel("strings", "Repeat", self.str_expr(d + 1), I(2))
        self.note("pkg:strconv")
        self.imports.add("strconv")
        return sel("strconv", "Itoa", self.int_expr(d + 1))

    def funclit(self, nparams, res, d):
        ps = []
        sc = {}
        for _ in range(nparams):
            p = self.pick([n for n in self.VARS if n not in sc])
            sc[p] = "int"
            ps.append(p)
        self.scopes.append(sc)
        mark = len(self.used_later)
        body = []
        if self.rng.below(3) == 0:
            body = self.stmts(d + 2, 1 + self.rng.below(2))
        if not res and not body:
            body = self.stmts(d + 2, 1)
        if not res and not body:
            body = [("E", False, sel("fmt", "Println", I(0)))] if self.shadowed() else [println(S("lit"))]
        self.close(body, mark)
        if res:
            body.append(("R", [self.int_expr(d + 1)]))
        self.scopes.pop()
        self.note("funclit:%s" % ("return-only" if (res and len(body) == 1) else "block"))
        return ("U", ps, res, body)

    def any_args(self, d=0):
        n = 1 + self.rng.below(3)
        return [self.int_expr(d + 1) if self.rng.below(2) else self.str_expr(d + 1) for _ in range(n)]

    def stmts(self, d, n):
        out = []
        for _ in range(n):
            s = self.stmt(d)
            if isinstance(s, list):
                out += s
            elif s:
                out.append(s)
        return out

    def stmt(self, d):
        if self.shadow_bias and len(self.scopes) >= 3 and "fmt" not in self.scopes[-1] and self.rng.below(self.shadow_bias) == 0:
            # a var named like the fmt import, declared in a nested scope: tracked by formatCtx until the scope ends
            self.note("shadow:var-fmt-in-nested-scope")
            self.need.add("P")
            self.scopes[-1]["fmt"] = "P"
            return [("W", "fmt", ("N", "P", self.int_expr(d))), ("E", False, sel("fmt", "Println", self.int_expr(d)))]
        r = self.rng.below(15)
        if r < 6 and self.shadowed():
            self.note("shadow:method-call-on-fmt-var")
            return ("E", False, sel("fmt", "Println", self.int_expr(d)))
        if r < 3:
            self.note("fmt:Println")
            return ("E", False, sel("fmt", "Println", *self.any_args(d)))
        if r == 3:
            self.note("fmt:Printf")
            return ("E", False, sel("fmt", "Printf", S("%v|%v\n"), self.int_expr(d), self.str_expr(d)))
        if r == 4:
            self.note("fmt:Print")
            return ("E", False, sel("fmt", "Print", self.str_expr(d), S("\n")))
        if r == 5:
            self.note("fmt:Fprintln")
            self.imports.add("os")
            return ("E", False, sel("fmt", "Fprintln", ("F", "os", "Stdout"), *self.any_args(d)))
        if r == 6:
            x = self.fresh()
            if not x:
                return None
            if self.shadowed():
                e, t = self.int_expr(d), "int"
            elif self.rng.below(3) == 0:
                e, t = self.str_expr(d), "string"
            elif self.rng.below(3) == 0:
                e, t = ("N", "T", self.int_expr(d)), "T"
                self.need.add("T")
            else:
                e, t = self.int_expr(d), "int"
            self.scopes[-1][x] = t
            self.used_later.append((x, t))
            self.note("stmt:define" if self.rng.below(2) else "stmt:var")
            return ("D" if self.rng.below(2) else "W", x, e)
        if r == 7 and d < 3:
            self.note("stmt:if")
            c = self.int_expr(d)
            thn = self.block_with_uses(d + 1, 1 + self.rng.below(2))
            els = []
            if self.rng.below(2):
                els = self.block_with_uses(d + 1, 1)
            return ("If", c, thn, els)
        if r == 8:
            self.note("call:each-funclit")
            self.need.add("each")
            return ("E", False, call("each", self.funclit(1, False, d)))
        if r == 9:
            self.note("call:twice-funclit")
            self.need.add("twice")
            return ("E", False, call("twice", self.funclit(0, False, d)))
        if r == 13:
            # function-literal arguments with 2 / 3 results x body shapes
            ar = 2 + self.rng.below(2)
            shape_ = self.rng.below(3)
            p = self.pick(self.VARS)
            self.scopes.append({p: "int"})
            tail = [V("nil")] if ar == 2 else [S("s"), V("nil")]
            if shape_ == 0:
                body = [("R", [self.int_expr(d + 1)] + tail)]                       # single return of n expressions
                self.note("funclit:%d-results:return-n" % ar)
            elif shape_ == 1:
                fw = "two" if ar == 2 else "three"
                self.need.add(fw)
                body = [("R", [call(fw, self.int_expr(d + 1))])]                    # forwarding a multi-value call
                self.note("funclit:%d-results:return-forward" % ar)
            else:
                pr = ("E", False, sel("fmt", "Println", self.int_expr(d + 1))) if self.shadowed() else println(S("in"), V(p))
                body = [pr, ("R", [V(p)] + tail)]                                   # several statements
                self.note("funclit:%d-results:block" % ar)
            self.scopes.pop()
            tk = "take%d" % ar
            self.need.add(tk)
            return ("E", False, call(tk, ("U", [p], ar, body), self.int_expr(d)))
        if r == 10:
            ts = self.vars_of("T")
            if ts:
                self.note("stmt:method-call")
                return ("E", False, sel(self.pick(ts), "Show"))
            return None
        if r == 11 and d < 3:
            self.note("stmt:block")
            b = self.block_with_uses(d + 1, 1 + self.rng.below(2))
            return ("B", b)
        if r == 12 and self.userfuncs:
            self.note("stmt:userfunc-call")
            f, ar = self.pick(self.userfuncs)
            return ("E", False, call(f, *[self.int_expr(d + 1) for _ in range(ar)]))
        return None

    def close(self, body, mark):
        """every variable declared since `mark` is printed once (Go rejects unused variables)"""
        for x, t in self.used_later[mark:]:
            if self.shadowed():
                # fmt is a variable of type P here: P.Println takes one int; strings go through a helper
                if t == "string":
                    self.need.add("sinks")
                    body.append(("E", False, call("sinks", V(x))))
                else:
                    body.append(("E", False, sel("fmt", "Println", sel(x, "Get") if t == "T" else V(x))))
            elif t == "T":
                body.append(println(S(x), sel(x, "Get")))
            else:
                body.append(println(S(x), V(x)))
        del self.used_later[mark:]

    def block_with_uses(self, d, n):
        mark = len(self.used_later)
        self.scopes.append({})
        b = self.stmts(d, n)
        self.close(b, mark)
        self.scopes.pop()
        return b

    def program(self):
        self.imports = set()
        self.need = set()
        self.userfuncs = []
        self.used_later = []
        self.scopes = [{}]
        decls = []
        # user functions (declared before main; may be called by later ones)
        for i in range(self.rng.below(3)):
            name = self.pick(["inc", "mix", "calc", "show2"]) + str(i)
            ar = self.rng.below(3)
            ps = ["p%d" % j for j in range(ar)]
            self.scopes.append({p: "int" for p in ps})
            mark = len(self.used_later)
            body = self.stmts(1, 1 + self.rng.below(2))
            self.close(body, mark)
            body.append(("R", [self.int_expr(1)]))
            self.scopes.pop()
            decls.append(("fn", name, ps, True, body, None))
            self.userfuncs.append((name, ar))
            self.note("decl:func")
        # package-level variables
        gl = []
        for i in range(self.rng.below(3)):
            n = "g%d" % i
            if self.rng.below(2):
                gl.append(("va", n, self.str_expr(1)))
                self.scopes[0][n] = "string"
            else:
                gl.append(("va", n, self.int_expr(1)))
                self.scopes[0][n] = "int"
            self.note("decl:var")
        main_body = self.block_with_uses(1, 3 + self.rng.below(5))
        if main_body and main_body[0][0] == "W":
            # leading `var` statements of an unwrapped main are re-read as package-level declarations
            # (known finding det-leading-var-* / raw-init-order): not generated at random
            main_body.insert(0, println(S("main")))
        if "fmt" not in render([("fn", "main", [], False, main_body, None)] + decls + gl):
            main_body.append(println(S("end")))     # the fmt import must be used (Go rejects unused imports)
        main = ("fn", "main", [], False, main_body, None)
        head = [("im", None, "fmt")] + [("im", None, p) for p in sorted(self.imports)]
        mid = []
        if "T" in self.need or any("T" in str(d) for d in decls + gl):
            mid += typeT()
        if "P" in self.need:
            mid += SHADOW_P
        for h in sorted(self.need - {"T", "P"}):
            mid.append(HELPERS[h])
        body = mid + gl + decls
        # main last (unwrapped) or in the middle
        if self.rng.below(4) == 0 and body:
            self.note("main:not-last")
            k = self.rng.below(len(body))
            # keep helpers/types before main's position irrelevant: Go allows any order at package level
            return head + body[:k] + [main] + body[k:]
        self.note("main:last")
        return head + body + [main]


# ------------------------------------------------------------------ deterministic programs

def deterministic():
    """[(name, decls)] MiniGo programs run through shape K-diff AND behaviour: controls and the
    known-finding dimensions that MiniGo can express."""
    fmt = ("im", None, "fmt")
    P = []
    P.append(("det-control-basic", [fmt] + typeT() + [HELPERS["apply"], ("fn", "main", [], False, [
        ("D", "t", ("N", "T", I(3))), println(sel("t", "Get"), sel("t", "Add", I(2))), ("E", False, sel("t", "Show")),
        printf("%d|%s\n", call("apply", ("U", ["x"], True, [("R", [("A", V("x"), I(1))])]), I(4)), sel("fmt", "Sprint", I(5))),
    ], None)]))
    # R1: a type with methods Get and get: `t.Get()` becomes `t.get()` which is the OTHER method
    P.append(("det-case-twin", [fmt] + typeT(methods=("Get", "neg")) + [
        ("me", "T", "t", "get", [], True, [("R", [("A", ("F", "t", "n"), I(1000))])]),
        ("fn", "main", [], False, [("D", "t", ("N", "T", I(3))), println(sel("t", "Get"))], None)]))
    # R2: fmt shadowed by := / by a parameter (scope tracking only knows var/const specs)
    shadowT = [("ty", "P"), ("me", "P", "p", "Println", ["k"], False, [("E", False, sel("fmt", "Print", S("P.Println "), V("k"), S("\n")))])]
    P.append(("det-shadow-define", [fmt] + shadowT + [("fn", "main", [], False, [
        println(S("start")), ("D", "fmt", ("N", "P", I(1))), ("E", False, sel("fmt", "Println", I(2)))], None)]))
    P.append(("det-shadow-param", [fmt] + shadowT + [
        ("fn", "show", ["fmt"], False, [("E", False, sel("fmt", "Println", I(2)))], "(fmt P)"),
        ("fn", "main", [], False, [println(S("start")), ("E", False, call("show", ("N", "P", I(1))))], None)]))
    # control: fmt shadowed by a var spec IS tracked
    P.append(("det-shadow-var-tracked", [fmt] + shadowT + [("fn", "main", [], False, [
        println(S("start")), ("W", "fmt", ("N", "P", I(1))), ("E", False, sel("fmt", "Println", I(2)))], None)]))
    # scope tracking: a var named like the import, declared inside a scope-introducing statement, stops
    # shadowing when the scope ends (controls; every one is followed by a real fmt call)
    def scoped(name, stmts_):
        P.append((name, [fmt] + SHADOW_P + [HELPERS["twice"], ("fn", "main", [], False, [println(S("start"))] + stmts_ + [println(S("after"), I(9))], None)]))
    shadow = [("W", "fmt", ("N", "P", I(1))), ("E", False, sel("fmt", "Println", I(2)))]
    scoped("det-scope-bare-block", [("B", shadow)])
    scoped("det-scope-nested-blocks", [("B", [println(S("in")), ("B", shadow), println(S("mid"))]), ("B", shadow)])
    scoped("det-scope-if-then", [("If", I(1), shadow, [println(S("else"))])])
    scoped("det-scope-if-else", [("If", I(0), [println(S("then"))], shadow)])
    scoped("det-scope-funclit", [("E", False, call("twice", ("U", [], False, shadow)))])
    scoped("det-scope-block-in-funclit", [("E", False, call("twice", ("U", [], False, [("B", shadow), println(S("lit"))])))])
    # R3: user function / variable named like an XGo builtin
    P.append(("det-user-echo", [fmt, ("fn", "echo", ["k"], False, [("E", False, sel("fmt", "Print", S("my echo "), V("k"), S("\n")))], None),
                                ("fn", "main", [], False, [println(I(7)), ("E", False, call("echo", I(8)))], None)]))
    P.append(("det-user-printf", [fmt, ("fn", "printf", ["k"], True, [("R", [("A", V("k"), I(100))])], None),
                                  ("fn", "main", [], False, [printf("%d\n", call("printf", I(1)))], None)]))
    P.append(("det-local-echo", [fmt, HELPERS["apply"], ("fn", "main", [], False, [
        ("D", "echo", ("U", ["x"], True, [("R", [("A", V("x"), I(1))])])), println(call("apply", V("echo"), I(1)))], None)]))
    # R4: leading `var` statements of an unwrapped main become package-level declarations
    P.append(("det-leading-var-clash", [fmt, ("va", "x", I(1)), ("fn", "main", [], False, [
        ("W", "x", I(2)), println(V("x"))], None)]))
    P.append(("det-leading-var-ok", [fmt, ("fn", "main", [], False, [("W", "x", I(2)), println(V("x")), ("W", "y", I(3)), println(V("y"))], None)]))
    # controls
    P.append(("det-main-not-last", [fmt, ("fn", "main", [], False, [println(call("later", I(1)))], None),
                                    ("fn", "later", ["k"], True, [("R", [("A", V("k"), I(1))])], None)]))
    P.append(("det-import-alias", [("im", "f", "fmt"), ("fn", "main", [], False, [("E", False, sel("f", "Println", S("alias")))], None)]))
    P.append(("det-var-rhs-import", [fmt, ("fn", "show", ["s"], False, [println(V("s"))], "(s string)"),
                                      ("fn", "main", [], False, [println(S("start")), ("W", "fmt", sel("fmt", "Sprint", I(5))),
                                                                 ("E", False, call("show", V("fmt")))], None)]))
    # function-literal arguments of every result arity x body shape (unnamed results)
    def lits(name, helpers, stmts_):
        P.append((name, [fmt] + [HELPERS[h] for h in helpers] + [("fn", "main", [], False, [println(S("start"))] + stmts_, None)]))
    lits("det-lit-2-return-n", ["take2"], [println(call("take2", ("U", ["x"], 2, [("R", [("A", V("x"), I(1)), V("nil")])]), I(4)))])
    lits("det-lit-2-return-forward", ["take2", "two"], [println(call("take2", ("U", ["x"], 2, [("R", [call("two", V("x"))])]), I(4)))])
    lits("det-lit-2-block", ["take2"], [println(call("take2", ("U", ["x"], 2, [println(V("x")), ("R", [V("x"), V("nil")])]), I(4)))])
    lits("det-lit-3-return-n", ["take3"], [println(call("take3", ("U", ["x"], 3, [("R", [V("x"), S("s"), V("nil")])]), I(5)))])
    lits("det-lit-3-return-forward", ["take3", "three"], [println(call("take3", ("U", ["x"], 3, [("R", [call("three", V("x"))])]), I(5)))])
    lits("det-lit-3-block", ["take3"], [println(call("take3", ("U", ["x"], 3, [println(V("x")), ("R", [V("x"), S("s"), V("nil")])]), I(5)))])
    lits("det-lit-1-return-1", ["apply"], [println(call("apply", ("U", ["x"], 1, [("R", [("A", V("x"), I(1))])]), I(6)))])
    lits("det-lit-1-block", ["apply"], [println(call("apply", ("U", ["x"], 1, [println(V("x")), ("R", [V("x")])]), I(6)))])
    lits("det-lit-0-block", ["each"], [("E", False, call("each", ("U", ["x"], 0, [println(V("x"))])))])
    # control (b2092a4): a function literal whose body is a bare `return` becomes a block lambda
    P.append(("det-bare-return-lit", [fmt, HELPERS["twice"], ("fn", "main", [], False, [
        println(S("a")), ("E", False, call("twice", ("U", [], False, [("R", [])])))], None)]))
    P.append(("det-fmt-still-used", [fmt, ("fn", "main", [], False, [println(sel("fmt", "Sprint", I(1))),
                                                                   ("D", "e", sel("fmt", "Sprintln", I(2))), println(V("e"))], None)]))
    return P


# raw Go texts outside MiniGo: behaviour only
RAW = [
    ("raw-empty-return-lit", """package main

import "fmt"

func run(f func()) { f() }

func main() {
	fmt.Println("a")
	run(func() { return })
}
"""),
    ("raw-for-post", """package main

import "fmt"

func main() {
	for i := 0; i < 2; fmt.Print(i, "\\n") {
		i++
	}
}
"""),
    ("raw-scope-statements", """package main

import "fmt"

type P struct{ n int }

func (p P) Println(k int) { fmt.Print("P.Println ", p.n+k, "\\n") }

func main() {
	fmt.Println("start")
	for i := 0; i < 1; i++ {
		var fmt = P{1}
		fmt.Println(i)
	}
	fmt.Println("after for")
	if x := 1; x > 0 {
		var fmt = P{2}
		fmt.Println(x)
	} else if x < 0 {
		fmt.Println("neg")
	} else {
		var fmt = P{3}
		fmt.Println(x)
	}
	fmt.Println("after if")
	switch y := 2; y {
	case 1:
		fmt.Println("one")
	default:
		var fmt = P{4}
		fmt.Println(y)
	}
	fmt.Println("after switch")
	var v interface{} = 5
	switch z := v.(type) {
	case int:
		var fmt = P{5}
		fmt.Println(z)
	}
	fmt.Println("after type switch")
	ch := make(chan int, 1)
	ch <- 6
	select {
	case w := <-ch:
		var fmt = P{6}
		fmt.Println(w)
	}
	fmt.Println("after select")
lbl:
	{
		var fmt = P{7}
		fmt.Println(7)
		if v == nil {
			goto lbl
		}
	}
	fmt.Println("after labelled block")
	func() {
		const fmt = 8
		println(fmt)
	}()
	fmt.Println("after const")
}
"""),
    ("raw-scope-case-clauses", """package main

import "fmt"

type P struct{ n int }

func (p P) Println(k int) { fmt.Print("P.Println ", p.n+k, "\\n") }

func main() {
	for y := 1; y <= 2; y++ {
		switch y {
		case 1:
			var fmt = P{1}
			fmt.Println(y)
		case 2:
			fmt.Println("two")
		}
	}
}
"""),
    ("raw-lit-named-results", """package main

import (
	"fmt"
	"strconv"
)

func parse(xs []string, f func(string) (int, error)) int {
	t := 0
	for _, x := range xs {
		if n, err := f(x); err == nil {
			t += n
		}
	}
	return t
}

func main() {
	fmt.Println(parse([]string{"1", "x", "3"}, func(s string) (n int, err error) { return strconv.Atoi(s) }))
	fmt.Println(parse([]string{"4"}, func(s string) (int, error) { return strconv.Atoi(s) }))
	fmt.Println(parse([]string{"5"}, func(s string) (n int, err error) {
		n, err = strconv.Atoi(s)
		return
	}))
	fmt.Println(parse([]string{"6"}, func(s string) (int, error) { return len(s), nil }))
}
"""),
    ("raw-for-post-incdec", """package main

import "fmt"

func main() {
	for i := 0; i < 3; i++ {
		fmt.Println(i)
	}
	for i, j := 0, 10; i < j; i, j = i+1, j-1 {
		fmt.Printf("%d %d\\n", i, j)
	}
}
"""),
    ("raw-init-order", """package main

import "fmt"

func side() int { fmt.Println("side"); return 1 }

func init() { fmt.Println("init") }

func main() {
	var x = side()
	fmt.Println(x)
}
"""),
    ("raw-lambda-to-interface", """package main

import "fmt"

func show(v interface{}) { fmt.Printf("%T\\n", v) }

func main() {
	show(func(x int) int { return x })
}
"""),
    ("raw-operand-forms", """package main

import "fmt"

func main() {
	fmt.Println(-1)
	fmt.Println((1 + 2) * 3)
	fmt.Println([]int{1, 2})
	fmt.Println()
	fmt.Println(&struct{ a int }{1} != nil)
	fmt.Println(<-func() chan int { c := make(chan int, 1); c <- 5; return c }())
}
"""),
    ("raw-range-shadow", """package main

import "fmt"

type P struct{}

func (P) Println(k int) { fmt.Print("P.Println ", k, "\\n") }

func main() {
	for _, fmt := range []P{{}} {
		fmt.Println(1)
	}
}
"""),
    ("raw-field-method-twin", """package main

import "fmt"

type Acc struct{ total int }

func (a *Acc) Total() int { return a.total }

func main() {
	a := &Acc{3}
	fmt.Println(a.Total())
}
"""),
    ("raw-control-mixed", """package main

import (
	"fmt"
	"os"
	"strings"
)

type Acc struct{ sum int }

func (a *Acc) Add(n int) *Acc { a.sum += n; return a }

func (a *Acc) Total() int { return a.sum }

func fold(xs []int, f func(int, int) int) int {
	r := 0
	for _, x := range xs {
		r = f(r, x)
	}
	return r
}

func main() {
	a := &Acc{}
	a.Add(1).Add(2)
	fmt.Println(a.Total(), strings.ToUpper("ok"))
	fmt.Fprintf(os.Stdout, "%d\\n", fold([]int{1, 2, 3}, func(s, x int) int { return s + x }))
	defer fmt.Println("deferred")
	switch v := a.Total(); v {
	case 3:
		fmt.Printf("three %v\\n", v)
	default:
		fmt.Println("other")
	}
	s := fmt.Sprintf("%s-%d", "s", 1)
	fmt.Print(s, "\\n")
	err := fmt.Errorf("e%d", 1)
	fmt.Println(err)
}
"""),
]


# ------------------------------------------------------------------ the ONLY non-print use of fmt sits in a type position

def type_position_family():
    """[(name, go source)]: print calls that become builtins next to exactly one other reference to the fmt import,
    in each type position in turn; the import must survive the conversion (behaviour only)."""
    head = """package main

import "fmt"

type N int

func (n N) String() string { return "N" }

"""
    pos = {
        "type-assertion": ("", """	var v interface{} = N(1)
	if s, ok := v.(fmt.Stringer); ok {
		fmt.Println("assert", s.String())
	}
"""),
        "type-switch-case": ("", """	var v interface{} = N(1)
	switch s := v.(type) {
	case fmt.Stringer:
		fmt.Println("case", s.String())
	default:
		fmt.Println("default")
	}
"""),
        "conversion": ("", """	s := fmt.Stringer(N(2))
	fmt.Println("conv", s.String())
"""),
        "composite-literal-type": ("", """	xs := []fmt.Stringer{N(3)}
	fmt.Println("lit", len(xs), xs[0].String())
"""),
        "map-literal-type": ("", """	m := map[string]fmt.Stringer{"a": N(3)}
	fmt.Println("map", len(m))
"""),
        "var-type": ("", """	var s fmt.Stringer = N(4)
	fmt.Println("var", s.String())
"""),
        "package-var-type": ("var pv fmt.Stringer = N(5)\n\n", """	fmt.Println("pkgvar", pv.String())
"""),
        "param-type": ("func show(s fmt.Stringer) string { return s.String() }\n\n", """	fmt.Println("param", show(N(6)))
"""),
        "result-type": ("func mk() fmt.Stringer { return N(7) }\n\n", """	fmt.Println("result", mk().String())
"""),
        "field-type": ("type box struct{ s fmt.Stringer }\n\n", """	b := box{N(8)}
	fmt.Println("field", b.s.String())
"""),
        "alias-type": ("type S = fmt.Stringer\n\n", """	var s S = N(9)
	fmt.Println("alias", s.String())
"""),
        "func-literal-param-type": ("func run(f func(fmt.Stringer) string) string { return f(N(10)) }\n\n", """	fmt.Println("flit", run(func(s fmt.Stringer) string { return s.String() }))
"""),
        "pointer-and-chan-type": ("", """	var p *fmt.Stringer
	ch := make(chan fmt.Stringer, 1)
	ch <- N(11)
	fmt.Println("ptr", p == nil, (<-ch).String())
"""),
    }
    out = []
    for k in sorted(pos):
        pre, body = pos[k]
        out.append(("raw-fmt-only-in-" + k, head + pre + "func main() {\n\tfmt.Println(\"start\")\n" + body + "\tfmt.Printf(\"%d\\n\", 1)\n}\n"))
    return out


RAW = RAW + type_position_family()


# programs whose observable behaviour involves package initialisation order: built and run as
# separate binaries (the batched runner executes all package-level initialisers before any Main)
SOLO = {"raw-init-order"}
