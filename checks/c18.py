"""C18 — AST traversal visits every node exactly once (ast/walk.go).

A  Props/C18.v over the REGENERATED tables (K-gen: Gen/AstStructs.v from the struct declarations of
   ast/ast.go + ast/ast_gop.go, Gen/AstWalk.v from the type switch of ast.Walk):
   C18_table_ok (vm_compute obligation), C18_walk_visits_each_once_preorder, C18_walk_total,
   C18_inspect, C18_children_complete, C18_every_node_once, C18_distinct_nodes_once, ...
B  K-diff, two ways:
   (1) dynamic table learning: a marker-populated node of every kind (every assignment of its
       bool fields / record kinds, every optional child removed in turn) walked by the real Walk
       vs the static table;
   (2) the extracted model (walk_tree over Gen.walk_table) vs the real Walk/Inspect visitor call
       sequence (with visitor depth and pruning) on every parsed corpus file and on synthesised
       trees of every kind, including malformed ones (a mandatory child nil -> both must panic).
C  direct oracle in the harness: the real call sequence vs a reflection-based enumeration of the
   child nodes (each exactly once, parents first, Visit(nil) after the children, no shared node),
   and for parsed files siblings in non-decreasing source position.
"""
import json
import os

import vlib

CLAIM = {
    "level": "proof",
    "text": "Coq theorems for every visitor and every well-formed tree of any size: the table interpreter of "
            "ast.Walk never panics and issues exactly the specified call sequence (node, children in source "
            "order with the returned visitor, Visit(nil)); the source-order children are, as a multiset, all "
            "nodes held by the node's struct fields, so a never-pruning visitor sees every node exactly once. "
            "The per-kind behaviour is a table regenerated from the type switch of ast.Walk and the struct "
            "declarations on every run; its obligation (every kind has a case, fields/order/shape/guards match "
            "the hand-written source-order template and the struct table) is re-proved by vm_compute.",
    "note": "Modelled, not verified: ast.Walk as a table interpreter (the translator reads a fixed statement "
            "fragment of the switch and fails loudly outside it); tied by dynamic table learning on marker nodes "
            "of all kinds and by a differential run of the extracted model against the real Walk/Inspect on the "
            "parsed corpus and synthesised trees. Source order = hand-written template (Model/C18.v) cross-checked "
            "against token positions of parsed files. Excluded by the Reading: File.Imports/Comments/ShadowEntry "
            "(aliases), header of a Shadow FuncDecl, Name of a file without package clause. Optional = documented "
            "'or nil' in the field comment. Package.Files is a map: order of files unspecified.",
}

EXTS = (".xgo", ".gox", ".gop", ".spx", ".gsh", ".gmx", ".tspx", ".tgmx")


def corpus_files(repo):
    out = []
    for root, dirs, files in os.walk(repo):
        dirs[:] = sorted(d for d in dirs if d != ".git")
        for f in sorted(files):
            p = os.path.join(root, f)
            if f.endswith(EXTS) or f.endswith(".go"):
                out.append(p)
    return out


def expected_paths(steps, entry, structs):
    """paths the static table predicts for a learned marker node"""
    flags, recs, variant = entry["flags"], entry["recs"], entry["variant"]
    fields = {f["name"]: f for f in structs["nodes"][entry["kind"]]}
    out = []
    for s in steps:
        if s.get("unless") and flags.get(s["unless"]):
            continue
        prefix = ""
        if s.get("via"):
            if recs.get(s["via"]) != s["via_kind"]:
                continue
            prefix = "%s:%s." % (s["via"], s["via_kind"])
        f = s["field"]
        sh = s["shape"]
        if sh == "Node":
            if variant == "nil:" + f:
                continue
            if variant == "noopt" and fields.get(f, {}).get("opt"):
                continue
            out.append(prefix + f)
        elif sh in ("List", "Map"):
            out += ["%s%s[%d]" % (prefix, f, i) for i in range(2)]
        elif sh == "ListList":
            out += ["%s%s[%d][%d]" % (prefix, f, i, j) for i in range(2) for j in range(2)]
        elif sh == "Parts":
            out.append("%s%s[1]" % (prefix, f))
    return out


def gen_json(ctx, name, ok):
    """JSON side copy of a generator (build/gen<PTAG>, private per worktree); None if the translator failed"""
    if not ok:
        return None
    try:
        return ctx.gen_json(name)
    except Exception:
        return None


def run(ctx):
    gen_walk = gen_structs = ctx.regen(["aststructs", "astwalk"])
    ctx.prove("C18")
    model = ctx.model("c18")
    impl = ctx.harness("c18")
    structs = gen_json(ctx, "aststructs", True)
    if structs is None:
        return
    structs_path = os.path.join(vlib.BUILD, "gen" + vlib.PTAG, "aststructs.json")
    # if the Walk switch left the translated fragment the static table is missing: the run is already
    # broken, but the dynamic table, the model comparison and the direct oracle still search for a failing input
    jw = gen_json(ctx, "astwalk", gen_walk)
    static = {}
    for case in (jw or []):
        for k in case["kinds"]:
            static[k] = case["steps"]

    # ---- B1: dynamic table learning vs the static table
    rc, out = ctx.run([impl, "-structs", structs_path, "learn"], timeout=120)
    if rc != 0:
        ctx.broken("table-learning(run)", "rc=%d %s" % (rc, out[-400:]))
        learned = []
    else:
        learned = json.loads(out)
    nlearn, bad_learn = 0, []
    for e in learned:
        nlearn += 1
        k = e["kind"]
        got = e["visited"] or []
        if e.get("panic"):
            bad_learn.append((e, "panic: " + e["panic"]))
            ctx.fail("learn:%s:%s:%s:%s" % (k, e["variant"], sorted(e["flags"].items()), sorted(e["recs"].items())),
                     "Walk panics on a %s node (%s): %s" % (k, e["variant"], e["panic"]), e)
            continue
        if k not in static:
            if jw:
                bad_learn.append((e, "no static case"))
            continue
        want = expected_paths(static[k], e, structs)
        if k == "Package":
            got, want = sorted(got), sorted(want)
        if got != want:
            bad_learn.append((e, "walked %s, static table says %s" % (got, want)))
    if bad_learn:
        e, why = bad_learn[0]
        ctx.broken("correspondence(table-learning)", "%d of %d marker nodes differ; first: %s %s flags=%s recs=%s: %s"
                   % (len(bad_learn), nlearn, e["kind"], e["variant"], e["flags"], e["recs"], why))
    ctx.check_gen_obligation("dynamic-table==static-table", not bad_learn and nlearn > 0,
                             "see correspondence(table-learning)")

    # ---- cases
    files = corpus_files(vlib.REPO)
    cases = []
    for p in files:
        cases.append("file\t%s\t0" % p)
        if not p.endswith(".go") or not ctx.quick:
            cases.append("file\t%s\t%d" % (p, 2 + ctx.rng.below(6)))
    kinds = structs["node_order"]
    for k in kinds:
        for variant in ("full", "noopt", "rand:%d" % (ctx.seed * 1000 + 1), "rand:%d" % (ctx.seed * 1000 + 2)):
            for prune in (0, 3):
                cases.append("kind\t%s\t%s\t%d" % (k, variant, prune))
    nsynth = ctx.n(700, 60000)
    for i in range(nsynth):
        seed = ctx.rng.next() % (1 << 62)
        depth = 1 + ctx.rng.below(4)
        mal = 1 if ctx.rng.below(10) == 0 else 0
        prune = ctx.rng.choice([0, 0, 2, 3, 5, 7])
        cases.append("synth\t%d\t%d\t%d\t%d" % (seed, depth, mal, prune))
    ctx.log("table learning: %d marker nodes, %d differ" % (nlearn, len(bad_learn)))
    rc, out = ctx.run([impl, "-structs", structs_path, "run"], input="\n".join(cases) + "\n", timeout=300)
    ctx.log("implementation walked %d cases" % len(cases))
    if rc != 0:
        ctx.broken("correspondence(c18:impl-run)", "rc=%d %s" % (rc, out[-400:]))
        return
    lines = out.split("\n")
    if lines and lines[-1] == "":
        lines.pop()
    if len(lines) != len(cases):
        ctx.broken("correspondence(c18:impl-run)", "cases=%d result lines=%d" % (len(cases), len(lines)))
        return
    res = [l.split("\t") for l in lines]
    live = [i for i, r in enumerate(res) if r[0] != "-"]
    prunes = [c.split("\t")[-1] for c in cases]
    minput = "\n".join("%s\t%s" % (prunes[i], res[i][0]) for i in live) + "\n"
    rc, mout = ctx.run([model], input=minput, timeout=300)
    ctx.log("model walked %d trees" % len(live))
    if rc != 0:
        ctx.broken("correspondence(c18:model-run)", "rc=%d %s" % (rc, mout[-400:]))
        return
    mlines = mout.split("\n")
    if mlines and mlines[-1] == "":
        mlines.pop()
    if len(mlines) != len(live):
        ctx.broken("correspondence(c18:model-run)", "cases=%d model lines=%d" % (len(live), len(mlines)))
        return
    wf = {}
    mev = {}
    for i, l in zip(live, mlines):
        a, _, b = l.partition("\t")
        wf[i] = a == "wf=1"
        mev[i] = b
    rel = lambda c: c.replace(vlib.REPO + "/", "")
    ctx.diff_lines("walk_tree~Walk/Inspect", [rel(cases[i]) for i in live],
                   "\n".join(res[i][1] for i in live), "\n".join(mev[i] for i in live))

    # ---- C: direct oracle verdicts
    hist = {"file": 0, "file-parse-errors": 0, "file-noparse": 0, "kind": 0, "synth": 0, "synth-malformed": 0}
    nodes_total, distinct, nonwf_parsed, panics_expected = 0, set(), [], 0
    for i, r in enumerate(res):
        c = cases[i]
        what = c.split("\t")[0]
        info = r[3] if len(r) > 3 else ""
        if r[0] == "-":
            hist["file-noparse"] += 1
            continue
        if what == "file":
            hist["file-parse-errors" if "parse-errors" in info else "file"] += 1
        elif what == "synth":
            hist["synth-malformed" if "malformed" in info else "synth"] += 1
        else:
            hist["kind"] += 1
        for tok in info.split():
            if tok.startswith("nodes="):
                nodes_total += int(tok[6:])
        if len(r[0]) > 40:
            distinct.add(vlib.sha(r[0] + "|" + prunes[i]))
        verdict = r[2]
        key = rel(c).replace("\t", ":")
        if not wf.get(i, False):
            # outside the theorem's premise: a mandatory child is nil (malformed stream) -> a panic is the
            # expected behaviour; a parsed tree must never be here
            if what == "file":
                nonwf_parsed.append(key)
            if verdict.startswith("panic"):
                panics_expected += 1
            continue
        if verdict != "ok":
            ctx.fail(key, "ast.Walk on %s: %s" % (key, verdict), {"case": rel(c), "verdict": verdict, "tree": r[0][:4000], "events": r[1][:2000]})
    if nonwf_parsed:
        ctx.broken("premise(wf on parser output)", "%d parsed trees are not well-formed w.r.t. the documented struct table, e.g. %s"
                   % (len(nonwf_parsed), nonwf_parsed[:3]))
    ctx.cover(evaluations=len(cases) + nlearn, distinct_nontrivial=len(distinct),
              samples=[{"case": rel(cases[i]), "events": res[i][1][:300], "verdict": res[i][2]} for i in (0, len(files) * 2 + 5, len(cases) - 1)],
              rule="every corpus file under /repo (%d files: %s and .go parsed as XGo) walked twice (Inspect; Walk with a depth-counting, "
                   "pruning visitor) + %d kinds x {all children, no optional child, 2 random} x {prune 0,3} + %d seeded random trees "
                   "(depth 1-4, 10%% malformed) + %d marker nodes for table learning; non-trivial = distinct (tree,prune) with an export longer than 40 bytes"
                   % (len(files), ",".join(EXTS), len(kinds), nsynth, nlearn),
              input_shape_histogram=hist, nodes_walked=nodes_total, marker_nodes=nlearn,
              expected_panics_on_malformed=panics_expected, static_gen="ok" if (gen_walk and gen_structs) else "unparsed")
    ctx.trust("modelled, not verified: ast.Walk/ast.Inspect as the interpreter Model/C18.v:walk over the generated table "
              "(translator/gen_astwalk.go reads the switch; translator/gen_ast.go the struct declarations)",
              "harness/internal/astx: reflection export of trees, reflection-based child enumeration, tree synthesis")
    ctx.assume("trees are well-formed: each node has the fields of its struct; children not documented 'or nil' are non-nil "
               "(checked on every parsed corpus tree by the model's wf_tree)",
               "Package.Files is a Go map: the order in which the files of a Package are walked is unspecified and not compared")
