"""C26 — `xgo fmt` never loses a file at any crash point and keeps its mode
(cmd/internal/gopfmt/fmt.go: writeFileWithBackup).

A  K-gen: translator `fmtops` re-reads the statement sequence of writeFileWithBackup -> Gen/FmtOps.v; Props/C26.v
   proves over the file-system model that INTERPRETS the generated list: C26_crash_safe (every prefix of every
   run, any faults, any write split: path = complete old (mode kept) or — only after the last call of a fully
   successful run — complete new), C26_run_result, C26_mode_kept, C26_others_untouched, the tie C26_tie_ops.
B  K-diff: the real `xgo` binary (go build ./cmd/xgo from the repository) formats files of several kinds / modes
   under `strace -ff`; the system calls that touch the file's directory entry or the temporary file
   (openat O_CREAT|O_EXCL, write, newfstatat of the path, fchmod, close, renameat, unlinkat) are mapped to the
   model's calls (incl. whether the temporary file is created in the directory of the path — also for a bare
   file name and with TMPDIR on another file system) and compared with the trace of the extracted run_wfb; then
   every crash point is produced on the
   implementation (strace -e inject=<call>:signal=SIGKILL:when=<n>, kill on entry of the call) and the state of
   the path (old / new content, mode) is compared with the model's crash_state for the number of calls that
   really completed (read back from the killed run's own trace).
C  direct oracle: at every crash point the path exists and holds exactly the original or exactly the formatted
   bytes; after the complete run the permission bits seen through the path are the original ones.
"""
import os
import re
import shutil
import stat

import vlib

CLAIM = {
    "level": "proof",
    "text": "Coq theorems over a file-system model (names, symbolic links, inodes, permission bits; create/write/fchmod/"
            "close/unlink/rename; any call may fail, f.Write may be split and fail after a prefix) that interprets the "
            "statement list of writeFileWithBackup regenerated from the source on every run: at every crash point of every "
            "run the path holds the complete old content with the old mode or (only after the final rename of a fully "
            "successful run) the complete new content; a successful run keeps the permission bits; a failing run reports "
            "the error and leaves the file untouched; no other name changes. Tied to the code by the regenerated list "
            "(K-gen) and by comparing the strace'd call sequence and every SIGKILL-injected crash state of the real "
            "`xgo fmt` with the extracted model.",
    "note": "Assumed: POSIX semantics of the modelled calls (rename replaces the destination entry atomically; O_EXCL "
            "temp name is fresh), one directory, one level of symbolic link; durability (fsync) is outside the property "
            "as stated and outside the model. mode_kept needs os.Stat(path) not to fail (if it fails the code silently "
            "leaves 0600: theorem C26_mode_lost_if_stat_fails). Trusted: strace (tracing and signal injection), the "
            "mapping of strace lines to model calls in this check.",
}

XGO_SRC = "func  f( a int )int{return a+1}\nx:=1\nprintln(x)\n"
GO_SRC = "package main\nimport \"fmt\"\nfunc main(){fmt.Println( 1 )}\n"
GOX_SRC = "var (\n x int\n)\nfunc  onStart(){println( x )}\n"


def cases(ctx):
    cs = [
        # "bare": the path is given without a directory part (filepath.Split gives dir "": os.CreateTemp then uses os.TempDir())
        {"id": "reg-644-a.xgo", "kind": "reg", "mode": 0o644, "name": "a.xgo", "src": XGO_SRC},
        {"id": "reg-600-b.go-bare", "kind": "reg", "mode": 0o600, "name": "b.go", "src": GO_SRC, "bare": True},
        # the same with TMPDIR on another file system: the temporary file must still be created next to the file
        {"id": "reg-664-c.xgo-bare-tmpdir", "kind": "reg", "mode": 0o664, "name": "c.xgo", "src": XGO_SRC, "bare": True,
         "tmpdir": "/dev/shm"},
        {"id": "sym-640-l.xgo", "kind": "sym", "mode": 0o640, "name": "l.xgo", "src": XGO_SRC},
    ]
    if not ctx.quick:
        cs += [
            {"id": "reg-755-c.gox", "kind": "reg", "mode": 0o755, "name": "c.gox", "src": GOX_SRC},
            {"id": "reg-444-d.xgo", "kind": "reg", "mode": 0o444, "name": "d.xgo", "src": XGO_SRC},
            {"id": "reg-664-big.xgo", "kind": "reg", "mode": 0o664, "name": "big.xgo",
             "src": "".join("func  g%d( ){println( %d )}\n" % (i, i) for i in range(4000)) + XGO_SRC},
            {"id": "sym-604-m.go", "kind": "sym", "mode": 0o604, "name": "m.go", "src": GO_SRC},
        ]
    return cs


def build_xgo(ctx):
    exe = os.path.join(vlib.BIN, "xgo_c26" + ("_" + vlib.PTAG if vlib.PRIVATE else ""))
    with vlib.Lock("build"):
        rc, out = vlib.sh(["go", "build", "-o", exe, "./cmd/xgo"], cwd=vlib.REPO, env=vlib.GOENV, timeout=900)
    if rc != 0:
        raise RuntimeError("go build ./cmd/xgo failed:\n" + out[-2000:])
    return exe


def setup(d, c):
    shutil.rmtree(d, ignore_errors=True)
    os.makedirs(d)
    src = c["src"].encode()
    if c["kind"] == "sym":
        tname = "t_" + c["name"]
        open(os.path.join(d, tname), "wb").write(src)
        os.chmod(os.path.join(d, tname), c["mode"])
        os.symlink(tname, os.path.join(d, c["name"]))
    else:
        open(os.path.join(d, c["name"]), "wb").write(src)
        os.chmod(os.path.join(d, c["name"]), c["mode"])
    return src


def parse_trace(text, rel, generic=None):
    """`strace -f -o` output (all threads, in the order strace saw the events) -> the calls that concern the
    temporary file / the path: list of (model-call-string, syscall-name, nth-call-of-that-name-in-its-thread,
    completed).  A call that was entered but never returned (killed on entry) is listed with completed=False."""
    recs, pending, counts = [], {}, {}
    for raw in text.splitlines():
        m = re.match(r"^(\d+)\s+(.*)$", raw)
        if not m:
            continue
        pid, rest = m.group(1), m.group(2).strip()
        if rest.startswith("+++") or rest.startswith("---"):
            continue
        m3 = re.match(r"^<\.\.\. (\w+) resumed>(.*)\)\s+= (-?\d+|\?)", rest)
        if m3:
            r = pending.pop(pid, None)
            if r is not None:
                r["args"] += m3.group(2)
                r["ret"] = m3.group(3)
                recs.remove(r)
                recs.append(r)          # completed now
            continue
        m2 = re.match(r"^(\w+)\((.*?)\s*<unfinished \.\.\.>$", rest)
        m1 = re.match(r"^(\w+)\((.*)\)\s+= (-?\d+|\?)", rest)
        if m1 or m2:
            name = (m1 or m2).group(1)
            counts[(pid, name)] = counts.get((pid, name), 0) + 1
            r = {"pid": pid, "name": name, "args": (m1 or m2).group(2), "ret": m1.group(3) if m1 else None,
                 "nth": counts[(pid, name)]}
            recs.append(r)
            if m2:
                pending[pid] = r
    ops = []
    tmpname, fd = None, None
    base = re.escape(os.path.basename(rel))
    for r in recs:
        name, args, ret, nth = r["name"], r["args"], r["ret"], r["nth"]
        done = ret is not None and ret != "?" and not ret.startswith("-")
        op = None
        if name == "openat" and "O_CREAT" in args and "O_EXCL" in args and re.search(r'"(?:[^"]*/)?%s\d+"' % base, args):
            tname = re.search(r'"([^"]+)"', args).group(1)
            same = os.path.dirname(os.path.normpath(os.path.join("/cwd", tname))) == \
                os.path.dirname(os.path.normpath(os.path.join("/cwd", rel)))
            op = "create:" + args.rsplit(",", 1)[1].strip().lstrip("0") + (":samedir" if same else ":otherdir")
            if done:
                tmpname = tname
                fd = ret
        elif fd is not None and name == "write" and args.startswith(fd + ","):
            op = "write:" + (ret if done else "?")
        elif fd is not None and name in ("newfstatat", "fstatat64", "stat", "lstat") and '"%s"' % rel in args:
            op = "stat:nofollow" if ("AT_SYMLINK_NOFOLLOW" in args or name == "lstat") else "stat:follow"
        elif fd is not None and name == "fchmod" and args.startswith(fd + ","):
            op = "fchmod:" + args.split(",")[1].strip().lstrip("0")
        elif name in ("fchmodat", "chmod") and tmpname and tmpname in args:
            op = "chmod-by-name:" + args.rsplit(",", 1)[1].strip().lstrip("0")
        elif fd is not None and name == "close" and args.strip() == fd:
            op = "close"
            if done:
                fd = None
        elif name in ("renameat", "renameat2", "rename") and tmpname and tmpname in args:
            op = "rename" if ('"%s"' % rel) in args else "rename:other"
        elif name in ("unlinkat", "unlink") and (('"%s"' % rel) in args or (tmpname and tmpname in args)):
            op = "unlink:path" if ('"%s"' % rel) in args else "unlink:tmp"
        if op:
            ops.append((op, name, nth, done))
    if generic is not None:
        generic.extend((r["name"], r["nth"]) for r in recs)
    return ops


def run_strace(ctx, xgo, d, rel, inject=None, generic=None, tmpdir=None):
    tr = os.path.join(os.path.dirname(d), "tr.txt")
    if os.path.exists(tr):
        os.remove(tr)
    cmd = ["strace", "-f", "-o", tr, "-e",
           "trace=openat,write,fchmod,fchmodat,chmod,close,rename,renameat,renameat2,unlink,unlinkat,newfstatat"]
    if inject:
        cmd += ["-e", "inject=%s:signal=SIGKILL:when=%d" % inject]
    cmd += [xgo, "fmt", rel]
    rc, out = ctx.run(cmd, cwd=(d if "/" not in rel else os.path.dirname(d)), timeout=120,
                      env=dict(os.environ, GOMAXPROCS="1", **({"TMPDIR": tmpdir} if tmpdir else {})), mem_kb=16000000)
    ops = parse_trace(open(tr, errors="replace").read(), rel, generic) if os.path.exists(tr) else []
    return rc, ops


def state(d, c, orig, new):
    p = os.path.join(d, c["name"])
    try:
        data = open(p, "rb").read()
        md = stat.S_IMODE(os.stat(p).st_mode)
    except OSError:
        return "missing", None
    what = "old" if data == orig else ("new" if data == new else "other")
    return "%s:%o" % (what, md), data


def run(ctx):
    ctx.regen(["fmtops"])
    ctx.prove("C26")
    model = ctx.model("c26")
    xgo = build_xgo(ctx)
    cs = cases(ctx)
    impl_lines, model_in, meta = [], [], []
    covered_total, missed_total, runs = set(), 0, 0
    for c in cs:
        d = os.path.join(ctx.scratch, c["id"], "dir")
        rel = c["name"] if c.get("bare") else "dir/" + c["name"]
        td = c.get("tmpdir") if c.get("tmpdir") and os.path.isdir(c.get("tmpdir", "")) else None
        # the complete run
        orig = setup(d, c)
        generic = []
        rc, ops = run_strace(ctx, xgo, d, rel, generic=generic, tmpdir=td)
        runs += 1
        # nothing may be left behind in TMPDIR / next to the file after a complete run
        left = [f for f in os.listdir(d) if f.startswith(c["name"]) and f != c["name"]]
        if td:
            left += [os.path.join(td, f) for f in os.listdir(td) if f.startswith(c["name"])]
        if left:
            ctx.fail("litter:" + c["id"], "temporary file left behind after `xgo fmt`: %s" % left, {"case": c["id"], "files": left})
        st_final, new = state(d, c, orig, None)
        if rc != 0 or new is None or new == orig or not any(o[0].startswith("create") for o in ops):
            ctx.broken("correspondence(c26:run)", "%s: xgo fmt rc=%d ops=%r state=%s" % (c["id"], rc, ops[:8], st_final))
            # the expected scheme (temporary file + rename) is not what the binary does: search for a failing crash
            # point anyway — kill on entry of each of the last calls that can mutate the directory / a file
            if rc == 0 and new is not None and new != orig:
                last = {}
                for nm, nth in generic:
                    if nm in ("write", "close", "renameat", "renameat2", "rename", "unlinkat", "unlink", "fchmod", "fchmodat", "chmod"):
                        last.setdefault(nm, []).append(nth)
                for nm, nths in sorted(last.items()):
                    for nth in sorted(set(nths))[-4:]:
                        setup(d, c)
                        rck, _ = run_strace(ctx, xgo, d, rel, inject=(nm, nth), tmpdir=td)
                        runs += 1
                        s_, _d = state(d, c, orig, new)
                        if rck != 0 and not (s_.startswith("old:") or s_.startswith("new:")):
                            ctx.fail("crash:%s:%s#%d" % (c["id"], nm, nth),
                                     "killed on entry of %s call number %d of its thread: the path is %s" % (nm, nth, s_),
                                     {"case": c["id"], "state": s_,
                                      "how": "strace -f -e inject=%s:signal=SIGKILL:when=%d xgo fmt %s" % (nm, nth, rel)})
            continue
        seq = [o[0] for o in ops]
        points = {0: "old:%o" % c["mode"], len(seq): state(d, c, orig, new)[0]}
        # direct oracle on the complete run
        if points[len(seq)] != "new:%o" % c["mode"]:
            ctx.fail("final:" + c["id"], "after `xgo fmt` the path holds %s, expected new:%o" % (points[len(seq)], c["mode"]),
                     {"case": c["id"], "mode": "%o" % c["mode"], "kind": c["kind"], "calls": seq, "state": points[len(seq)]})
        # every crash point: kill on entry of the j-th call of the sequence.  `when` counts the calls of one
        # thread; the Go runtime may run the goroutine on another thread the next time, so several counts are
        # tried and every crash that is produced is labelled by the calls that really completed
        # crash points whose file-system state is the same (the calls between them mutate nothing: stat, close)
        # form one class; one produced point per class is enough, the unique calls (fchmod, rename) go first
        def cls(k):
            nm = seq[k - 1].split(":")[0] if 0 < k <= len(seq) else ""
            return k - 1 if nm in ("stat", "close") else k
        order = sorted(range(len(ops)), key=lambda j: (0 if ops[j][1] in ("fchmod", "renameat", "renameat2", "rename") else 1, j))
        for j in order:
            op, sname, nth, _ = ops[j]
            if j == 0 or any(cls(k) == cls(j) for k in points if k != 0):
                continue
            for cand in [nth, nth - 1, nth + 1, 1]:
                if cand < 1 or any(cls(k) == cls(j) for k in points if k != 0):
                    continue
                setup(d, c)
                rck, kops = run_strace(ctx, xgo, d, rel, inject=(sname, cand), tmpdir=td)
                runs += 1
                done_ops = [o[0] for o in kops if o[3]]
                k = len(done_ops)
                if rck == 0 or done_ops != seq[:k] or k == len(seq):
                    continue
                s_, data = state(d, c, orig, new)
                points[k] = s_
                covered_total.add((c["id"], k))
                if not (s_.startswith("old:") or s_.startswith("new:")):
                    ctx.fail("crash:%s:k=%d" % (c["id"], k),
                             "killed on entry of call %d (%s): the path is %s" % (k, seq[k], s_),
                             {"case": c["id"], "crash_after_calls": k, "calls": seq, "state": s_,
                              "how": "strace -f -e inject=%s:signal=SIGKILL:when=%d xgo fmt %s" % (sname, cand, rel)})
            if not any(cls(k) == cls(j) for k in points if k != 0):
                missed_total += 1
        ks = sorted(points)
        impl_lines.append("%s | %s" % (" ".join(seq), " ".join("%d=%s" % (k, points[k]) for k in ks)))
        model_in.append("%s %o %d %d %d" % (c["kind"], c["mode"], len(orig), len(new), 1 if c.get("bare") else 0))
        meta.append((c, ks, seq))
    if not meta:
        return
    rc, out = ctx.run([model], input="\n".join(model_in) + "\n", timeout=120)
    mlines = out.splitlines()
    if rc != 0 or len(mlines) != len(meta):
        ctx.broken("correspondence(c26:model)", "model rc=%d %s" % (rc, out[-300:]))
        return
    proj = []
    for (c, ks, seq), ml in zip(meta, mlines):
        parts = ml.split(" | ")
        pts = dict(p.split("=", 1) for p in parts[1].split())
        # write sizes: the model's content is abstract, the length is given -> identical text
        proj.append("%s | %s" % (parts[0], " ".join("%d=%s" % (k, pts.get(str(k), "?")) for k in ks)))
    ctx.diff_lines("run_wfb~xgo fmt", [m[0]["id"] for m in meta], "\n".join(impl_lines), "\n".join(proj))
    need = sum(len(set(1 + i for i, o in enumerate(m[2]) if o.split(":")[0] in ("create", "write", "fchmod"))) for m in meta)
    if len(covered_total) < need:
        ctx.broken("fault-enumeration(c26)", "only %d of %d crash points could be produced" % (len(covered_total), need))
    ctx.cover(evaluations=runs, distinct_nontrivial=len(covered_total) + len(meta),
              samples=[{"case": m[0]["id"], "implementation": il, "model": pl} for m, il, pl in zip(meta, impl_lines, proj)][:4],
              rule="%d files (regular / symbolic link, path with a directory part / bare file name (also with TMPDIR on another file "
                   "system: the temporary file must be created next to the file), .xgo / .go%s, modes %s); per file one traced complete run + SIGKILL-on-entry runs "
                   "until every distinct file-system state between the recorded calls (create, write, stat, fchmod, close, rename) has "
                   "been produced (after create / after write / after fchmod; before create = untouched, after rename = complete run), "
                   "labelled by the calls that really completed; non-trivial = distinct (file, crash point) produced on the implementation + complete runs; "
                   "%d injections missed their point (thread migration) after 3 attempts"
                   % (len(meta), "" if ctx.quick else " / .gox", ",".join("%o" % m[0]["mode"] for m in meta), missed_total),
              crash_points_covered=sorted("%s@%d" % x for x in covered_total), exhaustive=(missed_total == 0),
              input_shape_histogram={"regular": sum(1 for m in meta if m[0]["kind"] == "reg"),
                                     "symlink": sum(1 for m in meta if m[0]["kind"] == "sym")})
    ctx.assume("POSIX semantics of openat(O_EXCL)/write/fchmod/close/renameat/unlinkat as modelled; rename(2) replaces the "
               "destination atomically; durability (fsync) is not part of the property",
               "os.Stat(path) does not fail on the file just read (otherwise the mode is lost: C26_mode_lost_if_stat_fails)")
    ctx.trust("modelled, not verified: cmd/internal/gopfmt/fmt.go writeFileWithBackup (statement list regenerated by the "
              "translator, interpreted by Model/C26.v); os.CreateTemp/os.File/os.Rename are modelled by the system calls strace shows",
              "strace 6.1 (tracing, -e inject signal on syscall entry)", "the strace-line to model-call mapping in checks/c26.py")
