"""Per-property claims (level, texts) -> MANIFEST.json via ../mkmanifest.py."""
HOOK_COMMITS = []
NOT_APPLICABLE = {}
CHECKS = {
    "C35": {
        "level": "proof",
        "text": "Coq theorems over a line-by-line model of ParseOne/ParseAll (termination, ordered concatenation, "
                "maximal file runs, mixed-error iff) for all argument lists; model tied to the code by an exhaustive "
                "small-scope + seeded differential run of the extracted model against xgoprojs.ParseAll.",
        "note": "Trusted: Coq kernel, extraction (ExtrOcamlBasic), harness; filepath.Ext modelled for '/' separator; "
                "the Go code itself is modelled, not verified.",
    },
}
