"""Per-property claims (level, texts) -> MANIFEST.json via ../mkmanifest.py."""
HOOK_COMMITS = []
NOT_APPLICABLE = {}
