"""C19 — formatting preserves the syntax tree (format/format.go, printer/nodes.go; parser for the re-parse).

A  Props/C19.v over Model/Expr.v: a tree shaped as the parser returns it (parentheses where the grammar needs
   them: noaddb, posokb) is re-read from its printed tokens as exactly the same tree; for any readable tree the
   structure modulo parentheses is kept.
B  K-diff of the expression kernel on parser-shaped trees (norm e of the C22 enumeration): tokens of the real
   printer = pr e, real re-parse = model re-parse = e itself (exact, parentheses included).
C  direct oracle on whole files: parse(format.Source(src)) ~ parse(src), reflection dump ignoring positions,
   comments, resolution data, import order inside one declaration, doubled parentheses and the parentheses
   around a whole if/for/switch condition or range operand (which the printer strips deliberately); on the repository's XGo and
   class files, a comment inserted before every token of the small files, and seeded generated sources.
"""
from checks import g6fmt, c22

CLAIM = {
    "level": "other",
    "text": "Coq theorem for the expression kernel (identifier, literal, unary, star, binary over the regenerated precedence table, "
            "parenthesis, call, index, selector, error wrap, lambda): for EVERY token list the parser model accepts, printing the resulting "
            "tree and parsing again returns the same tree (up to doubled parentheses '((x))', which the printer prints as '(x)'); it rests on "
            "the proved invariant that every tree the parser returns needs no further parentheses.  The kernel is tied to printer and "
            "parser by K-gen tables and a differential run on parser-shaped trees.  Statements, declarations, class files, layout and "
            "comments are explored: parse(format(src)) is compared structurally with parse(src) on the whole corpus, on a comment inserted "
            "before every token of the small files (deterministic) and on seeded generated sources.",
    "note": "Kernel theorem + explored remainder.  That the printed text scans back to the model's tokens is covered by the table obligation "
            "C19_mayCombine_covers_prefix_operators (regenerated mayCombine x regenerated token spellings) and by the deterministic "
            "token-adjacency family (every operator x every prefix operator, normal and compact contexts).  The structural comparison ignores positions, comments, resolution data, the order of "
            "import specs inside one declaration, doubled parentheses and parentheses around a whole if/for/switch condition or range operand.  "
            "Trusted: Coq kernel, extraction, translator, harness.",
}


def run(ctx):
    ctx.regen(["tokens", "printerexpr"])
    ctx.prove("C19")
    model = ctx.model("expr")
    impl = ctx.harness("c22")
    T = c22.toks(ctx)
    g = c22.Gen(T)
    c22.fill_prec(g, T)
    cases = [c for c in c22.build_cases(ctx, T, g) if c[0] == "E"]
    if ctx.quick:   # C22 runs the whole enumeration; here: every tree of depth <= 2 and every third deeper one
        cases = [c for i, c in enumerate(cases) if c22.depth(c[1]) <= 2 or i % 3 == 0]
    pin = "".join("P\tE\t%s\n" % s for c, n, s in cases)
    rc, out = ctx.run([model], input=pin)
    ml = out.split("\n")[:-1]
    if rc != 0 or len(ml) != len(cases):
        ctx.broken("correspondence(c19:model)", "rc=%d lines=%d cases=%d" % (rc, len(ml), len(cases)))
        return
    shaped = sorted(set(f[1] for f in (l.split("\t") for l in ml) if len(f) == 4 and "v" in f[3] and "p" in f[3]))
    pin = "".join("P\tE\t%s\n" % s for s in shaped)
    rc1, o1 = ctx.run([impl], input=pin)
    rc2, o2 = ctx.run([model], input=pin)
    il, ml = o1.split("\n")[:-1], o2.split("\n")[:-1]
    if rc1 != 0 or rc2 != 0 or len(il) != len(shaped) or len(ml) != len(shaped):
        ctx.broken("correspondence(c19:run)", "impl rc=%d lines=%d model rc=%d lines=%d cases=%d" % (rc1, len(il), rc2, len(ml), len(shaped)))
        return
    ti, tm, pi, pm, fl = [], [], [], [], []
    for s, a, b in zip(shaped, il, ml):
        fa, fb = a.split("\t"), b.split("\t")
        ti.append(fa[0]); tm.append(fb[0])
        pi.append("ERR" if fa[1] == "parse-error" else fa[2]); pm.append(fb[2])
        fl.append("vpa" if all(x in fb[3] for x in "vpa") else fb[3])
        if fa[1] == "parse-error" or fa[2] != s:
            ctx.fail("tree:" + s.replace(" ", "_"), "parser-shaped tree %s prints %s and re-parses as %s" % (s, fa[3], fa[2]), {"tree": s, "impl": a})
    ctx.diff_lines("pr~printer.Fprint+scanner (parser-shaped trees)", shaped, "\n".join(ti), "\n".join(tm))
    ctx.diff_lines("parse(pr e)~parser.ParseExpr(Fprint e) (parser-shaped trees)", shaped, "\n".join(pi), "\n".join(pm))
    ctx.diff_lines("norm e is parser-shaped (noaddb, posokb, validb)", shaped, "\n".join(["vpa"] * len(shaped)), "\n".join(fl))
    ctx.cover(evaluations=len(cases) + len(shaped), distinct_nontrivial=len(shaped),
              rule="expression kernel: %d parser-shaped trees (norm e of the %d enumerated model trees) compared token by token and tree by tree" % (len(shaped), len(cases)),
              parser_shaped_trees=len(shaped))
    g6fmt.run_property(ctx, "tree", "same", "C19 (tree preserved)")
    ctx.trust("modelled, not verified: printer/nodes.go expr1/binaryExpr and parser/parser.go parseBinaryExpr..parseOperand (Model/Expr.v)",
              "explored, not modelled: statements, declarations, class files, layout, comments (format.Source on whole files)")
    ctx.assume("a variant of a corpus file that does not parse makes no claim")
