"""C11 — a normal .gox class file behaves like its explicit struct form (parser.parseValueSpec class branch;
cl/compile.go preloadGopFile typInit / preloadFile classRecv; cl/expr.go compileIdent member lookup).

A  Props/C11.v : C11_class_fields_exact(_nodup), C11_class_fields_nodup, C11_class_methods_exact,
   C11_class_plain_is_method, C11_class_funcs_count, C11_class_equiv, C11_static_scope_is_lexical,
   C11_desugar_idempotent, C11_class_struct_any_order, C11_class_equiv_two_instances,
   C11_static_scope_is_lexical_two_instances
B  K-diff on generated classes (several per package, one go build, one run):
   (type view)  fields (order, names, embedded, type, tag) and functions/receivers of the Go type emitted for
                the class file  ==  class_fields / class_funcs of the model
   (behaviour)  output of a call scenario on the class compiled from the .gox file  ==  run_class (model);
                output of the same scenario on the EXPLICIT form — struct + `this.` everywhere, produced by the
                model's desugar_class and compiled by the same compiler — == run_explicit (model)
C  direct oracle: class-form output == explicit-form output; the emitted type has exactly the declared fields
   and one method with receiver `this *Class` per plain function.
"""
import json
import os

import vlib

CLAIM = {
    "level": "other",
    "text": "Coq theorems over a model of the class-file desugaring: the struct has exactly the declared fields in "
            "order (first declaration wins), every function of the file yields exactly one Go function and a plain "
            "function is a method with receiver `this *Class`; and for every class of a small imperative language "
            "(assignments, := with shadowing, block scope, method calls, recursion) the class form — bare names "
            "resolved local, then member, then global — evaluates exactly like its desugared explicit form, for all "
            "inputs and fuel. Tied to /repo by compiling generated .gox classes together with the explicit form the "
            "model itself produces, comparing the emitted Go types with the model and the program outputs of both forms "
            "with the model's evaluator and with each other.",
    "note": "Modelled, not verified: parser.parseValueSpec (class branch), cl preloadGopFile/preloadFile/compileIdent as "
            "far as normal .gox files are concerned. The evaluator is my own small language (int fields, one-parameter "
            "int methods); project class files (spx/gmx), embedded-member promotion, static-method calls and overloads "
            "inside class files are outside the evaluator (static methods and receiver functions are covered by the type "
            "view only).",
}

POOL = ["x0", "x1", "x2", "x3", "x4", "x5"]
GLOBALS = POOL + ["g0", "g1"]
# names of the Go universe scope that are legal member names: inside the class a bare `min` / `len(x)` must denote the
# member (class member beats universe in cl's compileIdent); they are NOT declared at package level
UNIVERSE_FIELDS = ["min", "max", "cap", "real", "string", "error", "any", "iota", "nil", "true"]
UNIVERSE_METHODS = ["len", "copy", "new", "close", "clear", "imag"]

PKG_COMMON = '''package %s

import "bytes"

var (
	x0, x1, x2, x3, x4, x5 int
	g0, g1                 int
)

type Base struct {
	b int
}

func (p *Base) bump(k int) int {
	p.b += k
	return p.b
}

type Other struct {
	k int
}

var _ bytes.Buffer

func lt(a, b int) int {
	if a < b {
		return 1
	}
	return 0
}

func resetGlobals() {
	x0, x1, x2, x3, x4, x5, g0, g1 = 0, 0, 0, 0, 0, 0, 0, 0
}

'''

DECOR = [
    ("ids", ["name"], "string", 'json:"name"'),
    ("ids", ["tags"], "[]string", None),
    ("ids", ["mm"], "map[string]int", 'k:"v" j:"w"'),
    ("ids", ["Base"], None, None),
    ("star", "Other", None, None),
    ("starsel", "bytes", "Buffer", None),
    ("sel", "bytes", "Reader", 'x:"y"'),
    ("ids", ["fl", "fm"], "float64", None),
]


def hx(s):
    return s.encode().hex() if s else "-"


class ClassGen:
    def __init__(self, rng, name):
        self.rng, self.name = rng, name
        nf = 1 + rng.below(4)
        self.fields = []
        while len(self.fields) < nf:
            f = rng.choice(POOL + UNIVERSE_FIELDS[:4]) if rng.below(4) else rng.choice(UNIVERSE_FIELDS)
            if f not in self.fields:
                self.fields.append(f)
        self.nm = 1 + rng.below(4)
        self.mnames = ["m%d" % i for i in range(self.nm)]
        for i in range(self.nm):
            if rng.below(4) == 0:
                u = rng.choice(UNIVERSE_METHODS)
                if u not in self.mnames:
                    self.mnames[i] = u
        self.hist = {}
        self.methods = []
        for i in range(self.nm):
            param = rng.choice(["a", "a", rng.choice(POOL)])
            self.cur = i
            body = self.block(2 + rng.below(2), [param], [param], top=True)
            body.append(["return", self.expr(2, [param], top=True)])
            self.methods.append((self.mnames[i], param, body))
        # two instances, always both used: a := &K{firstfield: 1}, b := new(K)
        self.calls = [(rng.choice("ab"), rng.choice(self.mnames), rng.below(9) - 2) for _ in range(2 + rng.below(4))]
        self.calls += [("a", rng.choice(self.mnames), rng.below(9) - 2), ("b", rng.choice(self.mnames), rng.below(9) - 2)]
        # the leading declarations of the class file, in a seeded order: consts and types before and/or after the var block
        self.pre = [k for k in ("const", "type") if rng.below(2)]
        if rng.below(2):
            self.pre.reverse()
        self.post = [k for k in ("const", "type") if rng.below(3) == 0]
        # the var block: int fields (grouped at random) + decorations
        self.specs = []
        fs = list(self.fields)
        while fs:
            k = 1 + rng.below(min(2, len(fs)))
            grp, fs = fs[:k], fs[k:]
            self.specs.append(("ids", grp, "int", 'json:"%s"' % grp[0] if rng.below(4) == 0 else None))
        for d in DECOR:
            if rng.below(3) == 0:
                self.specs.insert(rng.below(len(self.specs) + 1), d)
        self.static = rng.below(3) == 0
        self.recvfn = rng.below(3) == 0

    def count(self, k):
        self.hist[k] = self.hist.get(k, 0) + 1

    def name_in(self, scope):
        r = self.rng.below(10)
        if r < 4 and scope:
            return self.rng.choice(scope)
        if r < 8:
            return self.rng.choice(self.fields)
        return self.rng.choice(GLOBALS)

    def expr(self, depth, scope, top=False):
        """top=True: the expression fills a whole slot (right-hand side, printed value, condition, returned value,
        call argument).  A method call is only generated there: Go does not specify whether an operand such as a field
        read in `x3 + m3(1)` is evaluated before or after the call (gc reads it AFTER), so a call next to another
        operand that the callee can modify has no defined meaning to compare with."""
        later = self.mnames[self.cur + 1:]
        if top and later and self.rng.below(5) == 0:
            self.count("call")
            return [self.rng.choice(["call", "call", "thiscall"]), self.rng.choice(later), self.expr(depth - 1, scope, top=True)]
        r = self.rng.below(10 if depth > 0 else 5)
        if r < 2:
            return str(self.rng.below(7) - 2)
        if r < 5:
            return ["id", self.name_in(scope)]
        if r < 7:
            return ["add", self.expr(depth - 1, scope), self.expr(depth - 1, scope)]
        if r < 8:
            return ["mul", self.expr(depth - 1, scope), str(self.rng.below(5) - 2)]
        if r < 9:
            return ["lt", self.expr(depth - 1, scope), self.expr(depth - 1, scope)]
        self.count("this.f")
        return ["this", self.rng.choice(self.fields)]

    def block(self, depth, scope, declared_here, top=False):
        """scope: locals in scope; declared_here: names declared in THIS Go block (no := twice in one block)"""
        out = []
        scope = list(scope)
        declared_here = list(declared_here)
        for _ in range(1 + self.rng.below(4)):
            r = self.rng.below(11)
            if r < 3:
                self.count("assign")
                out.append(["assign", self.name_in(scope), self.expr(2, scope, top=True)])
            elif r < 4:
                self.count("thisassign")
                out.append(["thisassign", self.rng.choice(self.fields), self.expr(2, scope, top=True)])
            elif r < 6:
                cand = [n for n in ["t0", "t1"] + self.fields + ["g0"] if n not in declared_here]
                if not cand:
                    continue
                x = self.rng.choice(cand)
                self.count("define-shadowing-field" if x in self.fields else "define")
                out.append(["define", x, self.expr(2, scope, top=True)])
                scope = [x] + scope
                declared_here.append(x)
                out.append(["print", ["id", x]])
            elif r < 8:
                self.count("print")
                out.append(["print", self.expr(2, scope, top=True)])
            elif r < 9:
                later = self.mnames[self.cur + 1:]
                if later:
                    self.count("callstmt")
                    out.append(["expr", [self.rng.choice(["call", "thiscall"]), self.rng.choice(later), self.expr(1, scope, top=True)]])
            elif depth > 0:
                self.count("if")
                t = self.block(depth - 1, scope, [])
                f = self.block(depth - 1, scope, []) if self.rng.below(2) else []
                if self.rng.below(5) == 0:
                    t.append(["return", self.expr(1, scope, top=True)])
                out.append(["if", self.expr(2, scope, top=True), t, f])
        return out

    @staticmethod
    def sx(x):
        if isinstance(x, list):
            return "(" + " ".join(ClassGen.sx(y) for y in x) + ")"
        return x

    def spec_sx(self, sp):
        if sp[0] == "ids":
            return "(ids (%s) %s %s)" % (" ".join(sp[1]), hx(sp[2]) if sp[2] else "-", hx(sp[3]) if sp[3] else "-")
        if sp[0] == "star":
            return "(star %s %s)" % (sp[1], hx(sp[3]) if sp[3] else "-")
        return "(%s %s %s %s)" % (sp[0], sp[1], sp[2], hx(sp[3]) if sp[3] else "-")

    def spec_src(self, sp):
        tag = " `%s`" % sp[3] if sp[3] else ""
        if sp[0] == "ids":
            return "\t%s%s%s" % (", ".join(sp[1]), " " + sp[2] if sp[2] else "", tag)
        if sp[0] == "star":
            return "\t*%s%s" % (sp[1], tag)
        if sp[0] == "starsel":
            return "\t*%s.%s%s" % (sp[1], sp[2], tag)
        return "\t%s.%s%s" % (sp[1], sp[2], tag)

    def funcs(self):
        fs = [(m, "plain") for m in self.mnames]
        if self.static:
            fs.append(("st", "static"))
        if self.recvfn:
            fs.append(("touch" + self.name, "(recv Other)"))
        return fs

    def decls(self):
        return ["import"] + self.pre + ["var"] + self.post + ["func"] * len(self.funcs())

    def decl_src(self, k, i):
        if k == "const":
            return "const c%s%d = %d\n\n" % (self.name, i, 3 + i)
        return "type t%s%d struct {\n\tv int\n}\n\n" % (self.name, i)

    def model_line(self):
        return "(class %s (decls %s) (specs %s) (funcs %s) (fields %s) (methods %s) (globals %s) (calls %s))" % (
            self.name, " ".join(self.decls()), " ".join(self.spec_sx(s) for s in self.specs),
            " ".join("(%s %s)" % f for f in self.funcs()), " ".join(self.fields),
            " ".join("(%s %s %s)" % (n, p, self.sx(b)) for n, p, b in self.methods),
            " ".join(GLOBALS), " ".join("(%s %s %d)" % c for c in self.calls))

    def gox(self, pkg, class_src):
        src = 'package %s\n\nimport "bytes"\n\n' % pkg
        src += "".join(self.decl_src(k, i) for i, k in enumerate(self.pre))
        src += "var (\n%s\n)\n\n" % "\n".join(self.spec_src(s) for s in self.specs)
        src += "".join(self.decl_src(k, 10 + i) for i, k in enumerate(self.post))
        src += class_src
        if self.static:
            src += "func .st(a int) int {\n\treturn a + 1\n}\n\n"
        if self.recvfn:
            src += "func (o *Other) touch%s() {\n\to.k++\n}\n\n" % self.name
        return src

    def driver(self, tname, tag):
        # fields are also read from OUTSIDE the class: composite literal with a field, a.f / b.f selectors
        L = ["\tresetGlobals()", "\t{", "\t\ta := &%s{%s: 1}" % (tname, self.fields[0]), "\t\tb := new(%s)" % tname,
             '\t\techo "%s", "%s"' % (tag, self.name)]
        for o, m, v in self.calls:
            L.append('\t\techo "ret", %s.%s(%d)' % (o, m, v))
        L.append('\t\techo "flda", %s' % ", ".join("a." + f for f in self.fields))
        L.append('\t\techo "fldb", %s' % ", ".join("b." + f for f in self.fields))
        L.append('\t\techo "glb", %s' % ", ".join(GLOBALS))
        L.append("\t}")
        return L


def witness_class(name):
    """fixed (seed independent): fields `min, max int`, methods len / clamp that use them and each other by bare name"""
    c = ClassGen(vlib.SplitMix(7), name)
    c.fields = ["min", "max"]
    c.mnames = ["clamp", "len"]
    c.methods = [
        ("clamp", "v", [["if", ["lt", ["id", "v"], ["id", "min"]], [["return", ["id", "min"]]], []],
                        ["assign", "max", ["call", "len", ["id", "v"]]],
                        ["print", ["id", "max"]],
                        ["return", ["add", ["id", "max"], ["id", "min"]]]]),
        ("len", "a", [["assign", "min", ["add", ["id", "min"], ["id", "a"]]],
                      ["define", "max", ["mul", ["id", "min"], "2"]],
                      ["print", ["id", "max"]],
                      ["return", ["add", ["id", "max"], ["this", "max"]]]]),
    ]
    c.calls = [("a", "clamp", 3), ("b", "clamp", 0), ("a", "len", 2), ("b", "len", -1), ("a", "clamp", 1)]
    c.specs = [("ids", ["min", "max"], "int", None)]
    c.pre, c.post = ["const"], []
    c.static = c.recvfn = False
    c.hist = {"fixed-witness-universe-names": 1}
    return c


def parse_model(l):
    return dict(t.split("=", 1) for t in l.split(" ") if "=" in t)


def fmt_outcome(rets, trace, flda, fldb, glbs):
    return "V:%s|%s|%s|%s|%s" % (",".join(rets), ",".join(trace), ",".join(flda), ",".join(fldb), ",".join(glbs))


def run(ctx):
    ctx.level = CLAIM["level"]
    ctx.prove("C11")
    model = ctx.model("c11")
    impl = ctx.harness("c11")
    ctx.log("model and harness built")

    nclasses = ctx.n(24, 600)
    per_pkg = 8
    classes = [ClassGen(ctx.rng, "K%d" % i) for i in range(nclasses - 1)] + [witness_class("K%d" % (nclasses - 1))]
    rc, mout = ctx.run([model], input="\n".join(c.model_line() for c in classes) + "\n")
    ml = mout.splitlines()
    if rc != 0 or len(ml) != len(classes) or any(l.startswith("BADINPUT") for l in ml):
        ctx.broken("correspondence(c11:model)", "rc=%d lines=%d/%d %s" % (rc, len(ml), len(classes), [l for l in ml if l.startswith("BAD")][:2]))
        return
    models = [parse_model(l) for l in ml]
    und = [c.name for c, m in zip(classes, models) if not m["RUNC"].startswith("V:")]
    if und:
        ctx.broken("generator-guard", "the model does not evaluate generated classes %s to a value" % und[:5])

    # ---------------- the packages: K<i>.gox (class form) + x.xgo (explicit form from the model, common code, driver)
    cases = []
    groups = [list(range(i, min(i + per_pkg, nclasses))) for i in range(0, nclasses, per_pkg)]
    for gi, idxs in enumerate(groups):
        pkg = "g%d" % gi
        files = []
        x = PKG_COMMON % pkg
        run_body = []
        for i in idxs:
            c, m = classes[i], models[i]
            files.append({"name": c.name + ".gox", "src": c.gox(pkg, bytes.fromhex(m["CLS"]).decode())})
            # the explicit form: struct with the model's field list + the model's desugared methods
            fl = []
            for f in m["FIELDS"].split(","):
                n, emb, ty, tag = f.split(":")
                ty = bytes.fromhex(ty).decode()
                tg = " `%s`" % bytes.fromhex(tag).decode() if tag != "-" else ""
                fl.append("\t%s%s" % (ty, tg) if emb == "1" else "\t%s %s%s" % (n, ty, tg))
            x += "type %sX struct {\n%s\n}\n\n" % (c.name, "\n".join(fl))
            x += bytes.fromhex(m["EXPL"]).decode()
            run_body += c.driver(c.name, "C") + c.driver(c.name + "X", "X")
        x += "func Run() {\n" + "\n".join(run_body) + "\n}\n"
        files.append({"name": "x.xgo", "src": x})
        cases.append({"pkg": pkg, "files": files})

    root = os.path.join(ctx.scratch, "c11run")
    os.makedirs(root)
    moddir = os.path.join(vlib.BUILD, "harness_" + getattr(vlib, "PTAG", vlib.sha(vlib.REPO))) if vlib.PRIVATE else vlib.HARNESS
    rc, out = ctx.run([impl, "-root", root, "-moddir", moddir], input="\n".join(json.dumps(c) for c in cases) + "\n", timeout=300)
    res = [json.loads(l) for l in out.splitlines() if l.startswith("{")]
    if rc != 0 or len(res) != len(cases):
        ctx.broken("correspondence(c11:harness)", "rc=%d results=%d/%d %s" % (rc, len(res), len(cases), out[-300:]))
        return
    ctx.log("compiled %d packages" % len(res))
    runnable = []
    for case, r in zip(cases, res):
        if r["status"] == "ok":
            runnable.append(r["pkg"])
        else:
            ctx.fail("src:" + vlib.sha(json.dumps(case)), "a generated package of class files does not compile: " + r["status"][:300],
                     {"package": case, "status": r["status"]})

    # ---------------- B (type view)
    tc, ti, tm = [], [], []
    for gi, idxs in enumerate(groups):
        r = res[gi]
        if r["status"] != "ok":
            continue
        for i in idxs:
            c, m = classes[i], models[i]
            got = ",".join("%s:%s:%s:%s" % (f[0], f[1], hx(f[2]), hx(f[3])) for f in r["types"].get(c.name, []))
            tc.append("%s fields" % c.name)
            ti.append(got)
            tm.append(m["FIELDS"])
            # functions of the class file: methods of the class, the static function, receiver functions
            want = sorted(m["FUNCS"].split(","))
            names = set(w.split("/")[0] for w in want)
            # (the receiver NAME of a function that already had a receiver is not part of the projection)
            have = sorted("%s/%s/%s" % (f[0], f[1] if f[1] == "this" else "", f[2].lstrip("*")) for f in r["funcs"]
                          if (f[2].lstrip("*") == c.name) or (f[0] in names and f[2].lstrip("*") != c.name + "X" and
                                                              (f[0].startswith("Gops_") or f[0].startswith("touch"))))
            tc.append("%s functions" % c.name)
            ti.append(",".join(have))
            tm.append(",".join(want))
            # direct oracle on the type: exactly the declared names, one `this *K` method per plain function
            declared = []
            for sp in c.specs:
                tg = sp[3] or ""
                if sp[0] == "ids" and sp[2]:
                    declared += [[n, "0", sp[2], tg] for n in sp[1]]
                elif sp[0] == "ids":
                    declared.append([sp[1][0], "1", sp[1][0], tg])
                elif sp[0] == "star":
                    declared.append([sp[1], "1", "*" + sp[1], tg])
                elif sp[0] == "starsel":
                    declared.append([sp[2], "1", "*%s.%s" % (sp[1], sp[2]), tg])
                else:
                    declared.append([sp[2], "1", "%s.%s" % (sp[1], sp[2]), tg])
            if [list(f) for f in r["types"].get(c.name, [])] != declared:
                ctx.fail("src:%s:fields" % vlib.sha(c.model_line()),
                         "class %s: the emitted struct has fields [name, embedded, type, tag] %s, the var block declares %s"
                         % (c.name, r["types"].get(c.name, []), declared), {"class": c.model_line(), "gox": cases[gi]["files"]})
            meths = sorted(f[0] for f in r["funcs"] if f[1] == "this" and f[2] == "*" + c.name)
            if meths != sorted(c.mnames):
                ctx.fail("src:%s:methods" % vlib.sha(c.model_line()), "class %s: methods with receiver `this *%s` are %s, the file declares %s"
                         % (c.name, c.name, meths, sorted(c.mnames)), {"class": c.model_line()})
    ctx.diff_lines("emitted struct fields and functions ~ class_fields/class_funcs", tc, "\n".join(ti), "\n".join(tm))

    # ---------------- one build, one run
    open(os.path.join(root, "go.mod"), "w").write("module c11run\n\ngo 1.18\n")
    open(os.path.join(root, "main.go"), "w").write('''package main

import (
	"fmt"
%s
)

func guard(name string, f func()) {
	defer func() {
		if e := recover(); e != nil {
			fmt.Println("PANIC", name, e)
		}
	}()
	f()
}

func main() {
%s
}
''' % ("\n".join('\t"c11run/%s"' % p for p in runnable), "\n".join('\tguard("%s", %s.Run)' % (p, p) for p in runnable)))
    rc, bout = ctx.run("go build -o prog . 2>&1", cwd=root, timeout=600, mem_kb=16000000)
    if rc != 0:
        ctx.broken("correspondence(c11:go build)", "the emitted Go does not build: " + bout[-1500:])
        return
    ctx.log("go build done")
    rc, rout = ctx.run([os.path.join(root, "prog")], cwd=root, timeout=120)
    if rc != 0:
        ctx.broken("correspondence(c11:run)", "rc=%d %s" % (rc, rout[-300:]))
        return
    obs = {}
    cur = None
    for l in rout.splitlines():
        f = l.split(" ")
        if f[0] in ("C", "X") and len(f) == 2:
            cur = obs.setdefault((f[0], f[1]), {"ret": [], "P": [], "flda": [], "fldb": [], "glb": []})
        elif f[0] == "PANIC":
            ctx.broken("correspondence(c11:run)", "generated program panicked: " + l)
        elif cur is not None and f[0] in ("ret", "P"):
            cur[f[0]].append(f[1])
        elif cur is not None and f[0] in ("flda", "fldb", "glb"):
            cur[f[0]] = f[1:]

    bc, bi, bm = [], [], []
    nrun = 0
    hist = {}
    for gi, idxs in enumerate(groups):
        if res[gi]["status"] != "ok":
            continue
        for i in idxs:
            c, m = classes[i], models[i]
            for k, v in c.hist.items():
                hist[k] = hist.get(k, 0) + v
            outs = {}
            for tag, key in (("C", "RUNC"), ("X", "RUNX"), ("C", "RUND")):
                o = obs.get((tag, c.name))
                if o is None:
                    s = "<no output>"
                else:
                    s = fmt_outcome(o["ret"], o["P"], ["%s=%s" % p for p in zip(c.fields, o["flda"])],
                                    ["%s=%s" % p for p in zip(c.fields, o["fldb"])], ["%s=%s" % p for p in zip(GLOBALS, o["glb"])])
                outs[tag] = s
                bc.append("%s %s" % (c.name, {"RUNC": "class form", "RUNX": "explicit form", "RUND": "class form ~ environment-based evaluator"}[key]))
                bi.append(s)
                bm.append(m[key])
                nrun += 1
            if outs["C"] != outs["X"]:
                ctx.fail("src:%s:equiv" % vlib.sha(c.model_line()), "class %s: the class form prints %s, its explicit form prints %s"
                         % (c.name, outs["C"], outs["X"]),
                         {"class": c.model_line(), "class_form_source": cases[gi]["files"][idxs.index(i)]["src"],
                          "explicit_form_methods": bytes.fromhex(m["EXPL"]).decode(), "calls": c.calls})
    ctx.diff_lines("program output ~ run_class / run_explicit", bc, "\n".join(bi), "\n".join(bm))

    ctx.cover(evaluations=nrun + len(tc), distinct_nontrivial=len(set(c.model_line() for c in classes)),
              samples=[{"class": classes[i].model_line()[:700], "observed_class_form": bi[3 * i] if 3 * i < len(bi) else None,
                        "model": bm[3 * i] if 3 * i < len(bm) else None} for i in (0, len(classes) // 2)],
              rule="%d classes (the last one a fixed witness with fields min, max and methods len, clamp; the others seeded: 1-4 int fields "
                   "from a 6-name pool that is ALSO declared at package level plus names of the Go universe scope (min, max, cap, real, string, "
                   "error, any, iota, nil, true; methods len, copy, new, close, clear, imag) used by their bare names, 1-4 one-parameter "
                   "methods with nested if/else, := shadowing fields/parameters, bare and this.-qualified field access, bare and "
                   "this.-qualified calls of later methods; var block with grouped names, tags, embedded T, *T, *pkg.T, pkg.T, standing "
                   "after the import and after/before const and type declarations in seeded order; optional static method and "
                   "receiver function; every scenario uses two instances (a := &K{f: 1}, b := new(K)), interleaves calls on both and "
                   "reads every field of both from outside the class), %d per package, each with the explicit form produced by the model; one go "
                   "build, one run; evaluations = scenario runs compared (%d: class form and explicit form) + type-view comparisons "
                   "(%d); non-trivial = distinct class. Not generated: a method call next to another operand in one expression "
                   "(Go leaves the order of a variable read and a call unspecified), duplicate field names (a compile error), calls through "
                   "embedded members, project class files" % (nclasses, per_pkg, nrun, len(tc)),
              construct_histogram=dict(sorted(hist.items())))
    ctx.trust("modelled, not verified: parser.parseValueSpec (class-file branch), cl/compile.go preloadGopFile (typInit, classRecv), "
              "preloadFile (receiver injection, static methods), cl/expr.go compileIdent (local, then class member, then global)",
              "the evaluator of Model/C11.v is a small language of my own, validated against the built programs")
    ctx.assume("method calls only fill a whole expression slot: operand-vs-call evaluation order is unspecified in Go (gc reads `x` in `x + m()` after the call) and is not part of the property")
    ctx.assume("int arithmetic of the generated scenarios stays far below 2^63 (the model computes in Z)")
