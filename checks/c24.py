"""C24 — function hoisting only reorders top-level chunks (format/formatutil/format_gop.go).

A  Props/C24.v: for EVERY source and EVERY token list satisfying the scanner's tiling invariant:
   no panic, the chunks tile the source, the result is prefix ++ functions ++ others (stable
   partition, permutation, order kept, functions first), same byte multiset and length, what a
   statement is (depth-0 semicolon runs), SourceEx clause with format.Source as a parameter.
   Token constants come from Gen/Tokens.v, regenerated from /repo on every run (K-gen).
B  K-diff: /repo's scanner output (offset, token) + the source are fed to the extracted model of
   splitStmts/tokOf/isFuncDecl/seekAfter/startWith/firstNonDecl/codeOf/RearrangeFuncs/SourceEx;
   returned bytes and SourceEx outcome are compared with formatutil.RearrangeFuncs / SourceEx;
   the model's chunk boundaries are compared with the oracle's own chunker.
C  direct oracle (harness): the property evaluated on the real result with its own chunker and its
   own reading of "function declaration" (comments transparent).
"""
import glob
import itertools
import os

import vlib

CLAIM = {
    "level": "proof",
    "text": "Coq theorems over a line-by-line model of RearrangeFuncs/codeOf/firstNonDecl/splitStmts/tokOf/"
            "isFuncDecl/seekAfter/startWith/SourceEx, for all sources and all token lists satisfying the scanner's "
            "tiling invariant: never panics, chunks tile the source, result = prefix ++ function chunks ++ other chunks "
            "(stable partition, hence permutation), same byte multiset and length, statements are the depth-0 "
            "semicolon runs, SourceEx succeeds iff Source succeeds on the source or on the rearrangement. Model tied "
            "to the code on every run by feeding the real scanner's token stream to the extracted model and comparing "
            "returned bytes with formatutil.RearrangeFuncs (exhaustive small scope + structured/malformed seeded scripts "
            "+ mutated _testdata); token codes regenerated from token/token.go.",
    "note": "The scanner is an input (its tiling invariant is checked on every token list fed; the scanner itself "
            "is C15). format.Source is a parameter of the SourceEx theorem. 'Function declaration' in the theorems is "
            "the code's isFuncDecl classification; the direct oracle uses its own reading (comments transparent) and reports "
            "where they differ. "
            "Trusted: Coq kernel, extraction, harness, translator. The Go code is modelled, not verified.",
}

# ----------------------------------------------------------------------------- generators
PIECES = ["func", " f", "(", ")", "{", "}", "\n", ";", "x", "var ", "/*c*/", "//d\n"]
# statement-level small scope: every sequence of <= 4 of these
ITEMS = ["x\n", "func f(){}\n", "func(){}()\n", "var a=1\n", "func (t T) m(){}\n", "// c\n", "}\n", "f := func() {\n}\n", "func g()"]

DECLS = ["var a = 1", "var (\n\tb = 2\n\tc = \"s;{\"\n)", "const k = 3", "type T struct {\n\tx int\n}",
         "type I interface {\n\tm()\n}", "var fn = func() {\n}", "var f2 = func(a int) int { return a }",
         "const (\n\tp = iota\n\tq\n)", "type F func(int) int", "var v T"]
FUNCS = ["func /*n*/ q() {\n}", "func // l\nu(a int) {\n}", "func f() {\n\techo 1\n}", "func (t *T) m(a int) (r int) {\n\treturn a\n}",
         "func g(fn func(int) int) (int, error) {\n\treturn 0, nil\n}", "func h[K any](x K) {}", "func (T) n() {}",
         "func e()", "func w() { if true { echo \"}\" } }", "func (t T) String() string { return \"{\" }",
         "func k() { go func() { echo 1 }() }", "func (t T) /*r*/ o() {\n}", "func z( /*p*/ ) {\n}"]
STMTS = ["func /*c*/ () { echo 2 }()", "func // c\n(a int) {\n\techo a\n}(1)", "func /*c*/ /*d*/ (a func()) {}(nil)", "echo 1", "x := 1", "println \"a;b\"", "func() {\n\techo 2\n}()", "go func(a int) { echo a }(1)",
         "f := func(a int) int { return a }", "if x > 1 {\n\techo x\n}", "for i <- 1:10 {\n\techo i\n}",
         "defer func() {}()", "x = [1, 2, 3]", "m := {\"a\": 1}", "echo `raw ; { \n string`", "c := '}'",
         "func(a func()) {}(nil)", "goto \"a\"", "a.b c, d", "x++", "return", "switch x {\ncase 1:\n}",
         "func(a int) (r int) { return }(1)", "import \"fmt\"", "echo 1m", "x <- 1", "echo ${a}", "(func() {})()"]
COMMENTS = ["// c", "/* b */", "/* m\n l */", "# h", "//", "/**/", "//go:build x", "/* ; { */"]
EDIT = list("{}();\n\"'`/*# \tfxv.,=") + ["func", "var", "\r\n", "/*", "*/", "//", "}\n", "\n\n"]

# a comment directly after the func keyword (repaired in /repo: isFuncDecl drops leading COMMENT words): regression inputs
FINDING_SET = [
    "echo 1\nfunc /*c*/ () { echo 2 }()\nfunc f() {}\n",
    "x := 1\nfunc /*c*/ (a int) {\n\techo a\n}(x)\nfunc g() {\n}\n",
    "echo 1\nfunc // c\n() {}()\n",
    "a\nfunc/**/(){}\n",
]
# deterministic regression inputs (hold on the current tree)
FIXED_SET = [
    "", "\n", ";", "func", "func f() {}", "echo 1\nfunc f() {}", "echo 1\nfunc f() {}\n", "echo 1;func f() {};echo 2",
    "var a = 1\necho 1\nfunc f() {\n}\nfunc (t T) m() {}\nfunc() {}()\necho 2 // x\n",
    "}\necho 1\nfunc f() {}\n", "{\necho 1\nfunc f() {}\n", "echo 1\nfunc f() {\n", "echo 1\nfunc f() }\n}\nfunc g() {}\n",
    "echo 1 /* open", "echo \"open\nfunc f() {}\n", "echo 1\r\nfunc f() {}\r\n", "// only a comment", "/* c */ func f() {}\necho 1\n",
    "echo 1\n/* c */ func f() {}\n// t", "func (a) b() {}\nx\nfunc (a) (b) {}\nfunc (c) d()\n", "x\nfunc (\nfunc f() {}\n",
    "x\nfunc ( ) ) {\n}\nfunc f() {}\n", "x\nfunc (a func()) {}\nfunc g() {}\n", "x\nfunc (a func()) n() {}\n",
    "x\nfunc f() {}  \t ", "x;func f(){};", "type\nvar\nconst\nx\nfunc\n", "x\n#\nfunc f() {}\n", "x\n#!a\nfunc f() {}",
]


def gen_script(rng):
    n = rng.below(9)
    parts = []
    for _ in range(n):
        k = rng.below(10)
        if k < 2:
            item = rng.choice(DECLS)
        elif k < 5:
            item = rng.choice(FUNCS)
        elif k < 9:
            item = rng.choice(STMTS)
        else:
            item = rng.choice(COMMENTS)
        if rng.below(6) == 0:
            item = rng.choice(COMMENTS[:2] + ["/* m\n l */"]) + (" " if rng.below(2) else "\n") + item
        if rng.below(6) == 0:
            item = item + " " + rng.choice(["// t", "/* t */", "# t"])
        parts.append(item)
    s = ""
    for i, p in enumerate(parts):
        s += p
        last = i == len(parts) - 1
        if last and rng.below(3) == 0:
            break  # trailing text without newline
        if p.startswith(("//", "#")) or p.endswith(("// t", "# t")):
            s += "\n"
        else:
            s += rng.choice(["\n", "\n", "\n", "\n\n", ";", "; ", "\n\t", "\r\n", " \n"])
    if rng.below(8) == 0:
        s = rng.choice(["\n", "  ", "\t\n", "\ufeff"]) + s
    return s


def mutate(rng, s, nmax=3):
    b = s if isinstance(s, bytes) else s.encode()
    for _ in range(1 + rng.below(nmax)):
        k = rng.below(6)
        p = rng.below(len(b) + 1)
        if k == 0 and b:
            q = min(len(b), p + 1 + rng.below(3))
            b = b[:p] + b[q:]
        elif k == 1:
            b = b[:p] + rng.choice(EDIT).encode() + b[p:]
        elif k == 2 and b:
            q = min(len(b), p + 1 + rng.below(12))
            b = b[:q] + b[p:q] + b[q:]
        elif k == 3:
            b = b[:p]
        elif k == 4:
            b = b[:p] + rng.choice(["{", "}", "}\n", "{\n"]).encode() + b[p:]
        else:
            b = b[:p] + bytes([rng.below(256)]) + b[p:]
    return b


def testdata():
    out = []
    for f in sorted(glob.glob(os.path.join(vlib.REPO, "format/formatutil/_testdata/*/*/*"))):
        out.append(open(f, "rb").read())
    return out


def enc(b):
    return b.hex() or "-"


def strip_flags(ch):
    if ";" not in ch:
        return ch
    pre, rest = ch.split(";", 1)
    return pre + ";" + ",".join(c[2:] for c in rest.split(","))


def run(ctx):
    ctx.regen(["tokens"])
    ctx.prove("C24")
    model = ctx.model("c24")
    impl = ctx.harness("c24")
    rng = ctx.rng
    ctx.log("built model and harness")

    cases, origin = [], {}

    def add(b, tag):
        if isinstance(b, str):
            b = b.encode()
        if b not in origin:
            origin[b] = tag
            cases.append(b)

    for s in FINDING_SET:
        add(s, "comment-after-func-set")
    for s in FIXED_SET:
        add(s, "fixed-set")
    td = testdata()
    for b in td:
        add(b, "testdata")
    K = ctx.n(4, 5)
    n_ex3 = 0
    for n in range(1, K + 1):
        if n == 4:
            n_ex3 = len(cases)
        for t in itertools.product(PIECES, repeat=n):
            add("".join(t).encode(), "exhaustive")
    for n in range(1, K + 1):
        for t in itertools.product(ITEMS, repeat=n):
            add("".join(t), "exhaustive-stmts")
    n_ex = len(cases)
    for i in range(ctx.n(5000, 200000)):
        k = i % 4
        if k == 0:
            b = gen_script(rng).encode()
        elif k == 1:
            b = mutate(rng, gen_script(rng))
        elif k == 2:
            b = mutate(rng, rng.choice(td), 4)
        else:
            b = mutate(rng, "\n".join(rng.choice(FUNCS + STMTS + DECLS) for _ in range(1 + rng.below(5))) + "\n", 2)
        add(b, ["script", "script-mutated", "testdata-mutated", "lines-mutated"][k])

    # the SourceEx clause costs up to five parse+print runs per input: evaluated on everything except the
    # longer half of the exhaustive concatenations
    with_src = [not (origin[b] == "exhaustive" and i >= n_ex3) for i, b in enumerate(cases)]
    inp = "\n".join(("+" if w else "") + enc(b) for b, w in zip(cases, with_src)) + "\n"
    rc, out = ctx.run([impl], input=inp, timeout=900)
    lines = out.splitlines()
    ctx.log("harness ran on %d inputs" % len(cases))
    if rc != 0 or len(lines) != len(cases):
        ctx.broken("correspondence(c24:harness-run)", "rc=%d lines=%d cases=%d %s" % (rc, len(lines), len(cases), out[-300:]))
        return
    F = [l.split("\t") for l in lines]
    bad = [i for i, f in enumerate(F) if len(f) != 8]
    if bad:
        ctx.broken("correspondence(c24:harness-output)", "malformed line for case %s: %s" % (enc(cases[bad[0]]), lines[bad[0]][:200]))
        return
    minp = "\n".join("\t".join([enc(b), f[0], f[1], f[2], f[3]]) for b, f in zip(cases, F)) + "\n"
    rc, mout = ctx.run([model], input=minp, timeout=900)
    mlines = mout.splitlines()
    ctx.log("model ran")
    if rc != 0 or len(mlines) != len(cases):
        ctx.broken("correspondence(c24:model-run)", "rc=%d lines=%d cases=%d %s" % (rc, len(mlines), len(cases), mout[-300:]))
        return
    G = [l.split("\t") for l in mlines]
    keys = [enc(b) for b in cases]
    # the hypothesis of the theorems holds for every token list fed
    notil = [k for k, g in zip(keys, G) if g[0] != "T"]
    if notil:
        ctx.broken("assumption(scanner-tiling)", "%d token lists violate the tiling invariant; first src=%s" % (len(notil), notil[0][:200]))
    # B: returned bytes, SourceEx outcome
    ctx.diff_lines("rearrange~RearrangeFuncs", keys,
                   "\n".join("PANIC" if f[2] == "!" else "OK " + f[2] for f in F),
                   "\n".join(g[1] for g in G))
    ctx.diff_lines("source_ex~SourceEx", keys, "\n".join(f[4] for f in F),
                   "\n".join(g[3] if w else "?" for g, w in zip(G, with_src)))
    # the model's chunk boundaries = the oracle's own chunk boundaries (whenever both have a
    # first non-declaration at the same place; classification is compared through the verdict)
    ctx.diff_lines("top_chunks~oracle-chunker", keys, "\n".join(f[5] for f in F), "\n".join(strip_flags(g[2]) for g in G))
    # C: direct oracle
    for b, f in zip(cases, F):
        if f[7] != "ok":
            ctx.fail("src:" + vlib.sha(b), "RearrangeFuncs(%r): %s" % (b[:120], f[7]),
                     {"src_hex": enc(b), "src": b.decode("utf-8", "replace"), "verdict": f[7],
                      "impl_hex": f[2], "origin": origin[b]})
    # evidence
    shapes, orig_h = {}, {}
    nontriv = 0
    for b, f, g in zip(cases, F, G):
        orig_h[origin[b]] = orig_h.get(origin[b], 0) + 1
        if g[2] == "NONE":
            k = "no-non-decl"
        else:
            fl = [c[0] for c in g[2].split(";", 1)[1].split(",")]
            nf = fl.count("F")
            moved = f[2] != enc(b)
            k = "chunks=%s funcs=%s %s" % (min(len(fl), 6), min(nf, 3), "moved" if moved else "same")
            if nf:
                nontriv += 1
        k += " src=%s ex=%s" % (f[1][0], f[4][0])
        shapes[k] = shapes.get(k, 0) + 1
    pick = [i for i, b in enumerate(cases) if origin[b] in ("script", "testdata-mutated")][:3]
    ctx.cover(evaluations=len(cases), distinct_nontrivial=nontriv,
              samples=[{"src": cases[i].decode("utf-8", "replace")[:300], "impl_hex": F[i][2][:200], "chunks": G[i][2][:200],
                        "source": F[i][1], "source_ex": F[i][4]} for i in pick],
              rule="deterministic: %d comment-after-func + %d fixed-set + %d _testdata files + every concatenation of <=%d pieces of %d "
                   "and of <=%d statement-level items of %d (%d inputs, all distinct); seeded: structured scripts (declarations, functions, methods, generics, function "
                   "literals, statements, comments, CRLF, BOM, no trailing newline), their byte-mutations (delete/insert/duplicate/"
                   "truncate/brace insertion/random byte), mutated _testdata, mutated line lists; comments directly after the func "
                   "keyword are generated (function literals and declarations); non-trivial = distinct source with at least one function chunk after the first non-declaration"
                   % (len(FINDING_SET), len(FIXED_SET), len(td), K, len(PIECES), K, len(ITEMS), n_ex),
              origin_histogram=orig_h,
              shape_histogram=dict(sorted(shapes.items(), key=lambda kv: -kv[1])[:40]),
              tiling_checked=len(cases) - len(notil), sourceex_clause_evaluated=sum(with_src))
    ctx.assume("the token list fed to the model is /repo's scanner output for the source (ScanComments, offsets = pos - base); "
               "its tiling invariant (offsets non-decreasing, within [0,len]) is the hypothesis of the theorems and is checked on every list",
               "format.Source is a parameter of the SourceEx theorem; the driver instantiates it with the real results on the two strings it is asked about",
               "a Go slice expression src[a:b] is modelled with bound len(src) (Go: cap(src)); under the tiling hypothesis no bound is reached")
    ctx.trust("modelled, not verified: format/formatutil/format_gop.go (RearrangeFuncs, codeOf, firstNonDecl, splitStmts, tokOf, "
              "aStmt.isFuncDecl/isDecl, isFuncDecl, seekAfter, startWith, SourceEx), hand-written Gallina model tied by differential run",
              "scanner.Scanner (its output is an input of the model; property C15 is about the scanner)")
