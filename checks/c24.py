"""C24 — function hoisting only reorders top-level chunks (format/formatutil/format_gop.go).

A  Props/C24.v: for EVERY source and EVERY token list satisfying the scanner's tiling invariant:
   no panic, the chunks tile the source, the result is prefix ++ functions ++ others (stable
   partition, permutation, order kept, functions first), same byte multiset and length, what a
   statement is (depth-0 semicolon runs), SourceEx clause with format.Source as a parameter.
   Token constants come from Gen/Tokens.v, regenerated from /repo on every run (K-gen).
B  K-diff: /repo's scanner output (offset, token) + the source are fed to the extracted model of
   splitStmts/tokOf/isFuncDecl/seekAfter/startWith/firstNonDecl/codeOf/RearrangeFuncs/SourceEx;
   returned bytes and SourceEx outcome are compared with formatutil.RearrangeFuncs / SourceEx;
   the model's chunk boundaries are compared with the oracle's own chunker.
C  direct oracle (harness): the property evaluated on the real result with its own chunker and its
   own reading of "function declaration" (comments transparent).
"""
import glob
import itertools
import os

import vlib

CLAIM = {
    "level": "proof",
    "text": "Coq theorems over a line-by-line model of RearrangeFuncs/codeOf/firstNonDecl/splitStmts/tokOf/"
            "isFuncDecl/seekAfter/startWith/SourceEx, for all sources and all token lists satisfying the scanner's "
            "tiling invariant: never panics, chunks tile the source, result = prefix ++ function chunks ++ other chunks "
            "(stable partition, hence permutation), same byte multiset and length, statements are the depth-0 "
            "semicolon runs, SourceEx succeeds iff Source succeeds on the source or on the rearrangement. Model tied "
            "to the code on every run by feeding the real scanner's token stream to the extracted model and comparing "
            "returned bytes with formatutil.RearrangeFuncs (exhaustive small scope + structured/malformed seeded scripts "
            "+ mutated _testdata); token codes regenerated from token/token.go.",
    "note": "The scanner is an input (its tiling invariant is checked on every token list fed; the scanner itself "
            "is C15). format.Source is a parameter of the SourceEx theorem. 'Function declaration' in the theorems is "
            "the code's isFuncDecl classification; the direct oracle uses its own reading (comments transparent) and reports "
            "where they differ. "
            "Trusted: Coq kernel, extraction, harness, translator. The Go code is modelled, not verified.",
}

# ----------------------------------------------------------------------------- generators
PIECES = ["func", " f", "(", ")", "{", "}", "\n", ";", "x", "var ", "/*c*/", "//d\n"]
# statement-level small scope: every sequence of <= 4 of these
ITEMS = ["x\n", "func f(){}\n", "func(){}()\n", "var a=1\n", "func (t T) m(){}\n", "// c\n", "}\n", "f := func() {\n}\n", "func g()"]

DECLS = ["var a = 1", "var (\n\tb = 2\n\tc = \"s;{\"\n)", "const k = 3", "type T struct {\n\tx int\n}",
         "type I interface {\n\tm()\n}", "var fn = func() {\n}", "var f2 = func(a int) int { return a }",
         "const (\n\tp = iota\n\tq\n)", "type F func(int) int", "var v T"]
FUNCS = ["func /*n*/ q() {\n}", "func // l\nu(a int) {\n}", "func f() {\n\techo 1\n}", "func (t *T) m(a int) (r int) {\n\treturn a\n}",
         "func g(fn func(int) int) (int, error) {\n\treturn 0, nil\n}", "func h[K any](x K) {}", "func (T) n() {}",
         "func e()", "func w() { if true { echo \"}\" } }", "func (t T) String() string { return \"{\" }",
         "func k() { go func() { echo 1 }() }", "func (t T) /*r*/ o() {\n}", "func z( /*p*/ ) {\n}"]
STMTS = ["func /*c*/ () { echo 2 }()", "func // c\n(a int) {\n\techo a\n}(1)", "func /*c*/ /*d*/ (a func()) {}(nil)", "echo 1", "x := 1", "println \"a;b\"", "func() {\n\techo 2\n}()", "go func(a int) { echo a }(1)",
         "f := func(a int) int { return a }", "if x > 1 {\n\techo x\n}", "for i <- 1:10 {\n\techo i\n}",
         "defer func() {}()", "x = [1, 2, 3]", "m := {\"a\": 1}", "echo `raw ; { \n string`", "c := '}'",
         "func(a func()) {}(nil)", "goto \"a\"", "a.b c, d", "x++", "return", "switch x {\ncase 1:\n}",
         "func(a int) (r int) { return }(1)", "import \"fmt\"", "echo 1m", "x <- 1", "echo ${a}", "(func() {})()"]
COMMENTS = ["// c", "/* b */", "/* m\n l */", "# h", "//", "/**/", "//go:build x", "/* ; { */"]
EDIT = list("{}();\n\"'`/*# \tfxv.,=") + ["func", "var", "\r\n", "/*", "*/", "//", "}\n", "\n\n"]

# a comment directly after the func keyword (repaired in /repo: isFuncDecl drops leading COMMENT words): regression inputs
FINDING_SET = [
    "echo 1\nfunc /*c*/ () { echo 2 }()\nfunc f() {}\n",
    "x := 1\nfunc /*c*/ (a int) {\n\techo a\n}(x)\nfunc g() {\n}\n",
    "echo 1\nfunc // c\n() {}()\n",
    "a\nfunc/**/(){}\n",
]
# deterministic regression inputs (hold on the current tree)
FIXED_SET = [
    "", "\n", ";", "func", "func f() {}", "echo 1\nfunc f() {}", "echo 1\nfunc f() {}\n", "echo 1;func f() {};echo 2",
    "var a = 1\necho 1\nfunc f() {\n}\nfunc (t T) m() {}\nfunc() {}()\necho 2 // x\n",
    "}\necho 1\nfunc f() {}\n", "{\necho 1\nfunc f() {}\n", "echo 1\nfunc f() {\n", "echo 1\nfunc f() }\n}\nfunc g() {}\n",
    "echo 1 /* open", "echo \"open\nfunc f() {}\n", "echo 1\r\nfunc f() {}\r\n", "// only a comment", "/* c */ func f() {}\necho 1\n",
    "echo 1\n/* c */ func f() {}\n// t", "func (a) b() {}\nx\nfunc (a) (b) {}\nfunc (c) d()\n", "x\nfunc (\nfunc f() {}\n",
    "x\nfunc ( ) ) {\n}\nfunc f() {}\n", "x\nfunc (a func()) {}\nfunc g() {}\n", "x\nfunc (a func()) n() {}\n",
    "x\nfunc f() {}  \t ", "x;func f(){};", "type\nvar\nconst\nx\nfunc\n", "x\n#\nfunc f() {}\n", "x\n#!a\nfunc f() {}",
]


# class files (parser.ParseGoPlusClass): the first var declaration may embed types: class-only syntax
CLASS_PREFIX = ["var *Sprite\n\n", "var Sprite\n", "var (\n\tSprite\n\tx int\n)\n\n", "var (\n\t*Sprite\n)\n", "var (\n\ta int\n\tGame\n)\n"]
CLASS_SET = [
    'var *Sprite\n\necho "hi"\n\nfunc onStart() {\n\techo x\n}\n',
    'var (\n\tSprite\n\tx int\n)\n\nx = 1\nfunc onStart() {\n}\nfunc (p *T) m() {}\necho x\n',
    'var Sprite\necho 1\nfunc f() {}\n',
    'var *Sprite\n\nfunc onStart() {\n}\n',
    'var *Sprite\n\necho 1\n',
    'var (\n\t*Sprite\n)\necho 1; func f() {}; echo 2\n',
    'echo 1\nfunc f() {}\n',
]


def gen_script(rng):
    n = rng.below(9)
    parts = []
    for _ in range(n):
        k = rng.below(10)
        if k < 2:
            item = rng.choice(DECLS)
        elif k < 5:
            item = rng.choice(FUNCS)
        elif k < 9:
            item = rng.choice(STMTS)
        else:
            item = rng.choice(COMMENTS)
        if rng.below(6) == 0:
            item = rng.choice(COMMENTS[:2] + ["/* m\n l */"]) + (" " if rng.below(2) else "\n") + item
        if rng.below(6) == 0:
            item = item + " " + rng.choice(["// t", "/* t */", "# t"])
        parts.append(item)
    s = ""
    for i, p in enumerate(parts):
        s += p
        last = i == len(parts) - 1
        if last and rng.below(3) == 0:
            break  # trailing text without newline
        if p.startswith(("//", "#")) or p.endswith(("// t", "# t")):
            s += "\n"
        else:
            s += rng.choice(["\n", "\n", "\n", "\n\n", ";", "; ", "\n\t", "\r\n", " \n"])
    if rng.below(8) == 0:
        s = rng.choice(["\n", "  ", "\t\n", "\ufeff"]) + s
    return s


def mutate(rng, s, nmax=3):
    b = s if isinstance(s, bytes) else s.encode()
    for _ in range(1 + rng.below(nmax)):
        k = rng.below(6)
        p = rng.below(len(b) + 1)
        if k == 0 and b:
            q = min(len(b), p + 1 + rng.below(3))
            b = b[:p] + b[q:]
        elif k == 1:
            b = b[:p] + rng.choice(EDIT).encode() + b[p:]
        elif k == 2 and b:
            q = min(len(b), p + 1 + rng.below(12))
            b = b[:q] + b[p:q] + b[q:]
        elif k == 3:
            b = b[:p]
        elif k == 4:
            b = b[:p] + rng.choice(["{", "}", "}\n", "{\n"]).encode() + b[p:]
        else:
            b = b[:p] + bytes([rng.below(256)]) + b[p:]
    return b


def testdata():
    out = []
    for f in sorted(glob.glob(os.path.join(vlib.REPO, "format/formatutil/_testdata/*/*/*"))):
        out.append(open(f, "rb").read())
    return out


def enc(b):
    return b.hex() or "-"


def strip_flags(ch):
    if ";" not in ch:
        return ch
    pre, rest = ch.split(";", 1)
    return pre + ";" + ",".join(c[2:] for c in rest.split(","))


def run(ctx):
    ctx.regen(["tokens"])
    ctx.prove("C24")
    model = ctx.model("c24")
    impl = ctx.harness("c24")
    rng = ctx.rng
    ctx.log("built model and harness")

    cases, clsl, orig, seen = [], [], [], set()     # source, class flag of the SourceEx clause, origin tag

    def add(b, tag, cls=False):
        if isinstance(b, str):
            b = b.encode()
        if (b, cls) not in seen:
            seen.add((b, cls))
            cases.append(b)
            clsl.append(cls)
            orig.append(tag)

    for s in CLASS_SET:
        add(s, "class-set", True)
        add(s, "class-set", False)

    for s in FINDING_SET:
        add(s, "comment-after-func-set")
    for s in FIXED_SET:
        add(s, "fixed-set")
    td = testdata()
    for b in td:
        add(b, "testdata")
    K = ctx.n(4, 5)
    n_ex3 = 0
    for n in range(1, K + 1):
        if n == 4:
            n_ex3 = len(cases)
        for t in itertools.product(PIECES, repeat=n):
            add("".join(t).encode(), "exhaustive")
    for n in range(1, K + 1):
        for t in itertools.product(ITEMS, repeat=n):
            add("".join(t), "exhaustive-stmts")
    n_ex = len(cases)
    for i in range(ctx.n(5000, 200000)):
        k = i % 4
        if k == 0:
            b = gen_script(rng).encode()
        elif k == 1:
            b = mutate(rng, gen_script(rng))
        elif k == 2:
            b = mutate(rng, rng.choice(td), 4)
        else:
            b = mutate(rng, "\n".join(rng.choice(FUNCS + STMTS + DECLS) for _ in range(1 + rng.below(5))) + "\n", 2)
        add(b, ["script", "script-mutated", "testdata-mutated", "lines-mutated"][k])
        if i % 5 == 0:      # class files: class-only syntax in the prefix, SourceEx driven with class=true
            c = rng.choice(CLASS_PREFIX).encode() + (b if k != 2 else gen_script(rng).encode())
            if k in (1, 3):
                c = mutate(rng, c, 2)
            add(c, "class-" + ["script", "script-mutated", "script", "lines-mutated"][k], True)

    # the SourceEx clause costs up to five parse+print runs per input: evaluated on everything except the
    # longer half of the exhaustive concatenations
    with_src = [not (orig[i] == "exhaustive" and i >= n_ex3) for i in range(len(cases))]
    inp = "\n".join(("*" if c else "+" if w else "") + enc(b) for b, w, c in zip(cases, with_src, clsl)) + "\n"
    rc, out = ctx.run([impl], input=inp, timeout=900)
    lines = out.splitlines()
    ctx.log("harness ran on %d inputs" % len(cases))
    if rc != 0 or len(lines) != len(cases):
        ctx.broken("correspondence(c24:harness-run)", "rc=%d lines=%d cases=%d %s" % (rc, len(lines), len(cases), out[-300:]))
        return
    F = [l.split("\t") for l in lines]
    bad = [i for i, f in enumerate(F) if len(f) != 8]
    if bad:
        ctx.broken("correspondence(c24:harness-output)", "malformed line for case %s: %s" % (enc(cases[bad[0]]), lines[bad[0]][:200]))
        return
    minp = "\n".join("\t".join([enc(b), f[0], f[1], f[2], f[3], "1" if c else "0"]) for b, f, c in zip(cases, F, clsl)) + "\n"
    rc, mout = ctx.run([model], input=minp, timeout=900)
    mlines = mout.splitlines()
    ctx.log("model ran")
    if rc != 0 or len(mlines) != len(cases):
        ctx.broken("correspondence(c24:model-run)", "rc=%d lines=%d cases=%d %s" % (rc, len(mlines), len(cases), mout[-300:]))
        return
    G = [l.split("\t") for l in mlines]
    keys = [enc(b) + ("/class" if c else "") for b, c in zip(cases, clsl)]
    # the hypothesis of the theorems holds for every token list fed
    notil = [k for k, g in zip(keys, G) if g[0] != "T"]
    if notil:
        ctx.broken("assumption(scanner-tiling)", "%d token lists violate the tiling invariant; first src=%s" % (len(notil), notil[0][:200]))
    # B: returned bytes, SourceEx outcome
    ctx.diff_lines("rearrange~RearrangeFuncs", keys,
                   "\n".join("PANIC" if f[2] == "!" else "OK " + f[2] for f in F),
                   "\n".join(g[1] for g in G))
    ctx.diff_lines("source_ex~SourceEx", keys, "\n".join(f[4] for f in F),
                   "\n".join(g[3] if w else "?" for g, w in zip(G, with_src)))
    # the model's chunk boundaries = the oracle's own chunk boundaries (whenever both have a
    # first non-declaration at the same place; classification is compared through the verdict)
    ctx.diff_lines("top_chunks~oracle-chunker", keys, "\n".join(f[5] for f in F), "\n".join(strip_flags(g[2]) for g in G))
    # C: direct oracle
    for i, (b, f) in enumerate(zip(cases, F)):
        if f[7] != "ok":
            ctx.fail("src:" + vlib.sha(b) + ("/class" if clsl[i] else ""),
                     "RearrangeFuncs / SourceEx(class=%s)(%r): %s" % (clsl[i], b[:120], f[7]),
                     {"src_hex": enc(b), "src": b.decode("utf-8", "replace"), "class": clsl[i], "verdict": f[7],
                      "impl_hex": f[2], "source(src,class)": f[1], "source(rearranged,class)": f[3], "source_ex": f[4],
                      "origin": orig[i]})
    # evidence
    shapes, orig_h = {}, {}
    nontriv = 0
    for i, (b, f, g) in enumerate(zip(cases, F, G)):
        orig_h[orig[i]] = orig_h.get(orig[i], 0) + 1
        if g[2] == "NONE":
            k = "no-non-decl"
        else:
            fl = [c[0] for c in g[2].split(";", 1)[1].split(",")]
            nf = fl.count("F")
            moved = f[2] != enc(b)
            k = "chunks=%s funcs=%s %s" % (min(len(fl), 6), min(nf, 3), "moved" if moved else "same")
            if nf:
                nontriv += 1
        k += " src=%s ex=%s%s" % (f[1][0], f[4][0], " class" if clsl[i] else "")
        shapes[k] = shapes.get(k, 0) + 1
    pick = [i for i in range(len(cases)) if orig[i] in ("script", "testdata-mutated", "class-script")][:4]
    ctx.cover(evaluations=len(cases), distinct_nontrivial=nontriv,
              samples=[{"src": cases[i].decode("utf-8", "replace")[:300], "impl_hex": F[i][2][:200], "chunks": G[i][2][:200],
                        "class": clsl[i], "source": F[i][1], "source_ex": F[i][4]} for i in pick],
              rule="deterministic: %d class-file inputs x {class=true, class=false} + %d comment-after-func + %d fixed-set + %d _testdata files + every concatenation of <=%d pieces of %d "
                   "and of <=%d statement-level items of %d (%d inputs, all distinct); seeded: structured scripts (declarations, functions, methods, generics, function "
                   "literals, statements, comments, CRLF, BOM, no trailing newline), their byte-mutations (delete/insert/duplicate/"
                   "truncate/brace insertion/random byte), mutated _testdata, mutated line lists; comments directly after the func "
                   "keyword are generated (function literals and declarations); every fifth seeded input additionally as a class file "
                   "(class-only syntax in the prefix: var *Sprite, var ( Sprite ... )) with SourceEx driven with class=true; non-trivial = distinct source with at least one function chunk after the first non-declaration"
                   % (len(CLASS_SET), len(FINDING_SET), len(FIXED_SET), len(td), K, len(PIECES), K, len(ITEMS), n_ex),
              origin_histogram=orig_h,
              shape_histogram=dict(sorted(shapes.items(), key=lambda kv: -kv[1])[:40]),
              tiling_checked=len(cases) - len(notil), sourceex_clause_evaluated=sum(with_src),
              sourceex_with_class_true=sum(clsl),
              class_true_rescued=sum(1 for f, c in zip(F, clsl) if c and f[1] == "E" and f[4].startswith("O")))
    ctx.assume("the token list fed to the model is /repo's scanner output for the source (ScanComments, offsets = pos - base); "
               "its tiling invariant (offsets non-decreasing, within [0,len]) is the hypothesis of the theorems and is checked on every list",
               "format.Source is a parameter (a function of source and class flag) of the SourceEx theorem; the driver instantiates it with the real "
               "results on the two strings it is asked about, for the class flag of the case only (any other question = UNKNOWN = disagreement)",
               "a Go slice expression src[a:b] is modelled with bound len(src) (Go: cap(src)); under the tiling hypothesis no bound is reached")
    ctx.trust("modelled, not verified: format/formatutil/format_gop.go (RearrangeFuncs, codeOf, firstNonDecl, splitStmts, tokOf, "
              "aStmt.isFuncDecl/isDecl, isFuncDecl, seekAfter, startWith, SourceEx), hand-written Gallina model tied by differential run",
              "scanner.Scanner (its output is an input of the model; property C15 is about the scanner)")
