"""C38 — JSON-RPC framing round-trips any message stream (x/jsonrpc2/frame.go, messages.go, wire.go).

A  Props/C38.v: C38_read_total, C38_frame_roundtrip, C38_stream_roundtrip, C38_stream_roundtrip_codec,
   C38_read_consumes_exactly, C38_read_error_consumption_bounded, C38_read_never_past_declared,
   C38_read_prefix_determined, C38_oversize_rejected ...
B  extracted read_stream / write_stream  vs  the real HeaderFramer Reader / Writer:
     R: byte streams (well-formed sequences, mutations, token soup) read until the clean EOF, over an
        io.Reader that hands out one byte per call and counts them, and over a bulk reader;
        compared: per call (message | error class, bytes consumed); payload -> message through the
        real DecodeMessage (the codec is not modelled)
     W: messages written by the real Writer; compared: emitted bytes == write_stream(payloads)
C  direct oracle on the implementation: no panic; bytes taken from the transport == bytes reported;
   generator-known expectations (frames the generator built come back at the offsets it knows,
   streams it broke give an error at the broken frame and never a message); written messages read
   back equal (kind, id, method, params, result, error code/text).
"""
import json

CLAIM = {
    "level": "proof",
    "text": "Coq theorems over a line-by-line model of headerReader.Read / headerWriter.Write on byte streams: "
            "Read is total (never panics, never loops), what the writer wrote is read back frame by frame for every "
            "payload list (induction, no size bound below 2^31 bytes per payload), a successful read consumed exactly "
            "header+declared length, a failed read never consumed past the declared length and its result depends "
            "only on the bytes it consumed; model tied to the code on every run by a differential run of the "
            "extracted model against the real HeaderFramer on generated and mutated streams.",
    "note": "Framing is proved; the JSON codec (encoding/json via EncodeMessage/DecodeMessage) is a Section hypothesis "
            "dec(enc m)=m in the stream theorem and is explored on the implementation (ids beyond 2^53 violate it: known "
            "finding). Transport errors other than EOF and context cancellation are not modelled. Trusted: Coq kernel, "
            "extraction, harness, bufio.Reader/io.ReadFull/strings.TrimSpace/strconv.ParseInt semantics as modelled "
            "(each exercised by the differential run).",
}

CL = b"Content-Length"

# payloads: real messages, near-messages, and arbitrary bytes (framing does not care)
PAYLOADS = [
    b'{"jsonrpc":"2.0","id":1,"method":"a/b"}',
    b'{"jsonrpc":"2.0","method":"n","params":[1,2,3]}',
    b'{"jsonrpc":"2.0","id":"x","result":{"k":null}}',
    b'{"jsonrpc":"2.0","id":7,"error":{"code":-32601,"message":"JSON RPC method not found"}}',
    b'{"jsonrpc":"2.0","id":1.5,"method":"frac"}',
    b'{"jsonrpc":"2.0","id":9007199254740993,"method":"big"}',
    b'{"jsonrpc":"2.0","id":true,"method":"m"}',
    b'{"jsonrpc":"1.0","id":1,"method":"m"}',
    b'{"jsonrpc":"2.0"}',
    b'{"jsonrpc":"2.0","id":3}',
    b'{}', b'[]', b'null', b'x', b'\n', b'\r\n\r\n', b'Content-Length: 1\r\n\r\nx', b'{"a":"\xc3\xa9"}', b'\x00\xff',
]

TOKENS = [CL, b":", b" ", b"\r", b"\n", b"\r\n", b"1", b"2", b"0", b"-", b"+", b"x", b"\t", b"\xc2\xa0", b"\xc2\x85",
          b"\xe2\x80\x83", b"\xc2", b"\x80", b"Content-Type: a/b", b"content-length", b"{}", b"_", b"10"]


def hx(b):
    return b.hex() or "-"


def frame(p, length=None, name=CL, sep=b": ", eol=b"\r\n", extra=b""):
    n = str(len(p)).encode() if length is None else length
    return name + sep + n + eol + extra + eol + p


def gen_streams(ctx):
    """-> list of (stream bytes, shape label, expectation)   expectation: list of ('ok', total) for the
    leading frames the generator knows are well-formed, then 'err' if it knows the next read must fail,
    None = nothing known beyond them."""
    rng = ctx.rng
    out = []

    def payload():
        k = rng.below(10)
        if k < 6:
            return rng.choice(PAYLOADS)
        if k < 8:
            return bytes(rng.below(256) for _ in range(1 + rng.below(12)))
        return bytes(rng.choice(b'{}[]":, \r\n0123456789abc') for _ in range(1 + rng.below(40)))

    def good_prefix(k):
        ps = [payload() for _ in range(k)]
        fs = [frame(p) for p in ps]
        return b"".join(fs), [("ok", len(f)) for f in fs]

    # ---- deterministic part (same on every run)
    det = [
        (b"", "empty"), (b"\n", "blank"), (b"\r\n", "blank"), (b"\r", "cr-only"), (b" ", "sp-only"),
        (frame(b"{}"), "single"), (frame(b"{}") * 3, "three"),
        (frame(b"ab", b"0"), "len0"), (frame(b"ab", b"-1"), "neg"), (frame(b"ab", b"-0"), "neg0"), (frame(b"ab", b"+2"), "plus"),
        (frame(b"ab", b"002"), "lead0"), (frame(b"ab", b"2 "), "trail-sp"), (frame(b"ab", b"\t2\t"), "tabs"),
        (frame(b"ab", b"1_0"), "underscore"), (frame(b"ab", b"0x2"), "hex"), (frame(b"ab", b""), "nolen"),
        (frame(b"ab", b"2147483647"), "maxint32"), (frame(b"ab", b"2147483648"), "maxint32+1"),
        (frame(b"ab", b"-2147483648"), "minint32"), (frame(b"ab", b"-2147483649"), "minint32-1"),
        (frame(b"ab", b"9223372036854775808"), "2^63"), (frame(b"ab", b"1" + b"0" * 40), "10^40"),
        (frame(b"ab", b"2.0"), "float"), (frame(b"ab", b"2e0"), "exp"), (frame(b"ab", b"+"), "sign-only"), (frame(b"ab", b"- 2"), "sign-sp"),
        (frame(b"ab", name=b"content-length"), "lower"), (frame(b"ab", name=b"Content-Length "), "name-sp"),
        (frame(b"ab", name=b" Content-Length"), "sp-name"), (frame(b"ab", name=b"\xc2\xa0Content-Length"), "nbsp-name"),
        (frame(b"ab", sep=b":"), "nosp"), (frame(b"ab", sep=b":\xe2\x80\x83"), "emsp"), (frame(b"ab", sep=b"::"), "2colon"),
        (frame(b"ab", sep=b" "), "nocolon"), (frame(b"ab", eol=b"\n"), "lf-only"), (frame(b"ab", eol=b"\r"), "cr-eol"),
        (frame(b"ab", eol=b"\r\r\n"), "crcrlf"), (frame(b"ab", eol=b" \t\r\n"), "ws-eol"),
        (frame(b"ab", extra=b"Content-Type: x\r\n"), "extra"), (frame(b"ab", extra=b"Content-Length: 1\r\n"), "dup-override"),
        (frame(b"ab", extra=b"Content-Length: x\r\n"), "dup-bad"), (frame(b"ab", extra=b":\r\n"), "empty-name"),
        (frame(b"ab", extra=b"nocolon\r\n"), "bad-line"), (frame(b"ab", extra=b"\xc2\xa0\r\n"), "nbsp-blank"),
        (b"\r\n" + frame(b"ab"), "leading-blank"), (CL + b": 2", "eof-in-header"), (CL + b": 2\r\n", "eof-after-header"),
        (CL + b": 2\r\n\r\n", "eof-before-body"), (CL + b": 2\r\n\r\na", "short-body"),
        (CL + b": 3\r\n\r\n" + frame(b"{}"), "swallow-next"),
    ]
    for s, lab in det:
        out.append((s, "det:" + lab, None))
    # every 1..3-byte UTF-8 rune U+0080..U+3100 region sample + all of Latin-1/General Punctuation as white space around the value
    runes = list(range(0x80, 0x100)) + list(range(0x1670, 0x1690)) + list(range(0x1FF0, 0x2070)) + list(range(0x2FF0, 0x3010)) + [0xFEFF, 0x180E, 0x200B]
    for r in runes:
        e = chr(r).encode("utf-8")
        out.append((frame(b"ab", sep=b":" + e), "det:rune-before-value", None))
        out.append((CL + b": 2" + e + b"\r\n" + e + b"\r\nab", "det:rune-after-value", None))
    ndet = len(out)

    # ---- exhaustive token soup (small scope)
    import itertools
    L = ctx.n(3, 4)
    toks = TOKENS if not ctx.quick else TOKENS[:18]
    for n in range(1, L + 1):
        alpha = toks if n <= 3 else toks[:14]
        for t in itertools.product(alpha, repeat=n):
            out.append((b"".join(t) + (b"\n\nxy" if n % 2 else b""), "soup%d" % n, None))
    nsoup = len(out) - ndet

    # ---- seeded: well-formed sequences and mutations of them
    for _ in range(ctx.n(6000, 120000)):
        k = rng.below(4)
        pre, exp = good_prefix(k)
        m = rng.below(16)
        if m in (10, 11) and rng.below(4) != 0:
            m = 12           # keep the multi-kilobyte shapes rare: they dominate the run time
        p = payload()
        if m == 0:
            out.append((pre, "good%d" % k, exp + [("eof", 0)]))
        elif m == 1:   # truncated anywhere inside one more frame
            f = frame(p)
            cut = rng.below(len(f))
            out.append((pre + f[:cut], "truncated", exp + (["err"] if cut > 0 else [("eof", 0)])))
        elif m == 2:   # declared length too small / too large by d
            d = 1 + rng.below(5)
            if rng.below(2) and len(p) > d:
                out.append((pre + frame(p, str(len(p) - d).encode()) + frame(b"{}"), "len-small", exp))
            else:
                out.append((pre + frame(p, str(len(p) + d).encode()), "len-large", exp + ["err"]))
        elif m == 3:
            bad = rng.choice([b"0", b"-1", b"-%d" % len(p), b"", b"x", b"1x", b"0x10", b"1_0", b"2147483648", b"99999999999999999999", b"1.0", b"+", b"-"])
            out.append((pre + frame(p, bad), "len-bad", exp + ["err"]))
        elif m == 4:   # harmless variations that must still read
            v = rng.below(6)
            n = str(len(p)).encode()
            f = [frame(p, b"+" + n), frame(p, b"000" + n), frame(p, sep=b":"), frame(p, sep=b":  \t"), frame(p, eol=b"\n"),
                 frame(p, extra=b"Content-Type: application/vscode-jsonrpc; charset=utf-8\r\n")][v]
            out.append((pre + f, "variant%d" % v, exp + [("ok", len(f))]))
        elif m == 5:   # duplicate Content-Length: the last one wins
            q = payload()
            f = CL + b": %d\r\n" % len(q) + CL + b": %d\r\n\r\n" % len(p) + p
            out.append((pre + f, "dup", exp + [("ok", len(f))]))
        elif m == 6:   # header line without colon / wrong case name
            f = rng.choice([b"garbage\r\n", b"content-length: 3\r\n\r\n", b"Content-Length : 3\r\n\r\n", b"\r\n", b" \r\n", b"\xc2\xa0\n"]) + p
            out.append((pre + f, "hdr-bad", exp + ["err"]))
        elif m == 7:   # byte flip / insert / delete somewhere
            s = bytearray(pre + frame(p))
            if s:
                i = rng.below(len(s))
                op = rng.below(3)
                if op == 0:
                    s[i] = rng.below(256)
                elif op == 1:
                    s.insert(i, rng.choice(b"\r\n: 0123456789\t-+\xc2\xa0"))
                else:
                    del s[i]
            out.append((bytes(s), "bytemut", None))
        elif m == 8:   # unicode / ascii white space sprinkled around name and value
            ws = [b" ", b"\t", b"\x0b", b"\x0c", b"\r", b"\xc2\xa0", b"\xc2\x85", b"\xe1\x9a\x80", b"\xe2\x80\x80", b"\xe2\x80\x8a",
                  b"\xe2\x80\xa8", b"\xe2\x80\xa9", b"\xe2\x80\xaf", b"\xe2\x81\x9f", b"\xe3\x80\x80", b"\xe2\x80\x8b", b"\xc2", b"\xa0", b"\xe2\x80"]
            a, b_, c = rng.choice(ws), rng.choice(ws), rng.choice(ws)
            f = a + CL + b":" + b_ + str(len(p)).encode() + c + b"\r\n\r\n" + p
            out.append((pre + f, "ws", None))
        elif m == 9:   # random token soup, longer
            out.append((pre + b"".join(rng.choice(TOKENS) for _ in range(1 + rng.below(10))), "soup-long", None))
        elif m == 10:  # big frame (crosses the 4096-byte bufio buffer)
            big = bytes(rng.choice(b'{"a":[1, 2]}\r\n') for _ in range(3000 + rng.below(6000)))
            f = frame(big)
            out.append((pre + f + frame(b"{}"), "big", exp + [("ok", len(f)), ("ok", len(frame(b"{}"))), ("eof", 0)]))
        elif m == 11:  # very long header line
            f = b"X-Pad: " + b"a" * (4000 + rng.below(3000)) + b"\r\n" + frame(p)
            out.append((pre + f, "long-header", exp + [("ok", len(f))]))
        else:          # random bytes
            out.append((pre + bytes(rng.choice(b"Content-Length: 0123\r\n\r\n{}x\xc2\xa0") for _ in range(rng.below(60))), "random", None))
    return out, ndet, nsoup


METHODS = ["a", "textDocument/didOpen", "$/cancelRequest", "é", "m\"q\\", "<tag>&", " ", " "]
PARAMS = [b"", b"[]", b"{}", b"null", b"[1,2,3]", b'{"a":{"b":[true,false,null]}}', b'"s"', b"1e3", b' { "sp" : 1 } ', b'"<\\u00e9>"', b"12345678901234567890"]
SAFE = 2 ** 53


def gen_messages(ctx):
    """-> (deterministic finding probes, seeded message lists)   as lists of spec strings"""
    rng = ctx.rng

    def sid():
        return "s:" + hx(rng.choice(["", "a", "id-1", "é", "0", "\"", "\\u0000", "x" * 30]).encode())

    def iid():
        k = rng.below(6)
        if k == 0:
            return "i:%d" % rng.choice([0, 1, -1, 2 ** 31 - 1, 2 ** 31, -2 ** 31, 2 ** 32, SAFE, -SAFE, SAFE - 1, 10 ** 15])
        if k == 1:
            return "i:%d" % (rng.below(2 * SAFE + 1) - SAFE)
        return "i:%d" % rng.below(1000)

    def anyid():
        return sid() if rng.below(3) == 0 else iid()

    def msg():
        k = rng.below(10)
        m = hx(rng.choice(METHODS).encode())
        if k < 3:
            return "c|%s|%s|%s" % (anyid(), m, hx(rng.choice(PARAMS)))
        if k < 5:
            return "n|%s|%s" % (m, hx(rng.choice(PARAMS)))
        e = rng.below(5)
        if e < 2:
            err = "-"
        elif e == 2:
            err = "w:%d:%s" % (rng.choice([-32700, -32600, -32601, -32602, -32603, -32000, 0, 1, 2 ** 40, -2 ** 62]), hx(rng.choice(["JSON RPC parse error", "", "é", "x\ny"]).encode()))
        elif e == 3:
            err = "p:" + hx(rng.choice(["boom", "", "a: b", "é\"\\"]).encode())
        else:
            err = "x:%d:%s:%s" % (rng.choice([-32601, 7]), hx(b"inner"), hx(rng.choice(["outer", "ctx"]).encode()))
        res = rng.choice(PARAMS) if e < 2 or rng.below(3) == 0 else b""
        return "r|%s|%s|%s" % (anyid(), hx(res), err)

    probes = []
    for v in [SAFE + 1, -(SAFE + 1), SAFE + 2, 2 ** 63 - 1, -2 ** 63, 2 ** 62 + 1, 123456789012345679]:
        probes.append(["c|i:%d|%s|-" % (v, hx(b"m"))])
        probes.append(["r|i:%d|%s|-" % (v, hx(b"1"))])
    lists = [[]]
    for _ in range(ctx.n(2500, 60000)):
        lists.append([msg() for _ in range(1 + rng.below(4))])
    return probes, lists


# ---- messages in WIRE form (JSON texts as a peer would send them): every optional member, every JSON kind
JSON_KINDS = {
    "object": '{"k":{"n":[1,{"z":null}]},"a":"<&>"}', "empty-object": "{}", "array": '[1,"two",[3],{"f":4}]', "empty-array": "[]",
    "string": '"s \\u00e9 \\" <tag>"', "empty-string": '""', "int": "42", "negative": "-7", "float": "1.5", "exp": "1e3", "big": "12345678901234567890",
    "true": "true", "false": "false", "null": "null",
}
WIRE_IDS = {"int": "7", "zero": "0", "negative-int": "-3", "2^53": str(2 ** 53), "string": '"id-1"', "empty-string": '""', "unicode-string": '"\\u00e9x"'}
WIRE_MEMBERS = {
    "request": "jsonrpc, id (int|string), method, params (absent | each JSON kind)",
    "notification": "jsonrpc, method, params (absent | each JSON kind), id absent | null",
    "result-response": "jsonrpc, id (int|string), result (each JSON kind)",
    "error-response": "jsonrpc, id (int|string), error{code (absent|int64 values), message (absent|strings), data (absent | each JSON kind)}, "
                      "optionally together with result; error:null with result",
    "noise": "unknown extra members at top level and inside error, member order shuffled, insignificant white space",
    "rejected (must fail to decode)": "wrong/missing jsonrpc version, response without id / with id:null, id of JSON kind bool|object|array, "
                                      "fractional code, truncated text, not an object",
    "excluded": "integer ids beyond 2^53 and fractional ids (float64 coercion: known finding domain), duplicate members, invalid UTF-8",
}


def wire_text(members, rng=None, noise=False):
    """members: list of (name, json text) -> a JSON object text; with noise: shuffled, extra members, white space"""
    ms = list(members)
    if noise and rng is not None:
        if rng.below(2):
            ms.append(("x-extra", rng.choice(list(JSON_KINDS.values()))))
        for i in range(len(ms) - 1, 0, -1):
            j = rng.below(i + 1)
            ms[i], ms[j] = ms[j], ms[i]
        sp = lambda: rng.choice(["", " ", "\n", "\t ", "  "])
        return "{" + ",".join(sp() + json.dumps(k) + sp() + ":" + sp() + v + sp() for k, v in ms) + "}"
    return "{" + ",".join(json.dumps(k) + ":" + v for k, v in ms) + "}"


def gen_wire(ctx):
    """-> (deterministic lists, seeded lists) of wire-form texts ('!' prefix = must be rejected by DecodeMessage)"""
    rng = ctx.rng
    V = ("jsonrpc", '"2.0"')
    det = []
    for kn, kv in JSON_KINDS.items():
        det.append([wire_text([V, ("id", "1"), ("method", '"m/%s"' % kn), ("params", kv)])])
        det.append([wire_text([V, ("method", '"n/%s"' % kn), ("params", kv)])])
        det.append([wire_text([V, ("id", '"r"'), ("result", kv)])])
        det.append([wire_text([V, ("id", "2"), ("error", '{"code":-32000,"message":"with data","data":%s}' % kv)])])
        det.append([wire_text([V, ("id", "3"), ("result", kv), ("error", '{"code":1,"message":"both","data":%s,"more":true}' % kv)])])
    for idn, idv in WIRE_IDS.items():
        det.append([wire_text([V, ("id", idv), ("method", '"m"')]), wire_text([V, ("id", idv), ("result", "null")]),
                    wire_text([V, ("id", idv), ("error", '{"code":-32601,"message":"JSON RPC method not found"}')])])
    det.append([wire_text([V, ("id", "null"), ("method", '"notif-with-null-id"')]), wire_text([V, ("method", '"n"')]),
                wire_text([V, ("id", "5"), ("error", '{"message":"no code"}')]), wire_text([V, ("id", "5"), ("error", '{"code":9}')]),
                wire_text([V, ("id", "5"), ("error", "{}")]), wire_text([V, ("id", "5"), ("error", "null"), ("result", "1")]),
                wire_text([V, ("id", "6"), ("error", '{"code":%d,"message":"","data":[]}' % (2 ** 63 - 1))]),
                wire_text([V, ("id", "6"), ("error", '{"code":%d,"message":"min"}' % (-2 ** 63))]), wire_text([V, ("id", "8")])])
    for bad in ['{"jsonrpc":"1.0","id":1,"method":"m"}', '{"id":1,"method":"m"}', '{"jsonrpc":"2.0","error":{"code":1,"message":"x"}}',
                '{"jsonrpc":"2.0","id":null,"result":1}', '{"jsonrpc":"2.0","id":true,"method":"m"}', '{"jsonrpc":"2.0","id":{},"method":"m"}',
                '{"jsonrpc":"2.0","id":[1],"result":1}', '{"jsonrpc":"2.0","id":1,"error":{"code":1.5,"message":"x"}}', '{"jsonrpc":"2.0","id":1,"method":"m"',
                '[]', '"x"', '{"jsonrpc":"2.0"}']:
        det.append(["!" + bad, wire_text([V, ("id", "1"), ("method", '"after-a-rejected-one"')])])
    kinds = list(JSON_KINDS.values())
    ids = list(WIRE_IDS.values())

    def one():
        k = rng.below(10)
        i = rng.choice(ids) if rng.below(4) else str(rng.below(2 * SAFE + 1) - SAFE)
        if k < 2:
            ms = [V, ("id", i), ("method", json.dumps(rng.choice(METHODS).strip() or "m"))] + ([("params", rng.choice(kinds))] if rng.below(3) else [])
        elif k < 4:
            ms = [V, ("method", json.dumps(rng.choice(METHODS).strip() or "n"))] + ([("params", rng.choice(kinds))] if rng.below(3) else []) + ([("id", "null")] if rng.below(4) == 0 else [])
        elif k < 6:
            ms = [V, ("id", i), ("result", rng.choice(kinds))]
        else:
            e = []
            if rng.below(5):
                e.append(("code", str(rng.choice([-32700, -32603, -32000, 0, 1, 2 ** 40, -2 ** 62]))))
            if rng.below(5):
                e.append(("message", json.dumps(rng.choice(["request failed", "", "é", "a\nb", "<x>"]))))
            if rng.below(3):
                e.append(("data", rng.choice(kinds)))
            ms = [V, ("id", i), ("error", wire_text(e, rng, noise=rng.below(2) == 0))] + ([("result", rng.choice(kinds))] if rng.below(4) == 0 else [])
        return wire_text(ms, rng, noise=rng.below(3) > 0)

    seeded = [[one() for _ in range(1 + rng.below(4))] for _ in range(ctx.n(1500, 40000))]
    return det, seeded


def proj_model_tok(tok, decode):
    """model token -> what the implementation must show for it"""
    body, total = tok.rsplit("@", 1)
    if body.startswith("P:"):
        d = decode[body[2:]]
        if d == "DECODE_ERR":
            return "E:OTHER@" + total
        return d + "@" + total
    k = body[2:]
    if k in ("HDR_LINE", "HDR_LENGTH", "HDR_MISSING"):
        k = "OTHER"          # distinguishable only by message text: not compared
    return "E:" + k + "@" + total


def run(ctx):
    ctx.regen(["c38"])      # K-gen: Gen/C38.v from the current source; its obligations are theorems of Props/C38.v
    ctx.prove("C38")
    model = ctx.model("c38")
    impl = ctx.harness("c38")

    # ------------------------------------------------------------------ R: reader
    streams, ndet, nsoup = gen_streams(ctx)
    cases = ["R " + hx(s) for s, _, _ in streams]
    inp = "\n".join(cases) + "\n"
    ctx.log("generated %d streams" % len(cases))
    # streams that declare (almost) 2 GiB make the implementation allocate that much: they run in a process of their
    # own with the collector off (under `ulimit -v` the Go collector makes a 2 GiB allocation take minutes)
    import os
    huge = [i for i, (s_, _, _) in enumerate(streams) if b"2147483647" in s_ or b"2147483646" in s_]
    hset = set(huge)
    small_inp = "\n".join(c for i, c in enumerate(cases) if i not in hset) + "\n"
    rc1, out_small = ctx.run([impl], input=small_inp)
    outs = {}
    for i in huge:
        env = dict(os.environ, GOGC="off")
        rch, oh = ctx.run([impl], input=cases[i] + "\n", mem_kb=12000000, env=env)
        rc1 = rc1 or rch
        outs[i] = oh.splitlines()[0] if oh.splitlines() else "NOOUTPUT"
    merged, it = [], iter(out_small.splitlines())
    for i in range(len(cases)):
        merged.append(outs[i] if i in hset else next(it, "MISSING"))
    out1 = "\n".join(merged) + "\n"
    ctx.log("implementation read them")
    rc2, out2 = ctx.run([model], input=inp)
    ctx.log("model read them")
    if rc1 != 0 or rc2 != 0:
        ctx.broken("correspondence(c38:run-R)", "impl rc=%d model rc=%d %s %s" % (rc1, rc2, out1[-300:], out2[-300:]))
        return
    il, ml = out1.splitlines(), out2.splitlines()
    if len(il) != len(cases) or len(ml) != len(cases):
        ctx.broken("correspondence(c38:run-R)", "line counts: cases=%d impl=%d model=%d" % (len(cases), len(il), len(ml)))
        return
    # payloads the model says were delivered -> decoded by the real DecodeMessage
    pls = sorted(set(t.rsplit("@", 1)[0][2:] for l in ml for t in l.split() if t.startswith("P:")))
    rc3, out3 = ctx.run([impl], input="".join("D %s\n" % p for p in pls))
    dl = out3.splitlines()
    if rc3 != 0 or len(dl) != len(pls):
        ctx.broken("correspondence(c38:run-D)", "rc=%d lines=%d/%d" % (rc3, len(dl), len(pls)))
        return
    decode = dict(zip(pls, dl))
    for p, d in decode.items():
        if d.startswith("PANIC"):
            ctx.fail("decode:" + p[:64], "DecodeMessage panicked on %s: %s" % (p[:80], d), {"payload_hex": p, "impl": d})
    impl_vals = [l.split("\t")[0] for l in il]
    model_vals = [" ".join(proj_model_tok(t, decode) for t in l.split()) if not l.startswith(("PANIC", "OUTOFFUEL", "BADCASE")) else l for l in ml]
    ctx.diff_lines("read_stream~HeaderFramer.Reader", cases, "\n".join(impl_vals), "\n".join(model_vals))

    # direct oracle (implementation only)
    shapes, results = {}, {}
    nontriv = set()
    for (s, lab, exp), c, l in zip(streams, cases, il):
        f = l.split("\t")
        toks = f[0].split()
        lab0 = lab.split(":")[0] if lab.startswith("det:") else lab
        shapes[lab0] = shapes.get(lab0, 0) + 1
        for t in toks:
            k = t.split("@")[0]
            k = "MSG" if k.startswith("M:") else k
            results[k] = results.get(k, 0) + 1
        if len(s) >= 16:
            nontriv.add(c)
        key = "stream:" + vsha(s)
        why = None
        if len(f) < 2 or f[1] != "ok":
            why = f[1] if len(f) > 1 else "no-verdict"
        elif exp is not None:
            why = check_expect(toks, exp)
        if why:
            ctx.fail(key, "HeaderFramer reader on %r...: %s -> %s" % (s[:60], why, f[0][:200]),
                     {"stream_hex": hx(s), "shape": lab, "expected": exp, "impl": l})

    # ------------------------------------------------------------------ W: writer + codec round trip
    probes, lists = gen_messages(ctx)
    wdet, wseeded = gen_wire(ctx)
    wire = wdet + wseeded
    wcases = ["W " + " ".join(m) for m in probes + lists] + ["J " + " ".join(("!" if t.startswith("!") else "") + hx(t.lstrip("!").encode()) for t in ts) for ts in wire]
    rc4, out4 = ctx.run([impl], input="\n".join(wcases) + "\n")
    ctx.log("writer/codec round trips done (%d lists)" % len(wcases))
    wl = out4.splitlines()
    if rc4 != 0 or len(wl) != len(wcases):
        ctx.broken("correspondence(c38:run-W)", "rc=%d lines=%d/%d %s" % (rc4, len(wl), len(wcases), out4[-300:]))
        return
    mcases, wimpl = [], []
    for l in wl:
        f = l.split("\t")
        mcases.append("W " + (f[0].replace(",", " ") if f[0] != "-" else ""))
        wimpl.append(f[1] if len(f) > 1 else "?")
    rc5, out5 = ctx.run([model], input="\n".join(mcases) + "\n")
    if rc5 != 0:
        ctx.broken("correspondence(c38:run-Wm)", "rc=%d %s" % (rc5, out5[-300:]))
        return
    ctx.diff_lines("write_stream~HeaderFramer.Writer", wcases, "\n".join(wimpl), out5)
    kinds = {}
    nbuilt = len(probes) + len(lists)
    for ts, l in zip(wire, wl[nbuilt:]):
        f = l.split("\t")
        for t in ts:
            k = "wire:rejected" if t.startswith("!") else ("wire:error-data" if '"data"' in t else "wire:error" if '"error"' in t and '"error":null' not in t.replace(" ", "")
                 else "wire:result" if '"result"' in t else "wire:request" if '"id"' in t and '"id":null' not in t.replace(" ", "") else "wire:notification")
            kinds[k] = kinds.get(k, 0) + 1
        verdict = f[2] if len(f) > 2 else "no-verdict"
        if verdict != "ok":
            ctx.fail("wire:" + vsha(" ".join(ts).encode()), "decode -> write -> read of wire-form messages %s: %s" % (" ".join(ts)[:300], verdict[:600]),
                     {"wire_messages": ts, "impl": l[:3000]})
    for i, (specs, l) in enumerate(zip(probes + lists, wl)):
        f = l.split("\t")
        for m in specs:
            kinds[m[0]] = kinds.get(m[0], 0) + 1
        verdict = f[2] if len(f) > 2 else "no-verdict"
        if verdict != "ok":
            if i < len(probes):
                key = "msg:" + specs[0].split("|")[0] + ":" + specs[0].split("|")[1]
            else:
                key = "msgs:" + vsha(" ".join(specs).encode())
            ctx.fail(key, "write/read round trip of %s: %s" % (" ".join(specs)[:200], verdict),
                     {"messages": specs, "impl": l[:2000]})

    ctx.cover(evaluations=len(cases) + len(wcases), distinct_nontrivial=len(nontriv) + len(set(c for c in wcases if len(c) > 20)),
              samples=[{"stream_hex": cases[i][2:][:160], "impl": impl_vals[i][:200]} for i in (5, ndet + 7, len(cases) - 3)]
                      + [{"messages": wcases[len(probes) + 2][:200], "impl": wl[len(probes) + 2][:200]}],
              rule="reader: %d deterministic streams (header variants, every rune of U+0080-U+00FF and the General Punctuation / "
                   "Ogham / CJK-space neighbourhoods as white space) + %d exhaustive token sequences (length<=%d over %d tokens) + %d seeded "
                   "well-formed sequences and mutations; non-trivial = distinct stream of >=16 bytes. writer/codec: %d deterministic id probes "
                   "+ %d seeded lists of 0-4 messages (valid messages only: non-empty valid-UTF-8 method, valid JSON params/result, "
                   "response ids valid; seeded integer ids within +-2^53; wireError.Data not constructible through the exported API) "
                   "+ %d deterministic and %d seeded lists of WIRE-FORM messages (JSON texts decoded by DecodeMessage, written, read back; "
                   "checked: read-back message == first decode field by field, re-encoding == known members of the text; see codec_member_coverage)"
                   % (ndet, nsoup, ctx.n(3, 4), len(TOKENS) if not ctx.quick else 18, len(cases) - ndet - nsoup, len(probes), len(lists), len(wdet), len(wseeded)),
              codec_member_coverage={"constructor-built (W)": "call: id (string|int64), method, params (absent|JSON kinds); notification: method, params; "
                                     "response: id, result (absent|JSON kinds), error (nil | NewError code/message | plain error | wrapped wire error) - "
                                     "never error.data (not constructible)", "wire-form (J)": WIRE_MEMBERS, "json_kinds": sorted(JSON_KINDS)},
              stream_shape_histogram=dict(sorted(shapes.items(), key=lambda kv: -kv[1])),
              read_result_histogram=results, message_kind_histogram=kinds, distinct_payloads_decoded=len(pls))
    ctx.assume("transport delivers bytes then EOF: other read errors and context cancellation are not modelled",
               "codec hypothesis dec(enc m)=m holds on the generated message domain (explored on the implementation, not proved)")
    ctx.trust("modelled, not verified: x/jsonrpc2/frame.go headerReader.Read/headerWriter.Write with bufio.ReadString, strings.TrimSpace, "
              "strings.IndexRune, strconv.ParseInt(...,10,32), io.ReadFull as hand-written Gallina (Model/C38.v), tied by the differential run",
              "not modelled: encoding/json and EncodeMessage/DecodeMessage (explored through the real functions)")


def check_expect(toks, exp):
    for i, e in enumerate(exp):
        if i >= len(toks):
            return "expected %s at read %d, reader stopped" % (e, i)
        t = toks[i]
        body, total = t.rsplit("@", 1)
        if e == "err":
            if body.startswith("M:"):
                return "read %d returned a message from a frame the generator broke" % i
            return None
        kind, n = e
        if kind == "ok":
            # a well-formed frame: consumed exactly, never an error of the framing layer
            if int(total) != n:
                return "read %d consumed %s bytes, frame has %d" % (i, total, n)
            if body.startswith("E:") and body != "E:OTHER":
                return "read %d of a well-formed frame failed with %s" % (i, body)
        elif kind == "eof":
            if body != "E:EOF":
                return "read %d: expected clean EOF, got %s" % (i, body)
    return None


def vsha(b):
    import hashlib
    return hashlib.sha256(b).hexdigest()[:12]
