"""C15 - scanning is total and every token is the exact source text (scanner/scanner.go).

A  Props/C15.v over Model/Scan.v (dialect XGo)
B  extracted model vs the real XGo scanner: every string of <= 3 symbols over a 53-symbol
   alphabet in both comment modes (exhaustive), seeded structured lexeme sequences, a
   malformed stream (mutated sequences)
C  the four clauses of the Reading evaluated on the real scanner's output by the harness:
   total + EOF + token count; offsets monotone, in range; literal/spelling = source text at
   the offset (CR deletion; c"/py" prefix; U+FFFD for an invalid byte); with comments on every
   byte outside tokens is blank (leading BOM aside)
"""
from checks import scan_common as sc

CLAIM = {
    "level": "proof",
    "text": "Coq theorems over a line-by-line model of scanner.Scan and all its sub-scanners (XGo dialect) for every byte "
            "string and both comment modes; the model is tied to the code on every run by an exhaustive short-string "
            "(<=3 symbols over 53) plus seeded structured differential run of the extracted model against the real scanner "
            "(tokens, offsets, literals, error offsets), and the four clauses are evaluated directly on the real output.",
    "note": "Trusted: Coq kernel, extraction, harness. unicode.IsLetter/IsDigit are Section variables instantiated from Go's "
            "tables. Not modelled: token.File line tables. Carve-outs stated in the theorems: inserted semicolons have an empty "
            "or newline extent; leading BOM; ILLEGAL for an invalid UTF-8 byte carries U+FFFD; CSTRING/PYSTRING literals start "
            "after the c / py prefix; comment and raw-string literals are the source text with carriage returns deleted by stripCR.",
}


def run(ctx):
    ctx.regen(["scantok"])
    sc.gen_notes(ctx)
    ctx.prove("C15")
    R = sc.Runner(ctx)
    L = ctx.n(3, 3)
    srcs = sc.exhaustive(sc.ALPHA, L)
    nex = len(srcs)
    if not ctx.quick:
        import itertools
        srcs += [b"".join(t) for t in itertools.product(sc.ALPHA_SMALL, repeat=4)]
    nex2 = len(srcs)
    shapes = {}
    nrand = ctx.n(6000, 300000)
    for i in range(nrand):
        s, shape = sc.random_sequence(ctx.rng, malformed=(40 if i % 3 == 0 else 0))
        srcs.append(s)
        k = "len%d%s" % (min(len(shape.rstrip("~")), 7), "+mut" if shape.endswith("~") else "")
        shapes[k] = shapes.get(k, 0) + 1
    cases = [sc.case("x", m, s) for s in srcs for m in (True, False)]
    impl, model = R.correspond("scan(XGo)~scanner.Scan", cases)
    # direct oracle
    verdicts = {}
    for c, (r, v) in zip(cases, impl):
        verdicts[v] = verdicts.get(v, 0) + 1
        if v != "ok":
            src = sc.src_of(c)
            ctx.fail(sc.key_of("src", c[:2].encode() + src), "C15 clause fails on %r (%s): %s" % (src, c[:2], v),
                     {"case": c, "src_repr": repr(src), "mode": c[1], "verdict": v, "impl": r[:400]})
    distinct = set()
    toks_hist = {}
    for c, (r, v) in zip(cases, impl):
        st, toks, errs = sc.parse_result(r)
        if len(toks) >= 3:
            distinct.add(c)
        k = "tokens=%d" % min(len(toks), 8)
        toks_hist[k] = toks_hist.get(k, 0) + 1
    ctx.cover(evaluations=len(cases), distinct_nontrivial=len(distinct),
              samples=[{"case": cases[i], "src": repr(sc.src_of(cases[i])), "impl": impl[i][0][:200]}
                       for i in (2 * nex - 2, 2 * nex2 + 3, 2 * nex2 + 11, len(cases) - 1)],
              rule="exhaustive: all %d strings of <=%d symbols over a %d-symbol alphabet%s, x2 comment modes; + %d seeded lexeme "
                   "sequences (identifiers, numbers, strings, operators, comments incl. line directives, odd bytes; random "
                   "separators), one third of them mutated by a byte deletion/duplication/replacement (malformed stream); "
                   "non-trivial = distinct case whose stream has >= 3 tokens"
                   % (nex, L, len(sc.ALPHA), "" if ctx.quick else " + all length-4 strings over %d symbols" % len(sc.ALPHA_SMALL), nrand),
              exhaustive=True, exhaustive_part=2 * nex2, oracle_verdicts=verdicts,
              random_shape_histogram=dict(sorted(shapes.items())), token_count_histogram=dict(sorted(toks_hist.items())))
    ctx.trust("modelled, not verified: scanner/scanner.go (Scan, next, scanComment, updateLineInfo error part, findLineEnd, "
              "scanIdentifier, scanNumber, digits, invalidSep, scanEscape, scanRune, scanString, scanRawString, stripCR, "
              "skipWhitespace, switch2/3/4) - hand-written Gallina model tied by the differential run; token codes, keyword "
              "table regenerated from token/token.go (Gen/ScanTok.v)")
    ctx.assume("token.File line bookkeeping (AddLine, AddLineColumnInfo) does not influence (pos, tok, lit) or error offsets")
