"""C15 - scanning is total and every token is the exact source text (scanner/scanner.go).

A  Props/C15.v over Model/Scan.v (dialect XGo)
B  extracted model vs the real XGo scanner: every string of <= 3 symbols over a 53-symbol
   alphabet in both comment modes (exhaustive), seeded structured lexeme sequences, a
   malformed stream (mutated sequences)
C  the four clauses of the Reading evaluated on the real scanner's output by the harness:
   total + EOF + token count; offsets monotone, in range; literal/spelling = source text at
   the offset (CR deletion; c"/py" prefix; U+FFFD for an invalid byte); with comments on every
   byte outside tokens is blank (leading BOM aside)
"""
from checks import scan_common as sc

CLAIM = {
    "level": "proof",
    "text": "Coq theorems (no axioms) over a line-by-line model of scanner.Scan and every sub-scanner, for every byte string and both "
            "comment modes: Scan never panics and the stream ends with EOF within 2|src|+3 steps (all three scanner dialects); at most one "
            "token per byte besides inserted semicolons; offsets monotone and token texts disjoint; every literal/spelling is the source "
            "text at its offset; with comments on every other byte is blank. The model is tied to the code on every run by an exhaustive "
            "short-string (<=3 of 53 byte symbols; <=5 / <=3 lexemes at token level) plus seeded structured differential run of the "
            "extracted model against the real scanner (tokens, offsets, literals, error offsets), and the four clauses are evaluated "
            "directly on the real output.",
    "note": "Trusted: Coq kernel, extraction, harness. unicode.IsLetter/IsDigit are Section variables instantiated from Go's tables. Not "
            "modelled: token.File line tables. Carve-outs stated in the theorems (lit_ok): inserted semicolons have an empty or newline "
            "extent; leading BOM; ILLEGAL carries string(ch) (U+FFFD for an invalid byte); CSTRING/PYSTRING literals start after the c / py "
            "prefix; comment and raw-string literals are the source text with carriage returns deleted (cr_del). Sub-scanner loops run on "
            "local fuel S|rest| that is proved sufficient (C15_local_fuel_sufficient).",
}


def run(ctx):
    ctx.regen(["scantok", "scanconst"])
    sc.gen_notes(ctx)
    ctx.prove("C15")
    R = sc.Runner(ctx)
    groups = []                                   # (name, [src], modes)
    L = 3
    ex = sc.exhaustive(sc.ALPHA, L)
    groups.append(("exhaustive-bytes", ex, (True, False)))
    if not ctx.quick:
        import itertools
        groups.append(("exhaustive-bytes-4", [b"".join(t) for t in itertools.product(sc.ALPHA_SMALL, repeat=4)], (True, False)))
    core = sc.tok_exhaustive(sc.TOK_CORE, ctx.n(5, 6))
    groups.append(("exhaustive-tokens-core", core, (True,)))
    wide = sc.tok_exhaustive(sc.TOK_WIDE, 3)
    groups.append(("exhaustive-tokens-wide", wide, (True, False)))
    for k, v in sc.boundary_family().items():
        groups.append(("boundary-" + k, v, (True, False)))
    shapes = {}
    rnd = []
    nrand = ctx.n(6000, 300000)
    for i in range(nrand):
        s, shape = sc.random_sequence(ctx.rng, malformed=(40 if i % 3 == 0 else 0))
        rnd.append(s)
        k = "len%d%s" % (min(len(shape.rstrip("~")), 7), "+mut" if shape.endswith("~") else "")
        shapes[k] = shapes.get(k, 0) + 1
    groups.append(("lexeme-sequences", rnd, (True, False)))
    st = [sc.stateful_sequence(ctx.rng, extra=(b"1m", b"3r", b"//c\n", b"/*c*/", b"#c\n", b"return", b"?"))[0] for _ in range(ctx.n(4000, 100000))]
    groups.append(("stateful-sequences", st, (True, False)))
    cases, gname = [], []
    for name, srcs, modes in groups:
        for s in srcs:
            for m in modes:
                cases.append(sc.case("x", m, s))
                gname.append(name)
    impl, model = R.correspond("scan(XGo)~scanner.Scan", cases)
    # direct oracle: the four clauses, evaluated by the harness on the real scanner's output
    verdicts, per_group, toks_hist = {}, {}, {}
    distinct = 0
    for c, g, (r, v) in zip(cases, gname, impl):
        verdicts[v] = verdicts.get(v, 0) + 1
        per_group[g] = per_group.get(g, 0) + 1
        n = sc.ntokens(r)
        if n >= 3:
            distinct += 1
        k = "tokens=%d" % min(n, 8)
        toks_hist[k] = toks_hist.get(k, 0) + 1
        if v != "ok":
            src = sc.src_of(c)
            ctx.fail(sc.key_of("src", c[:2].encode() + src), "C15 clause fails on %r (%s): %s" % (src, c[:2], v),
                     {"case": c, "src_repr": repr(src), "mode": c[1], "verdict": v, "impl": r[:400]})
    pick = [2 * len(ex) - 2, 2 * len(ex) + len(core) // 2, len(cases) - 2 * len(st) - 7, len(cases) - 1]
    ctx.cover(evaluations=len(cases), distinct_nontrivial=distinct,
              samples=[{"case": cases[i], "src": repr(sc.src_of(cases[i])), "impl": impl[i][0][:200]} for i in pick],
              rule="exhaustive: all %d strings of <=%d symbols over a %d-symbol byte alphabet x2 comment modes%s; token-level: all %d "
                   "sequences of <=%d lexemes over %s and all %d sequences of <=3 lexemes over a %d-lexeme alphabet (multi-character "
                   "operators, comments, unit numbers as single symbols; reaches state carried across tokens: nParen, insertSemi, "
                   "pending unit); the deterministic boundary-value family (escapes \\u \\U \\x octal around D7FF/D800/DFFF/E000/FFFF/10FFFF/110000/377/400 in '..' \"..\" c\"..\" py\"..\", UTF-8 boundary / overlong / surrogate / truncated encodings and BOM placement, digit-radix-letter range edges after every number prefix, //line numbers around 0, 1<<30, 1<<63, 1<<64); %d seeded lexeme sequences (identifiers, numbers, strings, operators, comments incl. line "
                   "directives, odd bytes; random separators), one third mutated by a byte deletion/duplication/replacement "
                   "(malformed stream); %d seeded stateful sequences of 4-12 lexemes ( ( ) ; ... ! newline literals units comments). "
                   "All cases are distinct inputs; non-trivial = stream of >= 3 tokens"
                   % (len(ex), L, len(sc.ALPHA), "" if ctx.quick else " + all length-4 strings over %d symbols" % len(sc.ALPHA_SMALL),
                      len(core), ctx.n(5, 6), b" ".join(sc.TOK_CORE).decode("latin1").replace("\n", "\\n"), len(wide), len(sc.TOK_WIDE), nrand, len(st)),
              exhaustive=True, cases_per_group=per_group, oracle_verdicts=verdicts,
              random_shape_histogram=dict(sorted(shapes.items())), token_count_histogram=dict(sorted(toks_hist.items())))
    ctx.trust("modelled, not verified: scanner/scanner.go (Scan, next, scanComment, updateLineInfo error part, findLineEnd, "
              "scanIdentifier, scanNumber, digits, invalidSep, scanEscape, scanRune, scanString, scanRawString, stripCR, "
              "skipWhitespace, switch2/3/4) - hand-written Gallina model tied by the differential run; token codes, keyword "
              "table regenerated from token/token.go (Gen/ScanTok.v)")
    ctx.assume("token.File line bookkeeping (AddLine, AddLineColumnInfo) does not influence (pos, tok, lit) or error offsets")
