"""C25 — Go->XGo style conversion preserves behaviour (x/format/format.go, gopstyle.go, stmt_expr_or_type.go).

A  Props/C25.v over MiniGo (coq/Model/C25.v): the conversion (fmtToBuiltin over the GENERATED
   printFuncs table, fncallStartingLowerCase, funcLitToLambdaExpr, commandStyleFirst, main
   unwrapping, scope tracking as implemented) and an evaluator with Go / XGo name resolution:
   C25_gopstyle_preserves under no_shadow / no_case_twin / no_builtin_clash (full: incl. the deletion
   of the unused fmt import), C25_gopstyle_preserves_tracked (`var` statements may shadow imports: the
   scope tracking with block entry/exit is part of the theorem), C25_scope_tracking_invisible, *_refuted witnesses,
   table obligations over Gen/C25.v (regenerated from x/format and cl/builtin.go on every run).
B  shape K-diff: real x/format.GopstyleSource output, parsed again and projected to MiniGo, vs the
   extracted model, on deterministic + seeded MiniGo programs.
C  behaviour (direct oracle): original built by Go vs converted text compiled by the in-process XGo
   compiler (x/build) and built by Go, all programs batched into one module / one binary; outputs
   compared.
"""
import os
import re

import vlib
from checks import c25gen as G

CLAIM = {
    "level": "other",
    "text": "Coq theorem over MiniGo (calls of package functions, user functions, methods and function-literal arguments; "
            "output = trace of external calls): the modelled conversion (fmt.X -> builtin via the generated printFuncs and "
            "XGo builtin tables, lower-casing of selector calls, function literal -> lambda, command style, main unwrapping) "
            "preserves the trace of every program that has no := variable / parameter / receiver / package variable named like "
            "an import (var statements may shadow imports: the tracked scopes are part of the theorem), nothing named like a "
            "substituted builtin and no lower-case twin of a called method; witnesses refute it otherwise. The model is tied to x/format by "
            "regenerating its tables on every run and by comparing its output tree with the real GopstyleSource output on "
            "generated programs; behaviour of generated and handwritten programs is checked end to end (go build + run).",
    "note": "Kernel theorem + explored remainder: the printer/parser round trip, XGo's compiler and everything outside "
            "MiniGo (loops, switch, pointers, generics...) are only exercised by the behaviour runs. The semantic theorem "
            "(C25_gopstyle_preserves, incl. the deletion of the unused fmt import) is about the converted TREE; what re-parsing "
            "the printed text changes (leading var statements of an unwrapped main become package-level) is modelled for the "
            "shape comparison (printed_view) and reported as a finding, not covered by the theorem.",
}


def goenv():
    e = dict(vlib.GOENV)
    e["GOFLAGS"] = "-mod=mod"
    return e


def to_pkg(src, pkg):
    """turn a `package main` program into package <pkg> with an exported Main()"""
    src = re.sub(r"(?m)^package main\s*$", "package " + pkg, src, count=1)
    src = re.sub(r"(?m)^func main\(\) \{", "func Main() {", src, count=1)
    return src


def build_and_run(ctx, progs):
    """progs: {name: (orig_go_source, converted_go_source or None)} -> {name: {"orig": out, "conv": out | ("compile", msg)}}"""
    root = os.path.join(ctx.scratch, "c25run")
    os.makedirs(root, exist_ok=True)
    open(os.path.join(root, "go.mod"), "w").write("module c25run\n\ngo 1.18\n")
    idx = {}
    solo = {}
    for i, (name, (orig, conv)) in enumerate(sorted(progs.items())):
        if name in G.SOLO:
            solo[name] = i
            for kind, src in (("orig", orig), ("conv", conv)):
                if src is not None:
                    d = os.path.join(root, "solo", "%s%d" % (kind, i))
                    os.makedirs(d, exist_ok=True)
                    open(os.path.join(d, "main.go"), "w").write(src)
            continue
        idx[name] = i
        for kind, src in (("orig", orig), ("conv", conv)):
            if src is None:
                continue
            d = os.path.join(root, kind, "p%d" % i)
            os.makedirs(d, exist_ok=True)
            open(os.path.join(d, "p.go"), "w").write(to_pkg(src, "p%d" % i))
    # first round: compile every package, collect the ones that do not build
    ctx.log("behaviour: go build of %d packages" % (2 * len(progs)))
    os.makedirs(os.path.join(root, "solobin"), exist_ok=True)
    rc, out = ctx.run("go build ./orig/... ./conv/... 2>&1", cwd=root, env=goenv(), timeout=600)
    ctx.log("behaviour: packages built rc=%d" % rc)
    bad = {}
    cur = None
    for line in out.splitlines():
        m = re.match(r"# c25run/(orig|conv)/p(\d+)\b", line)
        if m:
            cur = (m.group(1), int(m.group(2)))
            bad.setdefault(cur, "")
            continue
        m = re.match(r"(orig|conv)/p(\d+)/p\.go:\d+:\d+: (.*)$", line)
        if m:
            cur = (m.group(1), int(m.group(2)))
            bad.setdefault(cur, "")
        if cur is not None and not bad[cur] and line.strip() and not line.startswith("#"):
            bad[cur] = line.strip()
    if rc != 0 and not bad:
        raise RuntimeError("go build failed without attributable package:\n" + out[-2000:])
    # the runner
    lines = ["package main", "", "import (", '\t"fmt"', '\t"os"']
    calls = []
    for name, i in sorted(idx.items(), key=lambda kv: kv[1]):
        for kind in ("orig", "conv"):
            if progs[name][0 if kind == "orig" else 1] is None or (kind, i) in bad:
                continue
            lines.append('\t%s%d "c25run/%s/p%d"' % (kind, i, kind, i))
            calls.append('\trun("%s %d", %s%d.Main)' % (kind, i, kind, i))
    lines += [")", "", "func run(tag string, f func()) {", '\tfmt.Printf("\\n<<<%s>>>\\n", tag)',
              "\tdefer func() {", "\t\tif e := recover(); e != nil {", '\t\t\tfmt.Printf("\\n<<<panic %v>>>\\n", e)', "\t\t}",
              "\t\tos.Stdout.Sync()", "\t}()", "\tf()", "}", "", "func main() {"] + calls + ["}"]
    os.makedirs(os.path.join(root, "runner"), exist_ok=True)
    open(os.path.join(root, "runner", "main.go"), "w").write("\n".join(lines) + "\n")
    rc, out2 = ctx.run("go build -o runner.bin ./runner 2>&1", cwd=root, env=goenv(), timeout=600)
    if rc != 0:
        raise RuntimeError("runner build failed:\n" + out2[-2000:])
    ctx.log("behaviour: runner built")
    rc, out3 = ctx.run("./runner.bin 2>&1", cwd=root, timeout=120)
    res = {name: {} for name in progs}
    byidx = {i: n for n, i in idx.items()}
    for (kind, i), msg in bad.items():
        if i in byidx:
            res[byidx[i]][kind] = ("compile", msg)
    for m in re.finditer(r"\n<<<(orig|conv) (\d+)>>>\n(.*?)(?=\n<<<(?:orig|conv) \d+>>>\n|\Z)", out3, re.S):
        res[byidx[int(m.group(2))]][m.group(1)] = m.group(3)
    for name, i in solo.items():
        for kind in ("orig", "conv"):
            d = os.path.join(root, "solo", "%s%d" % (kind, i))
            if not os.path.isdir(d):
                continue
            rcb, outb = ctx.run("go build -o ../../solobin/%s%d . 2>&1" % (kind, i), cwd=d, env=goenv(), timeout=300)
            if rcb != 0:
                res[name][kind] = ("compile", outb.strip().splitlines()[-1] if outb.strip() else "?")
                continue
            rcr, outr = ctx.run("./solobin/%s%d 2>&1" % (kind, i), cwd=root, timeout=60)
            res[name][kind] = outr
    return res


def run(ctx):
    ctx.level = "other"
    ctx.regen(["c25"])
    ctx.prove("C25")
    model = ctx.model("c25")
    impl = ctx.harness("c25")
    impcache = os.path.join(vlib.BUILD, "c25_impcache_" + vlib.sha(vlib.REPO))

    cases = []   # (name, go source, model line | None, origin)
    for name, decls in G.deterministic():
        cases.append((name, G.render(decls), G.model_line(decls), "deterministic"))
    for name, src in G.RAW:
        cases.append((name, src, None, "raw"))
    nrand = ctx.n(16, 400)
    shape = {}
    for i in range(nrand):
        g = G.Gen(ctx.rng)
        decls = g.program()
        src = G.render(decls)
        for k, v in g.shape.items():
            shape[k] = shape.get(k, 0) + v
        cases.append(("rnd-" + vlib.sha(src), src, G.model_line(decls), "random"))
    # the scope-tracking family: nested scopes declaring a var named like the fmt import (tracked shadowing)
    nshadow = ctx.n(8, 200)
    for i in range(nshadow):
        g = G.Gen(ctx.rng, shadow_bias=3)
        decls = g.program()
        src = G.render(decls)
        for k, v in g.shape.items():
            shape[k] = shape.get(k, 0) + v
        cases.append(("shd-" + vlib.sha(src), src, G.model_line(decls), "random"))
    # extra shape-only random programs (cheap: no build)
    nshape = ctx.n(300, 5000)
    shape_only = []
    for i in range(nshape):
        g = G.Gen(ctx.rng, shadow_bias=(3 if i % 3 == 0 else 0))
        decls = g.program()
        shape_only.append(("shp-%d" % i, G.render(decls), G.model_line(decls), "shape-only"))
        for k, v in g.shape.items():
            shape[k] = shape.get(k, 0) + v

    # generator validity: every generated ORIGINAL must be well-typed Go (go/parser + go/types in the harness).
    # A reject is a bug of the generator, never of /repo: it is dropped and counted in the evidence
    # (with VERIF_DEV=1 it stops the check, for development).
    gen_cases = [c for c in cases + shape_only if c[3] in ("random", "shape-only")]
    inp = "".join("gocheck\t%s\t%s\n" % (n, s.encode().hex()) for n, s, _, _ in gen_cases)
    rc0, out0 = ctx.run([impl, "-repo", vlib.REPO], input=inp, timeout=900)
    rejected = {}
    lines0 = out0.splitlines()
    if rc0 != 0 or len(lines0) != len(gen_cases):
        ctx.broken("check-machinery(c25:gocheck)", "rc=%d lines=%d cases=%d %s" % (rc0, len(lines0), len(gen_cases), out0[-300:]))
        return
    for c, l in zip(gen_cases, lines0):
        f = l.split("\t")
        if len(f) < 2 or f[1] != "OK":
            rejected[c[0]] = (f[2] if len(f) > 2 else "?")[:200]
    if rejected:
        ctx.log("GENERATOR-BUG: %d generated original(s) rejected by go/types and dropped: %s" % (len(rejected), list(rejected.items())[:3]))
        if os.environ.get("VERIF_DEV"):
            raise RuntimeError("generator produced invalid Go: %s" % list(rejected.items())[:3])
    cases = [c for c in cases if c[0] not in rejected]
    shape_only = [c for c in shape_only if c[0] not in rejected]

    allc = cases + shape_only
    inp = "".join("style\t%s\t%s\n" % (n, s.encode().hex()) for n, s, _, _ in allc)
    ctx.log("conversion of %d programs" % len(allc))
    rc1, out1 = ctx.run([impl, "-repo", vlib.REPO], input=inp, timeout=600)
    ctx.log("conversion done")
    l1 = out1.splitlines()
    if rc1 != 0 or len(l1) != len(allc):
        ctx.broken("correspondence(c25:impl-run)", "rc=%d lines=%d cases=%d %s" % (rc1, len(l1), len(allc), out1[-300:]))
        return
    mc = [(i, c) for i, c in enumerate(allc) if c[2] is not None]
    rc2, out2 = ctx.run([model], input="".join(c[2] + "\n" for _, c in mc))
    l2 = out2.splitlines()
    if rc2 != 0 or len(l2) != len(mc):
        ctx.broken("correspondence(c25:model-run)", "rc=%d lines=%d cases=%d %s" % (rc2, len(l2), len(mc), out2[-300:]))
        return

    # B: shape
    a, b, names = [], [], []
    model_pred = {}
    for (i, c), ml in zip(mc, l2):
        f = l1[i].split("\t")
        mf = ml.split("\t")
        model_pred[c[0]] = mf[1].split(" ")[0] if len(mf) > 1 else "?"
        a.append(f[3] if f[1] == "OK" and len(f) > 3 else " ".join(f[1:3])[:300])
        b.append(mf[0])
        names.append(c[0] + "\n" + c[1])
    ctx.diff_lines("gopstyle~GopstyleSource(shape)", names, "\n".join(a), "\n".join(b))

    # C: behaviour
    conv_text = {}
    for c, l in zip(cases, l1):
        f = l.split("\t")
        name, src = c[0], c[1]
        if f[1] == "PANIC":
            ctx.fail("%s:convert-panic" % name, "GopstyleSource panicked on %s: %s" % (name, f[2][:200]), {"go_source": src})
        elif f[1] != "OK":
            ctx.fail("%s:convert-error" % name, "GopstyleSource output of %s is rejected: %s" % (name, f[2][:200]),
                     {"go_source": src, "converted": bytes.fromhex(f[3]).decode("utf-8", "replace") if len(f) > 3 else None})
        else:
            conv_text[name] = bytes.fromhex(f[2]).decode()
    inp = "".join("xgo2go\t%s\t%s\n" % (n, conv_text[n].encode().hex()) for n, _, _, _ in cases if n in conv_text)
    rc3, out3 = ctx.run([impl, "-repo", vlib.REPO, "-impcache", impcache], input=inp, timeout=900)
    ctx.log("XGo compile of %d converted programs done" % len(conv_text))
    conv_go = {}
    for l in out3.splitlines():
        f = l.split("\t")
        if len(f) >= 3 and f[1] == "OK":
            conv_go[f[0]] = bytes.fromhex(f[2]).decode()
        elif len(f) >= 3:
            conv_go[f[0]] = None
            src = [c[1] for c in cases if c[0] == f[0]][0]
            ctx.fail("%s:xgo-compile" % f[0], "converted %s does not compile with XGo: %s" % (f[0], f[2][:300]),
                     {"go_source": src, "converted": conv_text.get(f[0])})
    if rc3 != 0:
        ctx.broken("correspondence(c25:xgo2go-run)", "rc=%d %s" % (rc3, out3[-300:]))
    progs = {c[0]: (c[1], conv_go.get(c[0])) for c in cases}
    res = build_and_run(ctx, progs)
    nsame, hist = 0, {}
    srcof = {c[0]: c for c in cases}
    for name, r in sorted(res.items()):
        c = srcof[name]
        o, v = r.get("orig"), r.get("conv")
        hist[c[3]] = hist.get(c[3], 0) + 1
        if isinstance(o, tuple) or o is None:
            # the ORIGINAL does not build although go/types accepted it
            if c[3] in ("random", "shape-only"):
                rejected[name] = "go build: %s" % (o,)
                ctx.log("GENERATOR-BUG: original %s does not build and is dropped: %s" % (name, o))
                if os.environ.get("VERIF_DEV"):
                    raise RuntimeError("generator produced a Go program that does not build: %s %s" % (name, o))
            else:
                ctx.broken("check-machinery(c25:handwritten-original)", "%s: handwritten original does not build/run: %s" % (name, o))
            continue
        if progs[name][1] is None:
            continue   # conversion / XGo compile failure already reported
        if isinstance(v, tuple):
            ctx.fail("%s:go-compile" % name, "Go code emitted for converted %s does not build: %s" % (name, v[1][:300]),
                     {"go_source": c[1], "converted": conv_text.get(name)})
        elif v is None:
            ctx.fail("%s:no-output" % name, "converted %s produced no output section" % name, {"go_source": c[1], "converted": conv_text.get(name)})
        elif v != o:
            ctx.fail("%s:behaviour" % name, "%s prints %r, converted prints %r" % (name, o[:200], v[:200]),
                     {"go_source": c[1], "converted": conv_text.get(name), "orig_output": o, "converted_output": v})
        else:
            nsame += 1
        # the model's own prediction for MiniGo programs must agree with what happened
        pred = model_pred.get(name)
        if pred == "same" and not (isinstance(v, str) and v == o) and c[3] == "random":
            ctx.broken("correspondence(c25:model-eval-vs-run)", "%s: model evaluator says same, real run differs" % name)

    distinct = len(set(vlib.sha(c[1]) for c in allc if len(c[1]) > 200))
    ctx.cover(evaluations=len(allc), distinct_nontrivial=distinct,
              samples=[{"name": cases[i][0], "go_source": cases[i][1][:500], "converted": conv_text.get(cases[i][0], "")[:500]}
                       for i in (0, len(cases) - 1)],
              rule="%d deterministic MiniGo programs (controls + finding dimensions) + %d handwritten Go texts + %d seeded random MiniGo "
                   "programs, all three through conversion, XGo compile, go build and run (one batched binary); + %d seeded random "
                   "MiniGo programs for the shape comparison only; non-trivial = distinct source longer than 200 bytes. NOT generated at "
                   "random (deterministic set): binders named like an import or an XGo builtin, lower-case method twins, "
                   "call statements in for-post position, init functions, a var statement as first statement of main"
                   % (len(G.deterministic()), len(G.RAW), nrand, nshape),
              origin_histogram=hist, construct_histogram=dict(sorted(shape.items())),
              shape_compared=len(a), behaviour_same=nsame, behaviour_programs=len(cases),
              generator_rejected=len(rejected), generator_rejected_samples=dict(list(rejected.items())[:5]))
    ctx.assume("MiniGo semantics: package functions are opaque logged calls; values are ints, strings, one-field objects, closures "
               "(captured by value; no assignment in MiniGo); XGo resolution = local, user function, builtin table; members: exact "
               "name first, then capitalised")
    ctx.trust("modelled, not verified: x/format (hand-written Gallina model + generated tables), XGo's name resolution (cl/gogen) "
              "as read; the XGo printer/parser round trip and the compiler are exercised by the behaviour runs only")
