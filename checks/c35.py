"""C35 — project arguments are partitioned in order (x/xgoprojs/proj.go).

A  Props/C35.v : C35_total, C35_concat, C35_runs_maximal, C35_mixed_iff, C35_ok_or_mixed
B  extracted parse_all  vs  xgoprojs.ParseAll  on: every argument list of length <= L over a
   class alphabet (exhaustive), plus seeded random lists of random short strings
C  the property itself (concat, maximal runs, mixed iff both kinds) evaluated on the
   implementation's result by the harness
"""
import itertools

CLAIM = {
    "level": "proof",
    "text": "Coq theorems over a line-by-line model of ParseOne/ParseAll (termination, ordered concatenation, "
            "maximal file runs, mixed-error iff) for all argument lists; model tied to the code by an exhaustive "
            "small-scope + seeded differential run of the extracted model against xgoprojs.ParseAll.",
    "note": "Trusted: Coq kernel, extraction (ExtrOcamlBasic), harness; filepath.Ext modelled for '/' separator; "
            "the Go code itself is modelled, not verified.",
}

ALPHA = ["a.xgo", "./d", ".", "/x", "C:x", "a/b", "", "a.", ".x", "x/.y/z", "b.go", "1:", "\\w", "é.gox"]
BYTES = list(b"a./\\:Cx.") + [0xC3]


def enc(args):
    return " ".join((a.encode() if isinstance(a, str) else a).hex() or "-" for a in args)


def run(ctx):
    ok = ctx.prove("C35")
    model = ctx.model("c35")
    impl = ctx.harness("c35")
    L = ctx.n(4, 5)
    cases = []
    for n in range(L + 1):
        alpha = ALPHA if n <= 3 else ALPHA[:10]
        for t in itertools.product(alpha, repeat=n):
            cases.append(enc(t))
    nex = len(cases)
    for _ in range(ctx.n(3000, 200000)):
        n = ctx.rng.below(7)
        args = []
        for _ in range(n):
            k = ctx.rng.below(5)
            args.append(bytes(ctx.rng.choice(BYTES) for _ in range(k)))
        cases.append(enc(args))
    inp = "\n".join(cases) + "\n"
    rc1, out1 = ctx.run([impl], input=inp)
    rc2, out2 = ctx.run([model], input=inp)
    if rc1 != 0 or rc2 != 0:
        ctx.broken("correspondence(c35:run)", "impl rc=%d model rc=%d %s %s" % (rc1, rc2, out1[-300:], out2[-300:]))
        return
    impl_lines = out1.splitlines()
    vals = [l.split("\t")[0] for l in impl_lines]
    # the property does not speak about directory-vs-package classification of a single
    # non-file argument: project both to "S:" before comparing
    proj = lambda t: t.replace("D:", "S:").replace("P:", "S:")
    ctx.diff_lines("parse_all~ParseAll", cases, proj("\n".join(vals)), proj(out2))
    # direct oracle
    for c, l in zip(cases, impl_lines):
        f = l.split("\t")
        if len(f) < 2 or f[1] != "ok":
            ctx.fail("args:" + c.replace(" ", "_"), "ParseAll(%s): %s -> %s" % (c, f[1] if len(f) > 1 else "?", f[0]),
                     {"args_hex": c.split(" "), "impl": l})
    shapes = {}
    for v in vals:
        k = "ERRMIXED" if v.startswith("ERR") else " ".join(p[0] for p in v.split(" ")[1:])
        shapes[k] = shapes.get(k, 0) + 1
    nontriv = len(set(c for c, v in zip(cases, vals) if len(c.split()) >= 2))
    ctx.cover(evaluations=len(cases), distinct_nontrivial=nontriv,
              samples=[{"args_hex": cases[i], "impl": vals[i]} for i in (nex - 1, nex + 1, nex // 2)],
              rule="exhaustive argument lists of length<=%d over a %d-class alphabet (%d lists) + %d seeded random lists; "
                   "non-trivial = distinct list with >=2 arguments" % (L, len(ALPHA), nex, len(cases) - nex),
              exhaustive_part=nex, result_shape_histogram=dict(sorted(shapes.items(), key=lambda kv: -kv[1])[:25]))
    ctx.assume("filepath.Ext is modelled for the unix separator '/' (ext_aux); the harness runs on linux")
    ctx.trust("modelled, not verified: x/xgoprojs/proj.go ParseOne/ParseAll/isFile/isLocal (hand-written Gallina model, tied by exhaustive+random differential run)")
