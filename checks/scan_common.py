"""Shared by the scanner checks C15, C16, C32, C33: case generators, runners, stream parsing.

A case is a line "<d><m> <hex>":  d = x (XGo) | g (go/scanner) | t (tpl/scanner);  m = c | n.
A result is "tok@pos:lithex ... |off off ..." (EOF token included), PANIC, HANG or OUTOFFUEL.
"""
import itertools
import os
import sys

sys.path.insert(0, os.path.join(os.path.dirname(os.path.abspath(__file__)), "..", "lib"))
import vlib  # noqa: E402

# symbols chosen to reach every branch of Scan / scanNumber / scanComment / scanString / findLineEnd
ALPHA = [b"a", b"c", b"p", b"y", b"r", b"i", b"e", b"x", b"b", b"o", b"_", b"m", b"0", b"1", b"8",
         b"\"", b"'", b"`", b"/", b"*", b"#", b"$", b"?", b"!", b".", b"-", b"+", b"<", b">", b"=",
         b"&", b"^", b"|", b":", b"(", b")", b"\n", b"\r", b"\\", b" ", b"\xc3\xa9", b"\xff",
         b"\xef\xbb\xbf", b"\x00", b"~", b";", b"\xd9\xa3", b"@", b"%", b"{", b"]", b",", b"\t"]
# medium: the quick tier of C32 (the symbols dropped are operators / letters whose cases are the same code in both scanners)
ALPHA_MED = [a for a in ALPHA if a not in (b"b", b"o", b"_", b"8", b"<", b">", b"&", b"^", b"|", b":", b"%", b"{", b"]", b",")]
# a smaller one for length 4 in the thorough tier
ALPHA_SMALL = [b"a", b"c", b"r", b"i", b"e", b"x", b"_", b"0", b"1", b"\"", b"'", b"`", b"/", b"*", b"#",
               b"!", b".", b"-", b"<", b">", b"=", b"(", b")", b"\n", b"\r", b"\\", b" ", b"\xff", b"\xc3\xa9"]

IDENTS = [b"a", b"x1", b"_", b"foo", b"c", b"C", b"py", b"r", b"i", b"e", b"m", b"if", b"for", b"func", b"return",
          b"break", b"continue", b"fallthrough", b"go", b"var", b"type", b"map", b"chan", b"range", b"select",
          b"\xc3\xa9t\xc3\xa9", b"\xe4\xb8\xad", b"a\xd9\xa3", b"line", b"Println", b"x_y", b"iota"]
NUMBERS = [b"0", b"1", b"42", b"0x1F", b"0X_a", b"0b101", b"0b2", b"0o17", b"0O8", b"017", b"089", b"1_000", b"1__0",
           b"0_", b"_1", b"1.", b".5", b"1.5", b"1e9", b"1e+9", b"1e", b"1E-", b"0x1p-2", b"0x1.8p1", b"0x.p", b"0x1.0",
           b"0x", b"0b", b"0b1.1", b"0o1e1", b"1p2", b"3i", b"3.5i", b"0x1i", b"3r", b"3.5r", b"1m", b"2.3s", b"3ms", b"10y",
           b"1e3i", b"07i", b"08", b"0_7", b"0x_", b"1_e1", b"1e_1", b"1._5", b"0.e", b"9w"]
STRINGS = [b'""', b'"a"', b'"a\\n"', b'"\\x41"', b'"\\x4"', b'"\\u00e9"', b'"\\U0001F600"', b'"\\ud800"', b'"\\777"',
           b'"\\101"', b'"\\q"', b'"\\', b'"a', b'"a\nb"', b'"\\"x"', b'"$x"', b"`raw`", b"`a\r\nb`", b"`open", b"`\r`",
           b"''", b"'a'", b"'ab'", b"'\\''", b"'\\n'", b"'\\x41'", b"'\\z'", b"'", b"'a", b"'\n'", b"'\\u12'",
           b'c"s"', b'C"s"', b'py"s"', b'c"', b'py"', b'py"a\\tb"', b'"\xc3\xa9"', b'"\xff"', b"'\xe4\xb8\xad'"]
OPERATORS = [b"+", b"-", b"*", b"/", b"%", b"&", b"|", b"^", b"<<", b">>", b"&^", b"+=", b"-=", b"*=", b"/=", b"%=", b"&=",
             b"|=", b"^=", b"<<=", b">>=", b"&^=", b"&&", b"||", b"<-", b"++", b"--", b"==", b"<", b">", b"=", b"!", b"!=",
             b"<=", b">=", b":=", b"...", b"(", b"[", b"{", b",", b".", b")", b"]", b"}", b";", b":", b"?", b"=>", b"->",
             b"<>", b"$", b"~", b"@", b"**", b".."]
COMMENTS = [b"//", b"// c", b"//c\r", b"//\r\r", b"/**/", b"/* c */", b"/*\n*/", b"/* a\r\nb */", b"/*", b"/* open",
            b"/*/", b"/***/", b"/* *\r/ */", b"/*\r*/", b"#", b"# c", b"#!x", b"#c\r", b"#/x", b"#*x", b"#*x*/",
            b"//line f:1", b"//line f:0", b"//line f:x", b"//line f:1:0", b"//line :1:2", b"/*line f:3*/", b"/*line f:*/",
            b"//line f:18446744073709551616", b"//line f:2000000000", b"//line f:1:2000000000", b"//line f", b"//line :",
            b"/*line :0:1*/"]
SEPARATORS = [b"", b"", b" ", b" ", b"\n", b"\t", b"\r\n", b"  ", b"\n\n", b"\r"]
ODD = [b"\x00", b"\xff", b"\xef\xbb\xbf", b"\xc3", b"\xe2\x80\x9c", b"\x7f", b"\\", b"\xf0\x9f\x98\x80", b"\xed\xa0\x80",
       b"\xc0\x80", b"\xf4\x90\x80\x80"]

CLASSES = {"ident": IDENTS, "number": NUMBERS, "string": STRINGS, "operator": OPERATORS, "comment": COMMENTS, "odd": ODD}


# ---- token-level enumeration: every symbol is a whole lexeme, so that short sequences reach the
# state the scanners carry ACROSS tokens (nParen, insertSemi, the pending unit, go/scanner's nlPos)
TOK_CORE = [b"(", b")", b";", b"...", b"!", b"\n", b"a", b" "]
TOK_WIDE = [b"(", b")", b";", b"...", b"!", b"\n", b"a", b" ", b"1m", b"1", b",", b"++", b"]", b"return", b'"s"',
            b"//c", b"/*c*/", b"/*\n*/", b"#c", b"..", b"->", b"=>", b"<>", b"**", b"*", b"?", b"$", b"~", b"@", b"\r"]
STATEFUL = [b"(", b"(", b")", b")", b";", b";", b"...", b"...", b"!", b"!", b"\n", b"\n", b"\n", b"a", b"x1", b"f", b"1", b"2.5",
            b'"s"', b"'c'", b",", b",", b"++", b"--", b"]", b"[", b"{", b"}", b"+", b"=", b":=", b"..", b".", b"<-", b"&&"]


def tok_exhaustive(alpha, maxlen):
    out = []
    for n in range(1, maxlen + 1):
        for t in itertools.product(alpha, repeat=n):
            out.append(b"".join(t))
    return out


def stateful_sequence(rng, extra=()):
    """4..12 lexemes drawn mostly from the tokens that read or write scanner state carried across
    tokens: ( ) ; ... ! newline, identifiers, literals, ++ -- ] } , and the lexemes in `extra`;
    separators: none / blank / newline.  Returns (bytes, shape)."""
    pool = STATEFUL + list(extra)
    n = 4 + rng.below(9)
    out = bytearray()
    prev = b""
    for i in range(n):
        lx = rng.choice(pool)
        # keep lexemes apart where gluing would build another lexeme
        if out and prev[-1:].isalnum() and lx[:1].isalnum():
            out += b" "
        elif out and prev[-1:] in b".+-=<&!:" and lx[:1] in b".+-=<>&:" and not out.endswith((b" ", b"\n")):
            out += b" "
        out += lx
        k = rng.below(10)
        if k >= 8:
            out += b"\n"
        elif k >= 5:
            out += b" "
        prev = lx
    return bytes(out), "n%d" % n


def _enc(cp):
    """UTF-8 encoding of any code point < 0x200000, surrogates and out-of-range values included"""
    if cp < 0x80:
        return bytes([cp])
    if cp < 0x800:
        return bytes([0xC0 | cp >> 6, 0x80 | cp & 0x3F])
    if cp < 0x10000:
        return bytes([0xE0 | cp >> 12, 0x80 | cp >> 6 & 0x3F, 0x80 | cp & 0x3F])
    return bytes([0xF0 | cp >> 18, 0x80 | cp >> 12 & 0x3F, 0x80 | cp >> 6 & 0x3F, 0x80 | cp & 0x3F])


def boundary_family():
    """Deterministic boundary values of every numeric comparison in the scanners (the same on every run).
    Returns {group: [src]}.  Groups: escape, utf8, digit, line."""
    fam = {}
    # -- escapes: code points around every bound of scanEscape, every escape form, both hex cases, in rune,
    #    string, c"/py" literals, first / middle / last position
    cps = [0x0, 0x7F, 0x80, 0xFF, 0x100, 0x7FF, 0x800, 0xD7FF, 0xD800, 0xD801, 0xDBFF, 0xDC00, 0xDFFE, 0xDFFF, 0xE000, 0xE001,
           0xFFFD, 0xFFFE, 0xFFFF, 0x10000, 0x10FFFE, 0x10FFFF, 0x110000, 0x110001, 0x1FFFFF, 0x7FFFFFFF, 0x80000000, 0xFFFFFFFF]
    atoms = []
    for cp in cps:
        for fmt in ("%x", "%X"):
            if cp <= 0xFFFF:
                atoms.append(("\\u%04" + fmt[1:]) % cp)
            atoms.append(("\\U%08" + fmt[1:]) % cp)
            if cp <= 0xFF:
                atoms.append(("\\x%02" + fmt[1:]) % cp)
    atoms += ["\\%03o" % v for v in (0, 7, 8 * 8 - 1, 0o177, 0o200, 0o377)] + ["\\400", "\\477", "\\777", "\\378", "\\08", "\\8", "\\9",
              "\\37", "\\3", "\\xfg", "\\xg0", "\\x/0", "\\x:0", "\\x@0", "\\xG0", "\\x`0", "\\uDFF", "\\uDFFG", "\\udff/",
              "\\U0000DFF", "\\U0010FFF", "\\U0010FFFG", "\\u", "\\U", "\\x", "\\a", "\\b", "\\f", "\\n", "\\r", "\\t", "\\v",
              "\\\\", "\\'", '\\"', "\\`", "\\c", "\\e", "\\w", "\\A", "\\0", "\\?", "\\ "]
    atoms = list(dict.fromkeys(atoms))
    esc = []
    for a in atoms:
        b = a.encode()
        esc += [b"'" + b + b"'", b'"' + b + b'"', b'"a' + b + b'b"', b'"' + b + b + b'"', b"'" + b, b'"' + b,
                b'c"' + b + b'"', b'py"' + b + b'"', b"'" + b + b"' + x", b"`" + b + b"`"]
    fam["escape"] = list(dict.fromkeys(esc))
    # -- UTF-8: encoded boundary runes, overlong / surrogate / out-of-range encodings, truncations, BOM placement
    raw = [_enc(cp) for cp in (0x7F, 0x80, 0xAA, 0xB5, 0xBA, 0xC0, 0xD7, 0xE9, 0xF7, 0x7FF, 0x800, 0x660, 0x669, 0x66A, 0x4E2D, 0xD7FF, 0xD800,
                               0xDFFF, 0xE000, 0xFEFF, 0xFFFD, 0xFFFE, 0xFFFF, 0x10000, 0x1D7CE, 0x10FFFF, 0x110000, 0x1FFFFF)]
    raw += [b"\xc0\x80", b"\xc1\xbf", b"\xc2\x7f", b"\xc2\x80", b"\xc2\xc0", b"\xdf\xbf", b"\xe0\x80\x80", b"\xe0\x9f\xbf", b"\xe0\xa0\x80",
            b"\xed\x9f\xbf", b"\xed\xa0\x80", b"\xed\xbf\xbf", b"\xee\x80\x80", b"\xef\xbf\xbd", b"\xf0\x80\x80\x80", b"\xf0\x8f\xbf\xbf",
            b"\xf0\x90\x80\x80", b"\xf4\x8f\xbf\xbf", b"\xf4\x90\x80\x80", b"\xf5\x80\x80\x80", b"\xf8\x88\x80\x80\x80", b"\xfe", b"\xff",
            b"\x80", b"\xbf", b"\xc2", b"\xe0\xa0", b"\xf0\x90\x80", b"\xe2\x82", b"\xef\xbb", b"\xef\xbb\xbf\xef\xbb\xbf", b"\x00", b"\x7f"]
    u8 = []
    for r in raw:
        u8 += [r, b"a" + r + b"b", r + b"1", b"1" + r, b'"' + r + b'"', b"'" + r + b"'", b"//" + r + b"\n", b"/*" + r + b"*/", b"`" + r + b"`",
               b"x " + r + b" y", b"\xef\xbb\xbf" + r, b"#" + r, b"a\n" + r, r + r]
    fam["utf8"] = list(dict.fromkeys(u8))
    # -- digits / radix / letters: the characters next to every range bound, after each prefix
    edge = [0x2F, 0x30, 0x31, 0x37, 0x38, 0x39, 0x3A, 0x40, 0x41, 0x46, 0x47, 0x5A, 0x5B, 0x5E, 0x5F, 0x60, 0x61, 0x66, 0x67, 0x7A, 0x7B, 0x7F]
    dg = []
    for pre in (b"", b"a", b"_", b"1", b"0", b"0x", b"0X", b"0b", b"0B", b"0o", b"0O", b"0x1", b"0b1", b"0o7", b"07", b"1.", b"0x1.", b"1e", b"1e+",
                b"0x1p", b"0x1p-", b"1_", b"0x_", b"."):
        for c in edge:
            dg.append(pre + bytes([c]))
            dg.append(pre + bytes([c]) + b"1")
    dg += [b"0b2", b"0b12", b"0b102", b"0o8", b"0o78", b"0O18", b"08", b"09", b"078", b"08.", b"08e1", b"08i", b"0xg", b"0xfg", b"0XFG", b"0x1g",
           b"0b1e1", b"0o1e1", b"0x1e1", b"0x1p1", b"0X1P1", b"1p1", b"0b1p1", b"0o1p1", b"01p1", b"0x.p1", b"0x1.p1", b"0x.1p1", b"0x1.", b"0b1.", b"0o1.",
           b"1E1", b"1e-1", b"1e+1", b"1e1i", b"0x1p1i", b"1ei", b"1i", b"1ii", b"1ia", b"1r", b"1ri", b"1e1r", b"0_1", b"0__1", b"0x_1", b"0x1_", b"0_x1",
           b"1_e1", b"1e_1", b"1._1", b"1_.1", b"_1", b"1_", b"0_", b"0b_1", b"0o_7", b"0_8", b"0_b1"]
    fam["digit"] = list(dict.fromkeys(dg))
    # -- line directives: the numeric bounds of updateLineInfo (go/scanner caps line and column at 1<<30)
    nums = [0, 1, 2, (1 << 30) - 1, 1 << 30, (1 << 30) + 1, (1 << 31) - 1, 1 << 31, (1 << 32), (1 << 63) - 1, 1 << 63, (1 << 64) - 1, 1 << 64, 10 ** 30]
    ln = []
    for n in nums:
        for t in (b"//line f:%d\nx", b"//line f:%d:1\nx", b"//line f:1:%d\nx", b"//line :%d:%d\nx", b"/*line f:%d*/x", b"/*line f:1:%d*/ x",
                  b"//line f:%d\r\nx", b"x\n//line f:%d\ny", b" //line f:%d\nx", b"#/line f:%d\nx"):
            ln.append(t % ((n,) * t.count(b"%d")))
    ln += [b"//line f:\nx", b"//line f:+1\nx", b"//line f:-1\nx", b"//line f:1_0\nx", b"//line f:0x1\nx", b"//line f: 1\nx", b"//line f:1 \nx",
           b"//line :1\nx", b"//line 1\nx", b"//line\nx", b"//line f:1:\nx", b"//line f::1\nx", b"//line f:x:1\nx", b"//line f:1:x\nx", b"//linef:0\nx",
           b"/*line f:0*/", b"/*line :0*/", b"/*line f:1:0*/", b"/*line*/", b"/*line */", b"/*line f:1", b"// line f:0\nx", b"//line  f:0\nx"]
    fam["line"] = list(dict.fromkeys(ln))
    return fam


def case(d, comments, src):
    return "%s%s %s" % (d, "c" if comments else "n", bytes(src).hex())


def src_of(c):
    return bytes.fromhex(c[3:].strip())


def exhaustive(alpha, maxlen):
    """all strings of at most maxlen symbols of alpha (as bytes), shortest first"""
    out = [b""]
    for n in range(1, maxlen + 1):
        for t in itertools.product(alpha, repeat=n):
            out.append(b"".join(t))
    return out


def random_sequence(rng, classes=None, maxlex=7, malformed=0):
    """a lexeme sequence with random separators; `malformed` in 0..100 = chance (percent) of
    a mutation (delete / duplicate / replace one byte) after assembling.  Returns (bytes, shape)."""
    classes = classes or list(CLASSES)
    n = 1 + rng.below(maxlex)
    parts, shape = [], []
    for _ in range(n):
        cl = rng.choice(classes)
        parts.append(rng.choice(CLASSES[cl]))
        shape.append(cl[0])
        sep = rng.choice(SEPARATORS)
        parts.append(sep)
    src = bytearray(b"".join(parts))
    if malformed and rng.below(100) < malformed and src:
        k = rng.below(3)
        i = rng.below(len(src))
        if k == 0:
            del src[i]
        elif k == 1:
            src.insert(i, src[i])
        else:
            src[i] = rng.choice([0, 10, 13, 34, 39, 42, 47, 92, 96, 128, 191, 194, 224, 239, 240, 255, 35, 46, 95])
        shape.append("~")
    return bytes(src), "".join(shape)


def parse_result(r):
    """-> (status, [(tok, pos, lit-bytes)], [error offsets])"""
    if "|" not in r:
        return r.strip(), [], []
    a, b = r.split("|", 1)
    toks = []
    for f in a.split():
        tp, lit = f.split(":", 1)
        t, p = tp.split("@")
        toks.append((int(t), int(p), bytes.fromhex(lit)))
    return "", toks, [int(x) for x in b.split()]


class Runner:
    """builds the model runner, the harness and the unicode table once per check run"""

    def __init__(self, ctx):
        self.ctx = ctx
        self.model = ctx.model("scan")
        self.impl = ctx.harness("scan")
        self.uni = os.path.join(ctx.scratch, "unicode.txt")
        rc, out = ctx.run([self.impl, "unicode"])
        if rc != 0 or not out.strip():
            raise RuntimeError("h_scan unicode failed: " + out[-300:])
        open(self.uni, "w").write(out)
        ctx.trust("unicode.IsLetter/IsDigit above 0x7f: Section variables of the model, instantiated in the extracted "
                  "runner from the range table the harness dumps from Go's unicode package on every run")

    def run_impl(self, cases, timeout=900):
        """-> list of (result, verdict)"""
        rc, out = self.ctx.run([self.impl, "run"], input="\n".join(cases) + "\n", timeout=timeout)
        if rc != 0:
            raise RuntimeError("h_scan run rc=%d: %s" % (rc, out[-300:]))
        lines = out.split("\n")
        if lines and lines[-1] == "":
            lines.pop()
        res = []
        for l in lines:
            f = l.split("\t")
            res.append((f[0], f[1] if len(f) > 1 else "-"))
        return res

    def run_model(self, cases, timeout=900):
        rc, out = self.ctx.run([self.model, self.uni], input="\n".join(cases) + "\n", timeout=timeout)
        if rc != 0:
            raise RuntimeError("model_scan rc=%d: %s" % (rc, out[-300:]))
        lines = out.split("\n")
        if lines and lines[-1] == "":
            lines.pop()
        return lines

    def run_pred(self, cases, timeout=900):
        """the hypotheses of the agreement theorems, evaluated by the extracted model on each case:
        -> list of (go_like, shared) booleans"""
        rc, out = self.ctx.run([self.model, self.uni, "pred"], input="\n".join(cases) + "\n", timeout=timeout)
        if rc != 0:
            raise RuntimeError("model_scan pred rc=%d: %s" % (rc, out[-300:]))
        res = []
        for l in out.split("\n"):
            f = l.split()
            if len(f) == 2:
                res.append((f[0] == "1", f[1] == "1"))
        if len(res) != len(cases):
            raise RuntimeError("model_scan pred: %d answers for %d cases" % (len(res), len(cases)))
        return res

    def correspond(self, name, cases, impl=None):
        """K-diff: extracted model vs implementation on the same lines; returns the impl results"""
        impl = impl if impl is not None else self.run_impl(cases)
        model = self.run_model(cases)
        self.ctx.diff_lines(name, cases, "\n".join(r for r, _ in impl), "\n".join(model))
        return impl, model


def ntokens(result):
    """number of tokens of a result line, without parsing it"""
    return result.split("|", 1)[0].count("@") if "|" in result else 0


def gen_notes(ctx):
    """record in the evidence the sites the static generator could not read (the tables are then
    tied to the code by the dynamic comparison only)"""
    try:
        g = ctx.gen_json("scantok")
    except Exception:
        return
    notes = [n for pkg in g.values() for n in (pkg.get("notes") or [])]
    if notes:
        ctx.notes["static_gen"] = notes
        ctx.log("static_gen notes: " + "; ".join(notes))


def key_of(prefix, src):
    return "%s:%s" % (prefix, vlib.sha(bytes(src)))
