"""C07 — the compiler never crashes or hangs on parseable input (cl/compile.go, cl/stmt.go, x/build/build.go).

A  Props/C07.v: the recover skeleton (NewPackage > loadImport / loadSymbol > compileStmt, x/build
   helpers) in the exception monad over ARBITRARY bodies: no escape, a panic = exactly one more
   error, compilation continues with the next sibling; escape-iff with a Recorder.
   K-gen `recoversites`: audit of the seven entry points (top-level deferred recover, what runs
   before it, what the handler does), enableRecover's default, overloadFuncName's table.
B  K-diff: extracted scenario_result vs cl.NewPackage on scenarios that make a user callback panic
   (Importer, LookupClass, Recorder.Def/Use) or report an ordinary error at chosen imports /
   declarations / statements: returned-or-escaped, p set, and the ORDER of the marked errors.
C  direct oracle: mutation fuzz of /repo's XGo corpus files and of generated Go / XGo programs
   through parser -> cl.NewPackage (partial ASTs included) and x/build BuildFile, in child
   processes with a watchdog: no escaped panic, no fatal error, <= 10 s, error positions inside
   the package's files.
"""
import json
import os
from concurrent.futures import ThreadPoolExecutor

import vlib
from checks import g9gen, g9prog

CLAIM = {
    "level": "other",
    "text": "Kernel theorems in Coq over the recover skeleton with arbitrary bodies (so they cover every recoverable "
            "panic of the un-modelled compiler passes): cl.NewPackage without Recorder always returns, a panic becomes "
            "exactly one additional error (err != nil), nested recovers (loadImport, loadSymbol, compileStmt) never "
            "raise and let compilation continue; with a Recorder the only panic that still escapes is one raised by "
            "rec.Complete itself (a panic of gogen.NewPackage is returned as an error); x/build BuildFile turns panics into errors. The skeleton is tied to the source by a "
            "regenerated audit of the entry points (obligations by computation) and by a differential run of the "
            "extracted model against cl.NewPackage with panics injected through the user callbacks. The remainder "
            "(fatal errors, termination, error positions) is explored by mutation fuzzing in child processes.",
    "note": "Modelled, not verified: the defer/recover structure of NewPackage, loadSymbol, loadImport, compileStmt, "
            "BuildFile/BuildFSDir/BuildDir; recoverErr is assumed total. Not covered by the theorem: stack overflow, "
            "out of memory, runtime fatal errors, non-termination (explored only). With a Recorder only a panic raised by "
            "rec.Complete itself (it runs after the recover) can leave NewPackage. The two former findings (nil package with a "
            "Recorder; x/build ParseFSDir without package) are repaired in /repo and kept as regression inputs.",
}


def scenario(rng):
    """random scenario line; markers are distinct increasing numbers"""
    n = [0]

    def mk():
        n[0] += 1
        return str(n[0])
    en = 0 if rng.below(10) == 0 else 1
    rec = rng.below(2)
    gogen = "o"
    if rng.below(12) == 0:                   # gogen.NewPackage panics (with and without Recorder; repaired 162cdf8)
        gogen = "p" + mk()
    cls = "p" + mk() if rng.below(10) == 0 else "o"
    imps = []
    for _ in range(rng.below(4)):
        k = rng.below(5)
        imps.append("o" if k < 2 else ("e" + mk() if k < 4 else "p" + mk()))
    syms = []
    for _ in range(rng.below(5)):
        k = rng.below(6)
        decl = "o" if k < 3 else ("e" + mk() if k < 5 or not rec else "p" + mk())
        sts = []
        for _ in range(rng.below(5)):
            j = rng.below(6)
            sts.append("o" if j < 2 else ("e" + mk() if j < 4 or not rec else "p" + mk()))
        syms.append(decl + ":" + (",".join(sts) or "-"))
    return "en=%d rec=%d gogen=%s cls=%s imports=%s syms=%s tail=o reccomp=o" % (
        en, rec, gogen, cls, ",".join(imps) or "-", ";".join(syms) or "-")


def model_line(line):
    """the scenario as the model sees it: in the implementation a failing import and an undefined name in a
    statement are RAISED (panic(err)) and only become list entries through the recover of loadImport /
    compileStmt, so they are panics for the model; an undefined parameter type is reported with handleErr"""
    out = []
    for f in line.split(" "):
        k, _, v = f.partition("=")
        if k == "imports":
            v = v.replace("e", "p")
        elif k == "syms" and v != "-":
            v = ";".join(d + ":" + st.replace("e", "p") for d, st in (sy.split(":") for sy in v.split(";")))
        out.append(k + "=" + v)
    return " ".join(out)


FIXED_SCENARIOS = [
    "en=1 rec=1 gogen=o cls=o imports=p1,o,e2 syms=p3:e4;o:e5,p6,e7;e9:e10 tail=o reccomp=o",
    "en=1 rec=0 gogen=o cls=p8 imports=e2 syms=o:e5 tail=o reccomp=o",
    "en=1 rec=0 gogen=p1 cls=o imports=e4 syms=- tail=o reccomp=o",
    "en=0 rec=1 gogen=o cls=o imports=- syms=o:p6 tail=o reccomp=o",
    "en=0 rec=0 gogen=o cls=o imports=p2 syms=o:e6 tail=o reccomp=o",
    "en=1 rec=1 gogen=o cls=o imports=- syms=o:p1,p2,p3;p4:p5;o:e6 tail=o reccomp=o",
    "en=1 rec=0 gogen=o cls=o imports=- syms=- tail=o reccomp=o",
    "en=0 rec=0 gogen=o cls=p3 imports=- syms=- tail=o reccomp=o",
]
WITNESS_SCENARIO = "en=1 rec=1 gogen=p1 cls=o imports=- syms=- tail=o reccomp=o"      # was finding recorder-nil-pkg (repaired 162cdf8): regression input


def det_cases():
    D = []
    lits = "\n".join("\tfunc(a%d int) {}" % i for i in range(37))
    # 37 function literals in one overload declaration: overloadFuncName(name, 36) indexes past the table
    D.append(("overload-37", [{"name": "a.xgo", "src": "func over = (\n%s\n)\n" % lits}], ""))
    D.append(("empty-file", [{"name": "a.xgo", "src": ""}], ""))
    D.append(("comment-only", [{"name": "a.xgo", "src": "// nothing\n"}], ""))
    D.append(("two-package-names", [{"name": "a.xgo", "src": "package a\n"}, {"name": "b.xgo", "src": "package main\nprintln 1\n"}], ""))
    D.append(("deep-parens", [{"name": "a.xgo", "src": "x := " + "(" * 400 + "1" + ")" * 400 + "\nprintln x\n"}], ""))
    D.append(("long-chain", [{"name": "a.xgo", "src": "x := 1" + " + 1" * 1000 + "\nprintln x\n"}], ""))
    D.append(("deep-blocks", [{"name": "a.xgo", "src": "func f() {\n" + "if true {\n" * 300 + "}\n" * 300 + "}\n"}], ""))
    D.append(("self-ref-type", [{"name": "a.xgo", "src": "type T T\ntype U struct { U }\ntype V []V\nvar x T\nvar y U\nprintln x, y\n"}], ""))
    D.append(("self-ref-const", [{"name": "a.xgo", "src": "const a = b\nconst b = a\nvar c = d\nvar d = c\nprintln a, c\n"}], ""))
    D.append(("mutual-func-vars", [{"name": "a.xgo", "src": "var f = g\nvar g = f\nfunc h() { h() }\nprintln f\n"}], ""))
    D.append(("class-unknown-base", [{"name": "Rect.gox", "src": "var (\n\tBase\n\tw int\n)\nfunc Area() int { return w }\n"}], ""))
    D.append(("buildfile-txt", [{"name": "a.txt", "src": "x"}], "buildfile"))
    D.append(("buildfile-underscore", [{"name": "_x.xgo", "src": "println 1\n"}], "buildfile"))
    D.append(("buildfile-empty", [{"name": "a.xgo", "src": ""}], "buildfile"))
    D.append(("buildfile-gox", [{"name": "Rect.gox", "src": "var (\n\tw int\n)\nfunc Area() int { return w }\n"}], "buildfile"))
    return D


def run(ctx):
    ctx.level = CLAIM["level"]
    ctx.regen(["recoversites"])
    ctx.prove("C07")
    try:
        ctx.notes["recover_sites"] = ctx.gen_json("recoversites")["sites"]
    except Exception:
        pass
    model = ctx.model("c07")
    impl = ctx.harness("c07")
    exports = g9gen.export_table(ctx, vlib)
    ctx.log("built")

    # ---------------- B: scenarios
    scen = list(FIXED_SCENARIOS) + [WITNESS_SCENARIO]
    for _ in range(ctx.n(1000, 20000)):
        scen.append(scenario(ctx.rng))
    inp = "\n".join(scen) + "\n"
    rc1, out1 = ctx.run([impl, "-exports", exports, "-mode", "scenario"], input=inp)
    rc2, out2 = ctx.run([model], input="\n".join(model_line(l) for l in scen) + "\n")
    if rc1 != 0 or rc2 != 0:
        ctx.broken("correspondence(c07:run)", "impl rc=%d model rc=%d %s %s" % (rc1, rc2, out1[-300:], out2[-300:]))
        return
    ctx.diff_lines("scenario_result~cl.NewPackage(panic injection)", scen, out1, out2)
    sshape = {}
    for line, res in zip(scen, out1.splitlines()):
        k = res.split(" ")[0] + (" en=0" if "en=0" in line else "")
        sshape[k] = sshape.get(k, 0) + 1
        if "en=1" in line and res.startswith("ESC"):
            key = "recorder-nil-pkg" if line == WITNESS_SCENARIO else "scenario:" + vlib.sha(line)
            ctx.fail(key, "a panic escaped cl.NewPackage with recovery enabled: scenario `%s` -> %s" % (line, res),
                     {"scenario": line, "impl": res, "how": "h_c07 -mode scenario (see harness/cmd/c07/main.go for the encoding)"})
    ctx.log("scenarios: %d" % len(scen))

    # ---------------- C: fuzz
    bases = []
    for cid, files in g9gen.repo_corpus(vlib.REPO):
        bases.append(("corpus:" + cid, files))
    for i in range(ctx.n(25, 300)):
        src, _ = g9prog.xgo_program(ctx.rng)
        bases.append(("genxgo:%d" % i, [{"name": "main.xgo", "src": src}]))
    for i in range(ctx.n(10, 100)):
        src, _ = g9prog.go_program(ctx.rng)
        bases.append(("gengo:%d" % i, [{"name": "main.xgo", "src": src}]))
    cases = []      # (id, files, via, mutation kind)
    for cid, files, via in det_cases():
        cases.append(("det:" + cid, files, via, "det"))
    cases.append(("witness:parsefsdir-no-package", [{"name": "a.txt", "src": "x"}], "parsefsdir", "det"))
    # every type-expression shape in every XGo type position, over mixed packages whose Go file declares the generic types
    tfam = g9gen.typeexpr_family()
    for cid, files in tfam:
        cases.append(("det:" + cid, files, "", "det-typeexpr"))
    # every statement kind in its minimal / variable-less form with an ill-typed operand: the error must carry a position inside the file
    pfam = g9gen.position_family()
    for cid, files in pfam:
        cases.append(("det:" + cid, files, "", "det-position"))
    for k in range(ctx.n(40, 300)):        # ... and some of them as bases of the mutants
        cid, files = tfam[ctx.rng.below(len(tfam))]
        bases.append(("typeexpr-base:%d:%s" % (k, cid), files))
    for cid, files in bases:
        cases.append((cid, files, "", "none"))
    nmut = ctx.n(4000, 40000)
    for i in range(nmut):
        cid, files = bases[ctx.rng.below(len(bases))]
        files = [dict(f) for f in files]
        j = ctx.rng.below(len(files))
        # never mutate the Go files of a mixed package into the known C08 dimension: one XGo/Go file at a time
        m, kind = g9gen.mutate(files[j]["src"], ctx.rng)
        if ctx.rng.below(4) == 0:
            m, k2 = g9gen.mutate(m, ctx.rng)
            kind += "+" + k2
        files[j]["src"] = m
        via = ""
        if len(files) == 1 and files[0]["name"].endswith((".xgo", ".gop")) and ctx.rng.below(6) == 0:
            via = "buildfile"
        cases.append(("mut:%d:%s" % (i, cid), files, via, kind))
    lines = [json.dumps({"id": c[0], "files": c[1], "via": c[2]}) for c in cases]
    idx = {c[0]: k for k, c in enumerate(cases)}

    def batch(chunk):
        """run a chunk of case indices; survive crashes / hangs of the child: -> {case index: (kind, ms, verdict, detail)}"""
        res = {}
        todo = list(chunk)
        while todo:
            rc, out = ctx.run([impl, "-exports", exports, "-mode", "fuzz", "-timeout", "10"],
                              input="\n".join(lines[k] for k in todo) + "\n", timeout=600, mem_kb=6000000)
            begun = None
            done = 0
            for l in out.splitlines():
                if l.startswith("BEGIN "):
                    begun = l[6:]
                    continue
                f = l.split("\t")
                if len(f) >= 4 and f[0] in idx:
                    res[idx[f[0]]] = (f[1], int(f[2]) if f[2].isdigit() else 0, f[3], f[4] if len(f) > 4 else "")
                    done += 1
                    if begun == f[0]:
                        begun = None
            if begun is not None and begun in idx and idx[begun] not in res:
                # the child died (fatal error / killed) while compiling `begun`
                res[idx[begun]] = ("fatal", 0, "fatal-or-killed", "child rc=%d: %s" % (rc, out[-400:].replace("\n", " / ")))
            rest = [k for k in todo if k not in res]
            if len(rest) == len(todo):      # no progress at all
                for k in rest:
                    res[k] = ("fatal", 0, "fatal-or-killed", "child produced nothing rc=%d %s" % (rc, out[-200:]))
                rest = []
            todo = rest
        return res

    nchunks = 6
    order = list(range(len(cases)))
    chunks = [order[i::nchunks] for i in range(nchunks)]
    with ThreadPoolExecutor(max_workers=nchunks) as ex:
        parts = list(ex.map(batch, chunks))
    res = {}
    for p in parts:
        res.update(p)
    ctx.log("fuzz: %d cases" % len(cases))
    kinds, muts, verdicts = {}, {}, {}
    distinct = set()
    slowest = (0, "")
    for k, c in enumerate(cases):
        kind, ms, verdict, detail = res.get(k, ("missing", 0, "missing", ""))
        kinds[kind] = kinds.get(kind, 0) + 1
        verdicts[verdict] = verdicts.get(verdict, 0) + 1
        for mk in c[3].split("+"):
            muts[mk] = muts.get(mk, 0) + 1
        if kind in ("err", "parse+err", "parse+ok", "ok", "writeto-panic"):
            distinct.add(g9gen.pkg_key(c[1]))
        if ms > slowest[0]:
            slowest = (ms, c[0])
        if verdict != "ok":
            name = c[0].split(":", 1)[1] if c[0].startswith("witness:") else None
            key = name if name else g9gen.pkg_key(c[1]) + (":" + c[2] if c[2] else "")
            ctx.fail(key, "%s: %s (%s) via %s" % (c[0], verdict, detail[:300], c[2] or "parser+cl.NewPackage"),
                     {"files": c[1], "via": c[2] or "parser.ParseFSDir + cl.NewPackage", "verdict": verdict, "detail": detail})
    ctx.cover(evaluations=len(scen) + len(cases), distinct_nontrivial=len(set(scen)) + len(distinct),
              samples=[{"scenario": scen[9], "impl": out1.splitlines()[9]},
                       {"case": cases[len(det_cases()) + 3][0], "result": res.get(len(det_cases()) + 3)},
                       {"case": cases[-1][0], "mutation": cases[-1][3], "result": res.get(len(cases) - 1)}],
              rule="deterministic position family: %d one-statement programs (30 statement kinds - range without / with variables, for-in, comprehension, "
                   "if, for, switch, type switch, send, receive, select, ++, assignment, call, go, defer, index, slice, deref, return, len, binary - x 8 "
                   "ill-typed operands: struct, float variable and constant, func, bool, nil, pointer, undefined), strict oracle: every error has a position "
                   "inside the file | deterministic type-expression family: %d mixed packages (g.go declares Named, Str, Box[T], Pair[K,V], Triple[A,B,C], Iface; the XGo file uses "
                   "each of 27 type shapes - named, pointer, qualified, generic instances with 1/2/3 arguments, nested and pointer instances, array, slice, "
                   "map, chan, func, struct, ill-formed instances - in each of 22 positions: embedded (4 forms, .gox field block), field, param, result, "
                   "var, conversion, composite literal, new, assertion, type switch, alias, defined type, element, func literal, method) | K-diff: %d scenarios (%d fixed + seeded; panic or error injected at gogen.NewPackage / class loading / imports / "
                   "declarations / statements, recovery on or off, Recorder on or off); fuzz: %d cases = %d deterministic + %d "
                   "unmutated bases (%d /repo corpus packages, generated XGo and Go programs) + %d seeded mutants (1-2 structured "
                   "mutations of one file; 1/6 of the single-file ones through x/build BuildFile); non-trivial = distinct input "
                   "that reached the compiler (parsed at least partially). Not exercised in the random part (known findings, "
                   "deterministic witness only): Recorder together with a failing gogen.NewPackage. A panic of the PARSER "
                   "(kind parser-panic) is outside C07 (not parser-accepted input; C13); a panic of gogen's WriteTo after NewPackage "
                   "returned err == nil (kind writeto-panic) is an invalid output and is accounted to C06; WriteTo is not called on "
                   "packages built from partial ASTs."
                   % (len(pfam), len(tfam), len(scen), len(FIXED_SCENARIOS) + 1, len(cases), len(det_cases()) + 1 + len(tfam) + len(pfam), len(bases),
                      sum(1 for b in bases if b[0].startswith("corpus:")), nmut),
              explanation="kernel theorem over the recover skeleton + K-gen audit of recover sites + K-diff with injected panics + mutation fuzz",
              scenario_result_histogram=sshape, fuzz_result_kind_histogram=kinds, mutation_kind_histogram=muts,
              verdict_histogram=verdicts, slowest_case_ms=slowest[0], slowest_case=slowest[1])
    ctx.assume("pkgCtx.recoverErr and fmt.Errorf do not panic (the handler is total)",
               "Go's defer/recover semantics: deferred calls run in LIFO order; recover() in a deferred call stops the panic",
               "a 10 s watchdog per case stands for 'bounded time'")
    ctx.trust("modelled, not verified: the defer/recover structure of cl.NewPackage, loadSymbol, loadImport, compileStmt, "
              "x/build BuildFile/BuildFSDir/BuildDir; explored only: everything else the compiler does with the input")
