"""C33 - token spellings round-trip through the scanners (token/token.go, tpl/token/token.go).

A  Props/C33.v: finite-domain theorems over the tables regenerated from /repo on this run
   (Gen/Tokens.v, Gen/ScanTok.v), by vm_compute + forallb_forall
B  generated tables / translated predicate bodies vs the running code: Token.String, Len,
   Precedence, IsOperator, IsLiteral, IsKeyword for every value -3..260, token.Lookup, tpl
   ForEach; and the model scanner vs the real scanners on every spelling
C  the property on the real code: scan each operator/keyword spelling with the real scanner,
   String/Len agreement, Precedence != 0 -> IsOperator
"""
from checks import scan_common as sc

CLAIM = {
    "level": "proof",
    "text": "Finite domain, enumerated completely in Coq over the token tables and predicate bodies regenerated from the source on "
            "every run: every operator/keyword spelling of XGo (except '~', proved to scan to ILLEGAL: known finding) and of TPL "
            "scans back to exactly that token in the scanner model; String and tpl Len equal the spelling; non-zero Precedence "
            "implies IsOperator. Tables, predicates and the model scanner are compared with the running code on every value/spelling.",
    "note": "Trusted: Coq kernel, translator (cross-checked dynamically against Token.String/Len/Precedence/Is*), extraction, harness. "
            "The scanner itself is the hand-written model of C15 (tied by C15's differential run and re-run here on every spelling).",
}


def kv(line):
    f = line.split()
    return f[0], f[1], dict(x.split("=", 1) for x in f[2:])


def run(ctx):
    ctx.regen(["tokens", "scantok"])
    sc.gen_notes(ctx)
    ctx.prove("C33")
    R = sc.Runner(ctx)
    rc, dump = ctx.run([R.impl, "tokens"])
    if rc != 0:
        ctx.broken("harness(tokens)", dump[-300:])
        return
    lines = [l for l in dump.split("\n") if l]
    q, expect, foreach = [], [], None
    for l in sorted(lines):
        f = l.split()
        if f[0] in ("xgo", "go", "tpl"):
            q.append("%s %s" % (f[0], f[1]))
            expect.append(l)
        elif f[0] == "lookup":
            q.append("lookup %s" % f[1])
            expect.append(l)
        elif f[0] == "tplforeach":
            foreach = f[1:]
    rc, mout = ctx.run([R.model, "tokens"], input="\n".join(q + ["ops"]) + "\n")
    if rc != 0:
        ctx.broken("model(tokens)", mout[-300:])
        return
    mlines = [l for l in mout.split("\n") if l]
    ops = {l.split()[1]: [tuple(x.split(":")) for x in l.split()[2:]] for l in mlines if l.startswith("ops ")}
    mlines = [l for l in mlines if not l.startswith("ops ")]
    # B1: generated tables and translated predicates vs the running code
    ctx.diff_lines("Gen/Tokens+ScanTok~token,tpl/token,go/token (String,Len,Precedence,Is*,Lookup)", q, "\n".join(expect), "\n".join(mlines))
    # tpl ForEach enumerates exactly the multi-character operators of the model's tpl_ops, in order
    mfe = ["%s:%s" % (c, s) for c, s in ops.get("tpl", []) if int(c) > 128]
    if foreach != mfe:
        ctx.broken("correspondence(tpl.ForEach~tpl_ops)", "impl=%s model=%s" % (foreach, mfe))
    # the real tables
    real = {"xgo": {}, "go": {}, "tpl": {}}
    for l in lines:
        f = l.split()
        if f[0] in real:
            _, v, d = kv(l)
            real[f[0]][int(v)] = d
    spell = lambda d: "" if d["String"] == "-" else bytes.fromhex(d["String"]).decode("latin1")
    real_ops = {"xgo": [], "go": [], "tpl": []}
    for pkg in ("xgo", "go"):
        for v, d in sorted(real[pkg].items()):
            if (d["IsOp"] == "1" or d["IsKw"] == "1") and not spell(d).startswith("token("):
                real_ops[pkg].append((str(v), spell(d).encode("latin1").hex()))
            # C: non-zero precedence implies IsOperator, on the real methods
            if d["Prec"] not in ("0",) and d["IsOp"] != "1":
                ctx.fail("prec:%s:%d" % (pkg, v), "%s token %d has Precedence %s but IsOperator=%s" % (pkg, v, d["Prec"], d["IsOp"]),
                         {"package": pkg, "token": v, "dump": d})
    for v, d in sorted(real["tpl"].items()):
        s = spell(d)
        if v > 12 and not s.startswith("token("):
            real_ops["tpl"].append((str(v), s.encode("latin1").hex()))
            if d["Len"] != str(len(s)):
                ctx.fail("len:tpl:%d" % v, "tpl token %d: Len()=%s but String()=%r" % (v, d["Len"], s), {"token": v, "dump": d})
        if d["Len"] == "PANIC":
            ctx.fail("len:tpl:%d" % v, "tpl Token(%d).Len() panics" % v, {"token": v})
    for pkg in real_ops:
        if real_ops[pkg] != ops.get(pkg):
            ctx.broken("correspondence(%s_ops)" % pkg, "operator/keyword set of the running code differs from the generated one: impl=%s model=%s"
                       % (real_ops[pkg][:100], ops.get(pkg, [])[:100]))
    # B2 + C: scan every spelling with the real scanners and with the model
    dl = {"xgo": "x", "go": "g", "tpl": "t"}
    cases, meta = [], []
    for pkg in ("xgo", "tpl", "go"):
        for v, h in real_ops[pkg]:
            for m in (True, False):
                cases.append(sc.case(dl[pkg], m, bytes.fromhex(h)))
                meta.append((pkg, int(v), h))
    impl, model = R.correspond("scan(spelling)~real scanners", cases)
    semi = {"xgo": 57, "go": 57, "tpl": 59}
    nonsemi = 0
    for c, (pkg, v, h), (r, _) in zip(cases, meta, impl):
        st, toks, errs = sc.parse_result(r)
        sp = bytes.fromhex(h)
        ok = (st == "" and not errs and len(toks) in (2, 3) and toks[0][0] == v and toks[0][1] == 0
              and toks[0][2] in (b"", sp) and toks[-1][0] == 1 and toks[-1][1] == len(sp)
              and (len(toks) == 2 or (toks[1][0] == semi[pkg] and toks[1][2] == b"\n")))
        if len(toks) == 3:
            nonsemi += 1
        if not ok and pkg != "go":      # go/scanner on go/token is the reference of C16, reported there
            ctx.fail("spell:%s:%s" % (pkg, h), "%s: scanning the spelling %r of token %d gives %s" % (pkg, sp, v, r[:120]),
                     {"package": pkg, "token": v, "spelling_hex": h, "case": c, "impl": r[:300]})
    n = len(q) + len(cases)
    ctx.cover(evaluations=n, distinct_nontrivial=len(set(h for _, _, h in meta)),
              samples=[{"query": q[i], "impl": expect[i]} for i in (5, len(q) // 2)] +
                      [{"case": cases[i], "impl": impl[i][0]} for i in (0, len(cases) // 2, len(cases) - 1)],
              rule="complete enumeration: Token values -3..260 of token, go/token, tpl/token (String, Len, Precedence, IsOperator, "
                   "IsLiteral, IsKeyword), Lookup on every table spelling, and a scan of every operator/keyword spelling "
                   "(%d xgo, %d tpl, %d go) in both comment modes; non-trivial = distinct spelling scanned" %
                   (len(real_ops["xgo"]), len(real_ops["tpl"]), len(real_ops["go"])),
              exhaustive=True, spellings_followed_by_inserted_semicolon=nonsemi)
    ctx.trust("modelled, not verified: scanner.Scan / tpl scanner.Scan (model of C15/C32); token tables and the bodies of "
              "Precedence/IsOperator/IsLiteral/IsKeyword/Len are translated from the source on every run (K-gen) and compared "
              "with the running methods")
