"""C40 — watch mode never loses or duplicates a changed directory (x/watcher/changes.go).

A  K-gen: translator `changesops` re-reads the statement sequences of Changes.FileChanged and
   Changes.Fetch (and who touches `changed`/`cond`) -> Gen/ChangesOps.v; Props/C40.v proves, over the
   transition system that EXECUTES those generated lists, for all reachable states (any number of
   goroutines, any interleaving): fetch_returns_reported, at_most_once_per_report, fetches_le_reports,
   no_loss, changed_is_pending, fetch_result, mutual_exclusion, no_lost_wakeup, waiting_fetch_progress,
   internal_runs_bounded, stuck_means_drained, and the tie obligations C40_tie_ops / C40_tie_users.
B  K-diff: the real watcher.Changes is driven (race detector on) by (i) every script of length <= L over
   {R0,R1,R2,F} (F on an empty set = a blocking fetch that the next report must wake) plus seeded longer
   scripts, (ii) seeded concurrent producer/consumer workloads.  The harness records the call/return
   history, finds a linearisation and prints it as a label trace; the EXTRACTED transition function
   replays the trace (every step must be enabled) and prints its own projection of calls/returns/
   observations, which must equal the recorded history.
C  direct oracle (in the harness, on the implementation): no linearisation (lost / duplicated /
   unreported directory), fetch blocked while the set cannot be empty (lost wake-up), fetch not woken
   by a report, fetch returning on an empty set, panic, data race.
"""
import itertools
import os

CLAIM = {
    "level": "proof",
    "text": "Coq theorems (all reachable states, unbounded goroutines/interleavings) over a statement-level transition "
            "system that executes the FileChanged/Fetch statement lists regenerated from x/watcher/changes.go on every "
            "run: no unreported/duplicated/lost directory, the set = reported-and-not-fetched, mutual exclusion, no lost "
            "wake-up, and progress (bounded internal moves; when nothing can move every fetcher has returned or the set "
            "is empty). Tied to the code by the regenerated lists (K-gen obligation) and by replaying recorded "
            "sequential and concurrent histories of the real Changes through the extracted step function.",
    "note": "Assumed as modelled: sync.Mutex (Lock enabled iff free), sync.Cond (Wait = atomically enqueue+unlock+park, "
            "re-Lock after notification; Broadcast notifies every parked waiter; no spurious wake-ups needed), Go map "
            "iteration yields any element. Wake-up latency / scheduler fairness are outside the model (progress is stated "
            "as enabledness + a variant). Trusted: translator statement classifier, harness linearisation search "
            "(its result is re-checked by the extracted step function), Go race detector.",
}

ALPHA = ["R0", "R1", "R0+R1", "R2+R0+R2", "F"]


def gen_scripts(ctx):
    """R<d> = report; R<d>+R<e>.. = burst of reports issued back to back; F = fetch: on a non-empty set a plain fetch,
    on an empty set a fresh goroutine that must block (several may be blocked at once); after every report (burst)
    the system settles: blocked fetchers must have taken what was reported, the rest must be blocked again."""
    L = ctx.n(4, 6)
    scripts = [" ".join(t) for n in range(1, L + 1) for t in itertools.product(ALPHA, repeat=n)]
    nex = len(scripts)
    for _ in range(ctx.n(300, 5000)):   # seeded longer scripts over all 8 directories
        n = 5 + ctx.rng.below(10)
        toks = []
        for _ in range(n):
            r = ctx.rng.below(100)
            if r < 40:
                toks.append("R%d" % ctx.rng.below(8))
            elif r < 55:
                toks.append("+".join("R%d" % ctx.rng.below(8) for _ in range(2 + ctx.rng.below(3))))
            else:
                toks.append("F")
        scripts.append(" ".join(toks))
    return scripts, nex


def run(ctx):
    ctx.regen(["changesops"])
    ctx.prove("C40")
    model = ctx.model("c40")
    impl = ctx.harness("c40", race=True)
    racelog = os.path.join(ctx.scratch, "race")
    env = dict(os.environ)
    env["GORACE"] = "halt_on_error=0 exitcode=66 log_path=%s" % racelog

    scripts, nex = gen_scripts(ctx)
    rc1, out1 = ctx.run([impl, "-mode", "script", "-workers", "8"], input="\n".join(scripts) + "\n", timeout=300, env=env, mem_kb=64000000)
    nconc = ctx.n(200, 4000)
    rc2, out2 = ctx.run([impl, "-mode", "conc", "-seed", str(ctx.seed), "-runs", str(nconc), "-workers", "8"],
                        timeout=900, env=env, mem_kb=64000000)
    races = [f for f in os.listdir(ctx.scratch) if f.startswith("race")]
    if races:
        text = open(os.path.join(ctx.scratch, races[0])).read()
        ctx.fail("race:watcher.Changes", "data race reported by the Go race detector", {"race_log": text[:4000]})
    if rc1 not in (0, 66) or rc2 not in (0, 66):
        # keep going: the lines printed so far may already contain failing inputs
        ctx.broken("correspondence(c40:run)", "harness rc=%d/%d %s %s" % (rc1, rc2, out1[-300:], out2[-300:]))
    rows, skipped = [], 0
    for line in (out1 + out2).splitlines():
        f = line.split("\t")
        if len(f) != 7:
            if rc1 in (0, 66) and rc2 in (0, 66):
                ctx.broken("correspondence(c40:format)", "bad harness line: %r" % line[:200])
            continue
        if f[5] == "skipped-after-failures":
            skipped += 1
            continue
        rows.append(f)
    if skipped:
        ctx.log("harness skipped %d cases after repeated failures" % skipped)
    # direct oracle verdicts
    for f in rows:
        if f[5] != "ok":
            ctx.fail(f[0], "watcher.Changes: %s  history: %s" % (f[5], f[2][:600]),
                     {"case": f[0], "history": f[2], "verdict": f[5], "shape": f[6],
                      "replay": "h_c40 -mode script (scripts) / -mode conc -seed S -runs N (concurrent, schedule dependent)"})
    good = [f for f in rows if f[5] == "ok"]
    # the extracted step function judges every trace
    inp = "".join("%s %s\n" % (f[1], f[3]) for f in good)
    rc3, out3 = ctx.run([model], input=inp, timeout=600)
    if rc3 != 0:
        ctx.broken("correspondence(c40:model)", "model rc=%d %s" % (rc3, out3[-300:]))
        return
    mlines = out3.splitlines()
    impl_proj, model_proj = [], []
    for f, m in zip(good, mlines):
        # implementation: recorded history (+ expected final set for scripts)
        fin = "" if f[4] == "?" else " | changed=" + f[4]
        impl_proj.append("OK " + f[2] + fin)
        parts = m.split(" | ")
        if f[4] == "?":
            model_proj.append(parts[0])
        else:
            model_proj.append(" | ".join(parts[:2]))
    if len(mlines) != len(good):
        ctx.broken("correspondence(c40:count)", "model lines %d != cases %d" % (len(mlines), len(good)))
        return
    ctx.diff_lines("gstep~watcher.Changes", [f[0] for f in good], "\n".join(impl_proj), "\n".join(model_proj))
    # at the end of every trace the model must be at rest exactly as observed
    for f, m in zip(good, mlines):
        if m.startswith("OK") and not m.endswith("quiescent=1"):
            ctx.broken("correspondence(c40:final-state)", "%s: model not at rest at the end: %s" % (f[0], m[-200:]))
            break
    shapes = {}
    for f in rows:
        sh = f[6]
        if sh.startswith("script"):
            k = " ".join(sh.split()[:2] + [sh.split()[2]])
        else:
            w = sh.split()
            k = " ".join([w[0], w[1], w[-1]])
        shapes[k] = shapes.get(k, 0) + 1
    nontriv = set(f[2] for f in good if "g" in f[2] and "F" in f[2])
    nvalid = sum(1 for m in mlines if m.startswith("OK"))
    ctx.cover(evaluations=len(rows), distinct_nontrivial=len(nontriv),
              samples=[{"case": f[0], "history": f[2], "trace": f[3][:400]}
                       for f in [good[k] for k in sorted(set([min(nex // 2, len(good) - 1), len(good) - 1, max(len(good) - 2, 0)]))]] if good else [],
              rule="scripts: exhaustive over {R0,R1,R0+R1,R2+R0+R2,F} (+ = burst), length<=%d (%d scripts; F on an empty set blocks and "
                   "must be woken by the next report) + %d seeded scripts over 8 directories; concurrent: %d seeded workloads (1-3 producers, 1-3 consumers, 1-4 directories, three start "
                   "orders, random yields), race detector on. non-trivial = distinct recorded history containing a report "
                   "and a completed fetch" % (ctx.n(4, 6), nex, len(scripts) - nex, nconc),
              exhaustive_part=nex, traces_validated_against_impl=nvalid, input_shape_histogram=dict(sorted(shapes.items())))
    ctx.assume("sync.Mutex / sync.Cond / map iteration behave as modelled (Lock enabled iff free; Wait atomically "
               "enqueues+unlocks+parks and re-locks after a notification; Broadcast notifies all parked waiters; range over a "
               "map yields any present key)")
    ctx.trust("modelled, not verified: x/watcher/changes.go Changes.FileChanged/Fetch (statement lists regenerated by the "
              "translator; their semantics = Model/C40.v exec_f/exec_g); path.Dir / fullPath prefixing are outside the model",
              "harness linearisation search (result re-checked step by step by the extracted gstep)", "Go race detector")
