"""C37 — Go/XGo declaration trees convert without loss (ast/fromgo/gopast.go, ast/togo/goast.go).

A  Props/C37.v over the REGENERATED tables (K-gen: Gen/AstConv.v from the two Go files, Gen/AstStructs.v
   and Gen/GoAstStructs.v from the struct declarations, Gen/Tokens.v): C37_tables_preserve (vm_compute
   obligation), C37_roundtrip (unbounded trees, modulo nil/empty slices), C37_roundtrip_refuted (the faithful
   model distinguishes nil from empty slices: Field.Names), C37_token_numbering_aligned.
B  K-diff: the extracted model's togo(fromgo(t)) vs the real togo.ASTFile(fromgo.ASTFile(f)) — whole result
   trees compared, nil/empty slices and panics included — on every .go file of /repo, a seeded sample of
   GOROOT/src (thorough: all of it) and generated sources (generics, 3-index slices, func literals in values,
   channel directions, tags, ellipsis, union constraints; one in ten damaged).
C  direct oracle: go/printer of every converted declaration vs go/printer of the original declaration reduced
   to its header by an independent reflection copy.
"""
import os
import subprocess

import vlib

CLAIM = {
    "level": "proof",
    "text": "Coq theorem for Go files of any size: whenever fromgo succeeds, togo of its result is the header "
            "projection of the file (names, receivers, type parameters, parameter/result types, type definitions, "
            "constant and variable values; comments, resolved objects and bodies dropped) up to nil-vs-empty slices; "
            "both conversions are tables regenerated from the source on every run and the obligation that each "
            "to-function undoes its from-function field by field is re-proved by vm_compute. The faithful model "
            "refutes exact equality (C37_roundtrip_refuted): unnamed fields come back with a non-nil empty Names "
            "slice, which go/printer prints differently — listed as a known finding.",
    "note": "Modelled, not verified: gopast.go/goast.go as table interpreters (the translator reads a fixed fragment "
            "and fails loudly outside it); tied by comparing whole result trees of the extracted model with the real "
            "conversions. Trusted: go/printer prints a declaration from the header fields only (cross-checked by the "
            "direct oracle). Function-literal bodies are dropped by design ('skip closure body') and count as body, "
            "not header. fromgo panics on Bad* nodes: files with syntax errors are outside the property.",
}

WITNESSES = [
    b"package p\nfunc f() int { return 0 }\n",                        # R1: single unnamed result
    b"package p\ntype I interface{ M(int) (string, error) }\n",        # unnamed params/results in an interface
    b"package p\nfunc F[T any, U comparable](x T, ys ...U) (r chan<- T, err error) { return }\n",
    b"package p\nvar x P[int, string]\nvar y = a[1:2:3]\nvar f = func(a int) int { return a }\n",
    # tagged embedded fields: plain, qualified, pointer; in a declared struct, in a struct literal type inside a value, in a parameter
    b"package p\n\nimport \"sync\"\n\ntype A struct {\n\tBase `bson:\",inline\"`\n\tsync.Mutex `json:\"-\"`\n\t*Base2 `yaml:\",inline\"`\n\t*pkg.T \"raw\"\n\tX int `json:\"x\"`\n}\n\n"
    b"var v = struct {\n\tBase `k:\"v\"`\n\t*sync.Mutex `m:\"n\"`\n}{}\n\nvar w = []struct{ pkg.T `a:\"b\"` }{{}}\n\nfunc f(x struct{ Base `a:\"b\"` }) (r struct{ *Base `c:\"d\"` }) { return }\n\n"
    b"type G[T any] struct {\n\tInner[T] `g:\"t\"`\n\t*sync.Map `json:\"-\"`\n}\n",
    b"package p\nvar v = append(a, b...)\nvar w = f(g(xs...), ys...)\nconst n = len(h(s...))\nvar fn = func(a ...int) int { return sum(a...) }\n",   # call ellipsis
    b"package p\nvar a, b, c = 1, 2, 3\nconst x, y, z, w = 1, 2, 3, 4\nvar (\n\tm, n, o int = f(1), g[2], h.i\n)\n",
    b"package p\nimport (\n\t\"fmt\"\n\tx \"os\"\n)\nconst (\n\tA = iota\n\tB\n)\ntype T struct {\n\tA int `json:\"a\"`\n\tB, C []*T\n\tfmt.Stringer\n}\n",
]


def goroot():
    rc, out = vlib.sh(["go", "env", "GOROOT"], env=vlib.GOENV)
    return out.strip()


def go_files(root, skip_testdata=True):
    out = []
    for d, dirs, files in os.walk(root):
        dirs[:] = sorted(x for x in dirs if x != ".git" and not (skip_testdata and x == "testdata"))
        for f in sorted(files):
            if f.endswith(".go"):
                out.append(os.path.join(d, f))
    return out


def canon(t):
    return t.replace("[]", "~")


def gen_json(ctx, name, ok):
    """JSON side copy of a generator (build/gen<PTAG>, private per worktree); None if the translator failed"""
    if not ok:
        return None
    try:
        return ctx.gen_json(name)
    except Exception:
        return None


def run(ctx):
    gen_ok = ctx.regen(["aststructs", "goaststructs", "astconv", "tokens"])
    ctx.prove("C37")
    model = ctx.model("c37")
    impl = ctx.harness("c37")
    gostructs = os.path.join(vlib.BUILD, "gen" + vlib.PTAG, "goaststructs.json")

    repo_files = go_files(vlib.REPO, skip_testdata=False)
    std = go_files(os.path.join(goroot(), "src"))
    nstd = ctx.n(80, len(std))
    if nstd < len(std):
        # seeded sample without replacement
        idx = list(range(len(std)))
        for i in range(nstd):
            j = i + ctx.rng.below(len(idx) - i)
            idx[i], idx[j] = idx[j], idx[i]
        std_pick = sorted(std[i] for i in idx[:nstd])
    else:
        std_pick = std
    cases = ["src\t" + w.hex() for w in WITNESSES]
    cases += ["file\t" + p for p in repo_files]
    cases += ["file\t" + p for p in std_pick]
    ngen = ctx.n(300, 20000)
    cases += ["gen\t%d" % (ctx.rng.next() % (1 << 62)) for _ in range(ngen)]

    rc, out = ctx.run([impl, "-gostructs", gostructs, "run"], input="\n".join(cases) + "\n", timeout=900)
    if rc != 0:
        ctx.broken("correspondence(c37:impl-run)", "rc=%d %s" % (rc, out[-400:]))
        return
    lines = out.split("\n")
    if lines and lines[-1] == "":
        lines.pop()
    if len(lines) != len(cases):
        ctx.broken("correspondence(c37:impl-run)", "cases=%d result lines=%d" % (len(cases), len(lines)))
        return
    ctx.log("implementation converted %d files" % len(cases))
    res = [l.split("\t") for l in lines]
    live = [i for i, r in enumerate(res) if r[0] != "-"]
    rc, mout = ctx.run([model], input="\n".join(res[i][0] for i in live) + "\n", timeout=900)
    if rc != 0:
        ctx.broken("correspondence(c37:model-run)", "rc=%d %s" % (rc, mout[-400:]))
        return
    mlines = mout.split("\n")
    if mlines and mlines[-1] == "":
        mlines.pop()
    if len(mlines) != len(live):
        ctx.broken("correspondence(c37:model-run)", "cases=%d model lines=%d" % (len(live), len(mlines)))
        return
    ctx.log("model converted %d trees" % len(live))
    mres = {i: l.split("\t") for i, l in zip(live, mlines)}

    root = goroot()

    def rel(c):
        f = c.split("\t")
        if f[0] == "src":
            return "src\t" + vlib.sha(bytes.fromhex(f[1]))
        return c.replace(vlib.REPO + "/", "").replace(root + "/", "GOROOT/")

    # B: whole result trees, model vs implementation
    ctx.diff_lines("to(from(t))~togo.ASTFile(fromgo.ASTFile(f))", [rel(cases[i]) for i in live],
                   "\n".join(res[i][1] for i in live), "\n".join(mres[i][1] for i in live))
    # the theorem's premise and conclusion on the real data (an instance check, not the proof)
    bad_ok = [rel(cases[i]) for i in live if mres[i][0] != "1"]
    if bad_ok:
        ctx.broken("premise(go_ok on exported trees)", "%d exported trees do not have their struct's fields, e.g. %s" % (len(bad_ok), bad_ok[:3]))
    bad_rt = [rel(cases[i]) for i in live if mres[i][1] not in ("PANIC", "OUTOFFUEL") and canon(mres[i][1]) != canon(mres[i][2])]
    if bad_rt:
        ctx.broken("model-instance(roundtrip = strip modulo nil/empty)", "%d trees, e.g. %s" % (len(bad_rt), bad_rt[:3]))
    oof = [rel(cases[i]) for i in live if mres[i][1] == "OUTOFFUEL"]
    if oof:
        ctx.broken("model(fuel)", "%d trees ran out of fuel, e.g. %s" % (len(oof), oof[:3]))

    # C: direct oracle
    hist = {"ok": 0, "nonnil-names": 0, "panic-on-syntax-error": 0, "noparse": 0, "other": 0}
    exact = 0
    distinct = set()
    for i, r in enumerate(res):
        verdict, info = r[2], r[3] if len(r) > 3 else ""
        key = rel(cases[i]).replace("\t", ":")
        if r[0] == "-":
            hist["noparse"] += 1
            continue
        distinct.add(vlib.sha(r[0]))
        if mres[i][1] == mres[i][2]:
            exact += 1
        if verdict == "ok":
            hist["ok"] += 1
        elif verdict.startswith("nonnil-names:"):
            hist["nonnil-names"] += 1
            ctx.fail("site:goIdents-nonnil-empty-Names", "e.g. %s: %s" % (key, verdict[:300]), {"case": rel(cases[i]), "verdict": verdict})
        elif verdict.startswith("panic:") and ("parse-errors" in info or "Bad" in verdict):
            hist["panic-on-syntax-error"] += 1       # outside the property: not a syntactically valid Go file
        else:
            hist["other"] += 1
            ctx.fail(key, "togo(fromgo(%s)): %s" % (key, verdict[:400]), {"case": rel(cases[i]), "verdict": verdict})
    ctx.cover(evaluations=len(cases), distinct_nontrivial=len(distinct),
              samples=[{"case": rel(cases[i]), "verdict": res[i][2][:200], "info": res[i][3]} for i in (0, len(WITNESSES) + 3, len(cases) - 1)],
              rule="%d fixed witnesses + every .go file of /repo (%d) + %d of %d GOROOT/src files (seeded sample; thorough: all) + %d generated "
                   "sources (grammar-based: generics, 3-index slices, func literals, channel directions, tags, ellipsis, unions; ~10%% damaged); "
                   "non-trivial = distinct exported file tree" % (len(WITNESSES), len(repo_files), len(std_pick), len(std), ngen),
              verdict_histogram=hist, roundtrip_exactly_strip=exact, static_gen="ok" if gen_ok else "unparsed")
    ctx.trust("modelled, not verified: ast/fromgo/gopast.go and ast/togo/goast.go as the interpreter Model/C37.v:conv over the generated "
              "tables (translator/gen_astconv.go)", "go/printer prints a declaration from its header fields (cross-checked by the direct oracle)",
              "harness/internal/astx reflection export of go/ast trees; function bodies are exported with an empty statement list")
    ctx.assume("Go files are syntactically valid (fromgo panics on BadExpr/BadDecl/BadStmt)",
               "integer conversions between the token types keep the value (C37_token_numbering_aligned shows the numbering agrees)")
