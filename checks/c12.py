"""C12 — recorded type information obeys its documented invariants
(x/typesutil/check.go, gopinfo.go; cl/recorder.go and the rec.Def/Use/Type/Scope call sites of cl).

A  Props/C12.v over the MiniScope model (coq/Model/C12.v): a lexical resolver with the recorder
   protocol of cl (positions given to objects exactly as cl/gogen give them):
     C12_uses_elsewhere, C12_defs_at_own_pos (for programs without the four declaration forms
     whose objects get a foreign position), C12_defs_pos_characterised (which Defs are wrong, all
     programs), C12_recorded_nodes_in_files (all programs), and *_refuted witnesses for the forms that violate.
   K-gen: translator/gen_c12.go reads the cl call sites (position given to each declared object, what
   defNames / compileAssignStmt / compileType / recordCompositeLit record) into Gen/C12.v;
   C12_sites_as_modelled checks that they are what the model hard-wires.
B  K-diff: extracted model vs typesutil.Checker on deterministic + seeded MiniScope programs
   rendered to Go/XGo text: per identifier occurrence Def/Use and the position of its object,
   len(Info.Scopes), presence of a nil key in Info.Types.
C  direct oracle on the real Info of: the MiniScope programs, handwritten Go texts, the XGo corpus
   (demo/, cl/_testgop, cl/_testpy, cl/_testc): the invariants of the Info doc comment, and for
   Go-compatible programs the comparison with go/types on the same text.
"""
import glob
import os

import vlib
from checks import c12gen as G

CLAIM = {
    "level": "other",
    "text": "Coq theorems over MiniScope, a model of the recorder protocol of cl/typesutil (nested scopes; var/const/type/"
            "func/param/import declarations with the object positions cl really assigns; uses; Def/Use/Type/Scope events): "
            "for all programs every recorded use refers to an object declared elsewhere, every recorded node belongs to the "
            "file, and Defs carry the identifier's own position exactly for the "
            "declaration forms characterised in C12_defs_pos_characterised; the remaining forms are refuted by witnesses that "
            "the real checker reproduces. The model is tied to the code by a differential run (identifier map, scope count) "
            "on generated programs; the invariants and the go/types comparison are evaluated on the real Info for generated "
            "programs, handwritten Go texts and the XGo corpus.",
    "note": "Kernel theorem + explored remainder: name resolution and typing in the real checker are cl+gogen (not modelled "
            "beyond lexical scoping); the comparison with go/types is testing. Lazily compiled functions/variables (first "
            "referenced from a body declared before them) are outside the model and listed as findings.",
}

CORPUS_GLOBS = ["demo/*/*.xgo", "demo/*/*.gop", "cl/_testgop/*/in.xgo", "cl/_testpy/*/in.xgo", "cl/_testc/*/in.xgo"]


def split_items(field, sep):
    body = field.split(" ", 1)[1] if " " in field else ""
    if body in ("ok", "n/a", ""):
        return []
    return [x for x in body.split(sep) if x]


def run(ctx):
    ctx.level = "other"
    if ctx.regen(["c12"]):
        try:
            unparsed = [s["site"] + ": " + s["arg"] for s in ctx.gen_json("c12") if s["rule"] == "RUnparsed"]
        except Exception:
            unparsed = ["c12.json unreadable"]
        if unparsed:
            ctx.log("static_gen: unparsed", unparsed)
        ctx.notes["static_gen_unparsed"] = unparsed
    ctx.prove("C12")
    model = ctx.model("c12")
    impl = ctx.harness("c12")
    impcache = os.path.join(vlib.BUILD, "c12_impcache_" + vlib.sha(vlib.REPO))

    cases = []   # (name, kind, src, model_line or None, origin)
    for name, kind, decls in G.deterministic():
        src, ml = G.render(decls)
        cases.append((name, kind, src, ml, "deterministic"))
    for name, src in G.GO_TEXTS:
        cases.append((name, "go", src, None, "gotext"))
    for name, src in G.overload_family():
        cases.append((name, "xgo", src, None, "overload"))
    ncorp = 0
    for pat in CORPUS_GLOBS:
        for f in sorted(glob.glob(os.path.join(vlib.REPO, pat))):
            rel = os.path.relpath(f, vlib.REPO)
            cases.append(("corpus~" + rel.replace("/", "~"), "xgo", open(f, "rb").read().decode("utf-8", "replace"), None, "corpus"))
            ncorp += 1
    nrand = ctx.n(110, 3000)
    shape = {}
    for i in range(nrand):
        g = G.Gen(ctx.rng)
        decls = g.program()
        src, ml = G.render(decls)
        for k, v in g.shape.items():
            shape[k] = shape.get(k, 0) + v
        cases.append(("rnd-" + vlib.sha(src), "ms", src, ml, "random"))

    nrich = ctx.n(60, 1500)
    dhist = {}
    for i in range(nrich):
        g = G.GoRich(ctx.rng)
        src = g.program()
        for k, v in g.hist.items():
            dhist[k] = dhist.get(k, 0) + v
        cases.append(("rich-" + vlib.sha(src), "go", src, None, "gorich"))

    hk = {"ms": "go", "msx": "xgo", "go": "go", "xgo": "xgo"}
    inp = "".join("%s\t%s\t%s\n" % (hk[k], n, s.encode().hex()) for n, k, s, _, _ in cases)
    rc1, out1 = ctx.run([impl, "-repo", vlib.REPO, "-impcache", impcache], input=inp, timeout=900)
    lines = out1.splitlines()
    if rc1 != 0 or len(lines) != len(cases):
        ctx.broken("correspondence(c12:impl-run)", "rc=%d lines=%d cases=%d %s" % (rc1, len(lines), len(cases), out1[-400:]))
        return
    mcases = [(i, c) for i, c in enumerate(cases) if c[3] is not None]
    rc2, out2 = ctx.run([model], input="".join(c[3] + "\n" for _, c in mcases))
    mlines = out2.splitlines()
    if rc2 != 0 or len(mlines) != len(mcases):
        ctx.broken("correspondence(c12:model-run)", "rc=%d lines=%d cases=%d %s" % (rc2, len(mlines), len(mcases), out2[-400:]))
        return

    # B: identifier map, scope count, nil Types key
    impl_maps, model_maps, names, skipped = [], [], [], []
    gen_rejected = {}    # generated originals that go/types rejects: generator bugs, dropped and counted, never a violation
    for c, l in zip(cases, lines):
        f = l.split("\t")
        if len(f) > 3 and f[3].startswith("GO go") and c[4] in ("random", "gorich"):
            gen_rejected[c[0]] = f[3][:200]
    if gen_rejected:
        ctx.log("GENERATOR-BUG: %d generated program(s) rejected by go/types and dropped: %s" % (len(gen_rejected), list(gen_rejected.items())[:3]))
        if os.environ.get("VERIF_DEV"):
            raise RuntimeError("generator produced invalid Go: %s" % list(gen_rejected.items())[:3])
    for (i, c), ml in zip(mcases, mlines):
        f = lines[i].split("\t")
        mp = f[1][4:] if len(f) > 1 else "?"
        if c[0] in gen_rejected:
            continue
        if mp.split(" ")[0] in ("PARSEERR", "CHECKERR", "PANIC") or (len(f) > 3 and f[3].startswith("GO go")):
            skipped.append((c[0], (f[2] + " " + f[3])[:300]))
            continue
        impl_maps.append(mp)
        model_maps.append(ml.split("\t")[0])
        names.append(c[0] + "\n" + c[2])
    ctx.diff_lines("info_map~typesutil.Info", names, "\n".join(impl_maps), "\n".join(model_maps))
    if len(skipped) * 20 > len(mcases):
        ctx.broken("correspondence(c12:checker-rejects-valid-go)",
                   "%d of %d generated programs that go/types accepts are rejected by typesutil.Checker; first: %s" % (len(skipped), len(mcases), skipped[0]))

    # C: the invariants on the real Info, and the comparison with go/types
    nfail, nprog_ok, hist = 0, 0, {}
    distinct = set()
    for c, l in zip(cases, lines):
        f = l.split("\t")
        if len(f) < 5:
            ctx.broken("correspondence(c12:impl-line)", l[:300])
            continue
        name, kind, src = c[0], c[1], c[2]
        if name in gen_rejected:
            hist["generator-rejected"] = hist.get("generator-rejected", 0) + 1
            continue
        if len(f) > 3 and f[3].startswith("GO go"):
            # a handwritten Go text that go/types rejects: a bug of the check, not of /repo
            ctx.broken("check-machinery(c12:handwritten-text)", "%s: %s" % (name, f[3][:300]))
            continue
        if f[1].split(" ")[1:2] and f[1].split(" ")[1] in ("PARSEERR", "CHECKERR"):
            hist["skipped:" + c[4]] = hist.get("skipped:" + c[4], 0) + 1
            continue
        if f[1].startswith("MAP PANIC"):
            ctx.fail("%s:panic" % name, "typesutil.Checker panicked on %s: %s" % (name, f[2][:300]), {"program": src})
            continue
        items = [("inv", x) for x in split_items(f[2], " ")] + [("go", x) for x in split_items(f[3], " ; ")]
        hist[c[4]] = hist.get(c[4], 0) + 1
        stat = dict(kv.split("=") for kv in f[4].split(" ")[1:] if "=" in kv)
        if int(stat.get("idents", "0")) >= 8:
            distinct.add(vlib.sha(src))
        if not items:
            nprog_ok += 1
        for which, it in items:
            ident = it.split("{")[0]
            key = "%s:%s:%s" % (name, which, ident)
            nfail += 1
            ctx.fail(key, "%s: %s" % (name, it), {"program_name": name, "kind": kind, "source": src, "failing": it,
                                                  "how": "h_c12 reads `kind<TAB>name<TAB>hex(source)` on stdin"})

    ctx.cover(evaluations=len(cases), distinct_nontrivial=len(distinct),
              samples=[{"name": cases[i][0], "source": cases[i][2][:600], "impl": lines[i][:600]}
                       for i in (0, len(cases) - 1, len(cases) - 2)],
              rule="%d deterministic MiniScope programs (one per declaration form, incl. the forms that violate) + %d handwritten "
                   "Go texts + %d XGo overload declarations (fixed enumeration: function/method/operator, named/literal/mixed candidates; no class files) "
                   "+ %d XGo corpus files (%s) + %d seeded random Go-compatible MiniScope programs + %d seeded random Go-compatible "
                   "programs over every declaring construct (GoRich: fields, embedded fields T/*T/pkg.T/*pkg.T in type decls, literal and "
                   "parameter types, methods and receivers, params/results, interface methods, iota groups, type switch variables, "
                   "imports; oracle + go/types comparison only; generic types do not parse as XGo and are not generated); non-trivial = "
                   "distinct source that type-checks and has >= 8 identifier occurrences. NOT generated at random (they fail on "
                   "the unchanged tree, explored by the deterministic set): multi-name var/const/:= specs, range/for-in "
                   "variables, blank identifiers, re-declared names in :=, local type declarations, typed `var x T = ..x..` "
                   "self reference, labels, functions/variables first referenced from an earlier body"
                   % (len(G.deterministic()), len(G.GO_TEXTS), len(G.overload_family()), ncorp, ",".join(CORPUS_GLOBS), nrand, nrich),
              origin_histogram=hist, construct_histogram=dict(sorted(shape.items())),
              declaring_construct_histogram=dict(sorted(dhist.items())),
              model_vs_impl_compared=len(impl_maps), generated_rejected=len(skipped),
              generator_rejected=len(gen_rejected), generator_rejected_samples=dict(list(gen_rejected.items())[:5]),
              programs_without_any_failure=nprog_ok, oracle_failing_items=nfail)
    ctx.assume("object positions/kinds of MiniScope follow cl's call sites as read (loadVars, loadConsts, compileAssignStmt, "
               "compileRangeStmt, compileForPhraseStmt, compileType, loadFunc, compileFuncLit, recordCompositeLit); "
               "functions and package variables are assumed to be declared before the bodies that mention them "
               "(lazy loading compiles them in the referring scope: findings go-lazy-*)")
    ctx.trust("modelled, not verified: cl's recorder call sites and gogen's scope handling (hand-written Gallina model "
              "MiniScope, tied by differential run of the identifier map); go/types as reference for Go-compatible programs; "
              "gogen/tool importer for export data")
