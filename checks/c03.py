"""C03 — the error-wrapping operators expr!, expr?, expr?:d behave as documented.

A  Props/C03.v (errwrap_bang / default / q_ok / q_err / eval_once, for any number of values)
B  ONE program: operator kind x number of values (0..2) x use position (statement, :=, =, argument,
   operand of a nested call, if-condition), each run with the wrapped call succeeding and failing,
   compiled by the real compiler, built, run; returned value, root + wrapping depth of the returned
   error / panic value and the probe log  vs  the extracted model (case_prog -> MiniGo eval)
C  on the implementation: the documented behaviour itself (values on success; panic with the
   wrapped error for !; zero value + wrapped error returned from the enclosing function for ?;
   the default for ?:; the wrapped call logged exactly once; nothing after it runs on failure);
   a use the property gives a meaning to must compile
"""
import json
import os
import re
import shutil

import vlib

CLAIM = {
    "level": "proof",
    "text": "Coq theorems over a model of cl.compileErrWrapExpr lowered into MiniGo (closure form for ! and ?:, hoisted inline "
            "block with _autoGo_N temporaries and ReturnErr for ?): for any wrapped expression returning any number of values "
            "plus an error, expr! yields the values or panics with NewFrame(err); expr?:d yields the values (d not evaluated) or d; "
            "expr? continues with the values or makes the enclosing function return its zero values and NewFrame(err) with "
            "nothing after the call executed; the wrapped expression is evaluated exactly once. Tied to the code by one compiled "
            "program covering kind x 0..2 values x 6 use positions x {nil, error}, compared with the extracted model's result and "
            "probe trace.",
    "note": "errors.NewFrame is modelled as a wrapper whose Unwrap root is the original error (observed through errors.Unwrap); "
            "gogen's inline-closure mechanism (outside /repo) is modelled as observed, including what it rejects. Known findings: "
            "expr? with two or more values does not compile in any position; `if f()? > 0` does not compile. Observation (not a "
            "violation of C03): expr? hoists the call in front of the enclosing statement, so it runs before operands to its left.",
}

KINDS = {"!": "bang", "?": "quest", "?:": "default"}
POSITIONS = ["stmt", "define", "assign", "arg", "nested", "ifcond"]


def valid(kind, n, pos):
    """Uses that are meaningful Go/XGo for the number of values."""
    if kind == "?:" and n != 1:
        return False          # ?:d replaces exactly one value
    if n == 0:
        return pos == "stmt"
    if n == 2:
        return pos in ("stmt", "define", "assign", "arg")
    return True


def expected(kind, n, pos, failing):
    """The documented behaviour, written independently of the model: (outcome, trace)."""
    vals = ["100:5", "101:73"][:n]
    use = {"stmt": ["90:0"], "define": vals, "assign": vals, "arg": vals, "ifcond": ["90:1"]}
    if not failing:
        v = 5
        if pos == "nested":
            # Go evaluates operands left to right; `?` hoists the call (observation, see CLAIM note): accept both orders
            return "ret=7,nil", [["81:1", "1:", "80:6"], ["1:", "81:1", "80:6"]]
        return "ret=7,nil", [["1:"] + use[pos]]
    if kind == "!":
        pre = ["81:1"] if pos == "nested" else []
        return "panic=E/1", [pre + ["1:"], ["1:"] + pre]
    if kind == "?":
        # `?` hoists the call in front of the statement: the operand to its left has not run when it returns
        return "ret=0,E/1", ([["81:1", "1:"], ["1:"]] if pos == "nested" else [["1:"]])
    # ?:42
    if pos == "nested":
        return "ret=7,nil", [["81:1", "1:", "80:43"], ["1:", "81:1", "80:43"]]
    u = {"stmt": ["90:0"], "define": ["100:42"], "assign": ["100:42"], "arg": ["100:42"], "ifcond": ["90:1"]}
    return "ret=7,nil", [["1:"] + u[pos]]


# ---------------------------------------------------------------- call shapes
# callee -> (XGo text, values returned besides the error, parameter kind, event id)
CALLEES = {"va": ("va", 0, "any", 200), "e": ("obj.e", 0, "any", 204), "vi": ("vi", 1, "int", 201), "m": ("obj.m", 1, "int", 203),
           "two": ("two", 1, "two", 202), "f1": ("f1", 1, "none", 1), "f0": ("f0", 0, "none", 1)}
SUFFIX = {"!": "!", "?": "?", "?:": "?:42"}


def arg_text(a):
    t = a[0]
    if t == "i":
        return str(a[1])
    if t == "s":
        return '"%s"' % a[1]
    if t == "spread":
        return "xs..." if a[1] == "any" else "is..."
    if t == "nest":
        return "f1()" + SUFFIX[a[1]]
    return "p(%d, %d)" % (a[1], a[2])    # probe


def shape_valid(sh):
    name, nvals, par, _ = CALLEES[sh["callee"]]
    k, style, pos, args = sh["kind"], sh["style"], sh["pos"], sh["args"]
    if (k == "?:") and nvals != 1:
        return False
    if pos == "define" and (nvals != 1 or style == "cmd"):
        return False                      # command style is a statement form
    if k == "?:" and pos != "define":
        return False
    if k == "?" and nvals == 1 and pos == "stmt":
        return False                      # the value-discarded finding of the plain grid; not repeated here
    if style == "bare":
        return not args
    if style == "cmd" and not args:
        return False                      # `f!` without arguments is the bare form
    spreads = [a for a in args if a[0] == "spread"]
    if par == "none":
        return not args
    if par == "two":
        return len(args) == 2 and not spreads
    if spreads:
        return len(args) == 1 and spreads[0][1] == par
    return all(a[0] != "s" or par == "any" for a in args)


def shape_body(sh):
    name = CALLEES[sh["callee"]][0]
    args = ", ".join(arg_text(a) for a in sh["args"])
    suf = SUFFIX[sh["kind"]]
    if sh["style"] == "paren" and sh.get("layout") == "multi" and sh["args"]:
        # the wrapped call spans several lines: one argument per line, the operator after the closing parenthesis
        call = "%s(\n%s\t)%s" % (name, "".join("\t\t%s,\n" % arg_text(a) for a in sh["args"]), suf)
    elif sh["style"] == "paren":
        call = "%s(%s)%s" % (name, args, suf)
    elif sh["style"] == "cmd":
        call = "%s%s %s" % (name, suf, args)
    else:
        call = name + suf
    b = "\txs := []any{1, 2, 3}\n\tis := []int{4, 5}\n\tobj := &T{}\n\t_, _, _ = xs, is, obj\n"
    if sh["pos"] == "define":
        b += "\tx := %s\n\tlg(100, x)\n" % call
    else:
        b += "\t%s\n\tlg(90, 0)\n" % call
    return b + "\treturn 7, nil\n"


def shape_frame_line(sh, failing):
    """Line (0-based in the function text) the source frame of the resulting error must name: where the wrapped
    expression STARTS; None = the outcome carries no frame."""
    if not failing:
        return None
    start = 5                                   # func header + 4 set-up lines
    multi = sh["style"] == "paren" and sh.get("layout") == "multi" and sh["args"]
    for i, a in enumerate(sh["args"]):
        if a[0] == "nest" and a[1] == "!":
            return start + 1 + i if multi else start      # the nested f1()! panics first, with its own frame
    return None if sh["kind"] == "?:" else start


def flat_args(sh, failing):
    """What the callee must receive (the documented meaning of `...`), and the events of evaluating the arguments;
    None as values = an argument's own error-wrapping ended the evaluation."""
    vals, tr = [], []
    for a in sh["args"]:
        t = a[0]
        if t == "i":
            vals.append(str(a[1]))
        elif t == "s":
            vals.append(a[1].encode().hex())
        elif t == "spread":
            vals += ["1", "2", "3"] if a[1] == "any" else ["4", "5"]
        elif t == "nest":
            tr.append("1:")
            if failing and a[1] == "!":
                return None, tr
            vals.append("42" if failing else "5")
        else:
            tr.append("%d:%d" % (a[1], a[2]))
            vals.append(str(a[2]))
    return vals, tr


def shape_expected(sh, failing):
    name, nvals, par, eid = CALLEES[sh["callee"]]
    vals, tr = flat_args(sh, failing)
    if vals is None:
        return "panic=E/1", tr
    tr = tr + (["1:"] if eid == 1 else ["%d:%d:%s" % (eid, len(vals), ",".join(vals))])
    if failing:
        if sh["kind"] == "!":
            return "panic=E/1", tr
        if sh["kind"] == "?":
            return "ret=0,E/1", tr
        return "ret=7,nil", tr + ["100:42"]
    return "ret=7,nil", tr + (["100:5"] if sh["pos"] == "define" else ["90:0"])


def shape_model(sh, failing):
    toks = []
    for a in sh["args"]:
        t = a[0]
        if t == "i":
            toks.append("i%d" % a[1])
        elif t == "s":
            toks.append("s" + a[1].encode().hex())
        elif t == "spread":
            toks += ["i1", "i2", "i3"] if a[1] == "any" else ["i4", "i5"]
        elif t == "nest":
            toks.append("N" + a[1])
        else:
            toks.append("P%d,%d" % (a[1], a[2]))
    return ("shape %s %s %d %s %s" % (KINDS[sh["kind"]], sh["pos"], 1 if failing else 0, sh["callee"], " ".join(toks))).strip()


def fixed_shapes():
    S = lambda kind, style, callee, args, pos="stmt": {"kind": kind, "style": style, "callee": callee, "args": args, "pos": pos}
    any3, int2 = [("spread", "any")], [("spread", "int")]
    out = []
    for kind in ("!", "?"):
        for callee in ("va", "e"):
            for style in ("cmd", "paren"):
                out += [S(kind, style, callee, any3), S(kind, style, callee, [("i", 1), ("s", "a")]), S(kind, style, callee, [("i", 7)])]
            out += [S(kind, "paren", callee, []), S(kind, "bare", callee, [])]
    for callee in ("vi", "m"):
        out += [S("!", "cmd", callee, int2), S("!", "cmd", callee, [("i", 1), ("i", 2)]), S("!", "paren", callee, int2, "define"),
                S("?", "paren", callee, int2, "define"), S("?:", "paren", callee, [("i", 1), ("i", 2)], "define"), S("!", "bare", callee, [], "define"),
                S("?", "paren", callee, [], "define")]
    out += [S("!", "cmd", "two", [("i", 1), ("i", 2)]), S("!", "paren", "two", [("nest", "!"), ("nest", "?:")], "define"),
            S("!", "cmd", "two", [("nest", "!"), ("i", 3)]), S("?", "paren", "two", [("p", 81, 7), ("nest", "?:")], "define"),
            S("!", "cmd", "va", [("nest", "!"), ("p", 82, 6), ("s", "z")]), S("?", "cmd", "e", [("p", 81, 1), ("p", 82, 2)]),
            S("!", "bare", "f1", [], "define"), S("?:", "bare", "f1", [], "define"), S("?", "bare", "f1", [], "define"),
            S("!", "bare", "f0", []), S("?", "bare", "f0", [])]
    out = [sh for sh in out if shape_valid(sh)]
    # the same shapes with the wrapped call broken over several lines (frame line = first line of the call)
    out += [dict(sh, layout="multi") for sh in out if sh["style"] == "paren" and sh["args"]]
    return out


def gen_shape(rng):
    while True:
        callee = rng.choice(list(CALLEES))
        par = CALLEES[callee][2]
        style = rng.choice(["paren", "cmd", "cmd", "bare"])
        n = {"none": 0, "two": 2}.get(par, rng.below(4))
        args = []
        for _ in range(n):
            r = rng.below(6)
            if r == 0 and par in ("any", "int") and n == 1:
                args.append(("spread", par))
            elif r == 1:
                args.append(("nest", rng.choice(["!", "?:"])))
            elif r == 2:
                args.append(("p", 81 + len(args), rng.below(9)))
            elif r == 3 and par == "any":
                args.append(("s", rng.choice(["a", "bc"])))
            else:
                args.append(("i", rng.below(9)))
        sh = {"kind": rng.choice(["!", "?", "?:"]), "style": style, "callee": callee, "args": args, "pos": rng.choice(["stmt", "define"]),
              "layout": rng.choice(["one", "multi"])}
        if shape_valid(sh):
            return sh


# ---------------------------------------------------------------- operator contexts
# A flat token sequence (operands and binary operators alternating, optional unary prefixes) is rendered WITHOUT
# parentheses; its documented grouping is computed here by precedence climbing (Go's five levels; the error-wrapping
# suffix and its default belong to the operand: `f()?:7 * 2` = `(f()?:7) * 2`, `-f()?:1` = `-(f()?:1)`).
PREC = {"*": 5, "/": 5, "%": 5, "<<": 5, ">>": 5, "&": 5, "&^": 5, "+": 4, "-": 4, "|": 4, "^": 4,
        "==": 3, "!=": 3, "<": 3, "<=": 3, ">": 3, ">=": 3, "&&": 2, "||": 1}
ARITH = [o for o in PREC if PREC[o] >= 4]
CMP = [o for o in PREC if PREC[o] == 3]
# operand: ("W", kind, default) int call f1 (5) | ("B", kind, default) bool call fb (true) | ("i", n) | ("b", bool), with a list of unary prefixes


def opnd_text(o):
    t = o[0]
    if t == "W":
        return "f1()" + {"!": "!", "?": "?", "?:": "?:%d" % o[2]}[o[1]]
    if t == "B":
        return "fb()" + {"!": "!", "?": "?", "?:": "?:%s" % ("true" if o[2] else "false")}[o[1]]
    if t == "i":
        return str(o[1])
    return "true" if o[1] else "false"


def seq_text(seq):
    out = []
    for x in seq:
        if isinstance(x, str):
            out.append(x)
        else:
            pre, o = x
            out.append("".join(pre) + opnd_text(o))
    return " ".join(out)


def seq_tree(seq):
    """Precedence climbing over the flat sequence -> ("bin", op, l, r) | ("un", op, x) | operand."""
    pos = [0]

    def operand():
        pre, o = seq[pos[0]]
        pos[0] += 1
        t = o
        for u in reversed(pre):
            t = ("un", u, t)
        return t

    def climb(minp):
        left = operand()
        while pos[0] < len(seq) and PREC[seq[pos[0]]] >= minp:
            op = seq[pos[0]]
            pos[0] += 1
            right = climb(PREC[op] + 1)
            left = ("bin", op, left, right)
        return left
    return climb(1)


def tree_type(t):
    k = t[0]
    if k in ("W", "i"):
        return "int"
    if k in ("B", "b"):
        return "bool"
    if k == "un":
        x = tree_type(t[2])
        return x if (t[1] == "-" and x == "int") or (t[1] == "!" and x == "bool") else None
    l, r = tree_type(t[2]), tree_type(t[3])
    if l is None or r is None:
        return None
    op = t[1]
    if PREC[op] >= 4:
        return "int" if l == r == "int" else None
    if PREC[op] == 3:
        return "bool" if (l == r == "int" or (l == r == "bool" and op in ("==", "!="))) else None
    return "bool" if l == r == "bool" else None


class Abort(Exception):
    pass


def tree_eval(t, failing, tr):
    """Go semantics on small ints; events appended to tr; raises Abort(outcome) when a wrapped call ends the evaluation."""
    k = t[0]
    if k in ("W", "B"):
        if t[1] != "?":                      # the `?` call has been hoisted in front of the statement
            tr.append("1:")
        if failing:
            if t[1] == "!":
                raise Abort("panic=E/1")
            if t[1] == "?:":
                return t[2]
        return 5 if k == "W" else True
    if k in ("i", "b"):
        return t[1]
    if k == "un":
        x = tree_eval(t[2], failing, tr)
        return -x if t[1] == "-" else (not x)
    op = t[1]
    l = tree_eval(t[2], failing, tr)
    if op == "&&" and not l:
        return False
    if op == "||" and l:
        return True
    r = tree_eval(t[3], failing, tr)
    if op in ("/", "%") and r == 0:
        raise Abort("div0")
    if op in ("<<", ">>") and (r < 0 or r > 20):
        raise Abort("shift")
    import operator as O
    f = {"*": O.mul, "+": O.add, "-": O.sub, "&": O.and_, "|": O.or_, "^": O.xor, "<<": O.lshift, ">>": O.rshift,
         "&^": lambda a, b: a & ~b, "/": lambda a, b: abs(a) // abs(b) * (1 if (a < 0) == (b < 0) else -1),
         "%": lambda a, b: abs(a) % abs(b) * (1 if a >= 0 else -1),
         "==": O.eq, "!=": O.ne, "<": O.lt, "<=": O.le, ">": O.gt, ">=": O.ge, "&&": lambda a, b: b, "||": lambda a, b: b}[op]
    return f(l, r)


def leaves(t):
    if t[0] in ("W", "B"):
        return [t]
    if t[0] == "un":
        return leaves(t[2])
    if t[0] == "bin":
        return leaves(t[2]) + leaves(t[3])
    return []


def opctx_valid(seq):
    t = seq_tree(seq)
    ty = tree_type(t)
    if ty is None:
        return None
    ls = leaves(t)
    if not ls:
        return None
    qs = [l for l in ls if l[1] == "?"]
    if len(qs) > 1 or (qs and ls[0][1] != "?"):
        return None          # `?` hoists its call in front of the statement: keep it the first call, so the order is the documented one
    if qs:
        # ... and not behind a short-circuit operator (hoisting would evaluate a call Go skips)
        def guarded(t, under):
            if t[0] in ("W", "B"):
                return under and t[1] == "?"
            if t[0] == "un":
                return guarded(t[2], under)
            if t[0] == "bin":
                return guarded(t[2], under) or guarded(t[3], under or t[1] in ("&&", "||"))
            return False
        if guarded(t, False):
            return None
    for failing in (False, True):
        try:
            tree_eval(t, failing, [])
        except Abort as a:
            if a.args[0] in ("div0", "shift"):
                return None
    return t, ty


def opctx_expected(t, ty, failing):
    tr = []
    qs = [l for l in leaves(t) if l[1] == "?"]
    if qs:
        tr.append("1:")
        if failing:
            return "ret=0,E/1", tr
    try:
        v = tree_eval(t, failing, tr)
    except Abort as a:
        return a.args[0], tr
    if ty == "bool":
        return "ret=7,nil", tr + ["101:%s" % ("true" if v else "false")]
    return "ret=7,nil", tr + ["100:%d" % v]


def tree_model(t):
    k = t[0]
    if k == "W":
        return "W" + {"!": "b", "?": "q", "?:": "d%d" % t[2]}[t[1]]
    if k == "B":
        return "B" + {"!": "b", "?": "q", "?:": "d%d" % (1 if t[2] else 0)}[t[1]]
    if k == "i":
        return "i%d" % t[1]
    if k == "b":
        return "t" if t[1] else "f"
    if k == "un":
        return ("NEG " if t[1] == "-" else "NOT ") + tree_model(t[2])
    return "%s %s %s" % (t[1], tree_model(t[2]), tree_model(t[3]))


def opctx_body(seq, ty):
    if ty == "bool":
        return "\tx := %s\n\tlgb(101, x)\n\treturn 7, nil\n" % seq_text(seq)
    return "\tx := %s\n\tlg(100, x)\n\treturn 7, nil\n" % seq_text(seq)


def fixed_opctx():
    out = []
    W = lambda k, d=7: ([], ("W", k, d))
    B = lambda k, d=False: ([], ("B", k, d))
    I = lambda n: ([], ("i", n))
    T = ([], ("b", True))
    for k in ("!", "?", "?:"):
        for op in ARITH:
            out += [[W(k), op, I(4)], [I(9), op, W(k)]]
        for op in CMP:
            out += [[W(k), op, I(5)], [I(7), op, W(k)]]
        for op in ("&&", "||"):
            out += [[B(k), op, T], [T, op, B(k)], [B(k), op, ([], ("b", False))]]
        out += [[(["-"], ("W", k, 7))], [(["-"], ("W", k, 7)), "*", I(3)], [(["!"], ("B", k, False))], [(["!"], ("B", k, True)), "||", ([], ("b", False))]]
        # two operators around the wrapped call, of lower / equal / higher precedence on either side
        out += [[I(2), "+", W(k), "*", I(3)], [I(2), "*", W(k), "+", I(3)], [I(20), "-", W(k), "%", I(4)], [I(1), "<<", W(k), "&", I(12)],
                [I(3), "+", W(k), "==", I(8)], [W(k), "*", I(2), "<", I(11)], [W(k), "%", I(4), "==", I(1), "&&", B("!")]]
    out += [[([], ("W", "?:", -7)), "*", I(2)], [([], ("W", "?:", 0)), "+", ([], ("W", "?:", 0))], [([], ("W", "?:", 7)), "%", I(4), "+", ([], ("W", "!", 0))],
            [([], ("W", "?:", 3)), "<<", I(2)], [([], ("W", "?:", 6)), "/", I(2)], [([], ("W", "?:", 6)), "&^", I(1)], [([], ("W", "?:", 6)), ">>", I(1)],
            [([], ("W", "?:", 6)), "&", I(3)], [([], ("B", "?:", True)), "&&", ([], ("b", False))], [([], ("B", "?:", False)), "==", ([], ("b", True))]]
    return [sq for sq in out if opctx_valid(sq)]


def gen_opctx(rng):
    while True:
        n = 2 + rng.below(3)
        seq = []
        for i in range(n):
            r = rng.below(6)
            if r < 2:
                o = ("W", rng.choice(["!", "?", "?:"]), rng.below(12) - 3)
            elif r == 2:
                o = ("B", rng.choice(["!", "?", "?:"]), bool(rng.below(2)))
            elif r < 5:
                o = ("i", rng.below(9))
            else:
                o = ("b", bool(rng.below(2)))
            pre = []
            if rng.below(5) == 0:
                pre = ["-"] if o[0] in ("W", "i") else ["!"]
            seq.append((pre, o))
            if i < n - 1:
                seq.append(rng.choice(list(PREC)))
        if opctx_valid(seq):
            return seq


def gomod(repo):
    req = ""
    for l in open(os.path.join(repo, "go.mod")):
        if "github.com/qiniu/x " in l:
            req = l.strip()
    return ("module c03grid\n\ngo 1.18\n\nrequire (\n\tgithub.com/goplus/xgo v0.0.0\n\t%s\n)\n\n"
            "replace github.com/goplus/xgo => %s\n" % (req, repo))


def run(ctx):
    ctx.prove("C03")
    model = ctx.model("c03")
    impl = ctx.harness("c03")
    d = os.path.join(ctx.scratch, "grid")
    os.makedirs(d)
    open(os.path.join(d, "go.mod"), "w").write(gomod(vlib.REPO))
    shutil.copy(os.path.join(vlib.REPO, "go.sum"), os.path.join(d, "go.sum"))

    cases = [{"kind": k, "n": n, "pos": p} for k in KINDS for n in (0, 1, 2) for p in POSITIONS if valid(k, n, p)]
    # seeded repetition of the grid in random order (a second instance of every shape at another place of the program)
    extra = list(cases)
    for i in range(len(extra) - 1, 0, -1):
        j = ctx.rng.below(i + 1)
        extra[i], extra[j] = extra[j], extra[i]
    cases = cases + extra[:ctx.n(12, len(extra))]
    # call shapes: parenthesised / command style / bare, variadic callees with and without `...`, methods, nested wrapped calls
    shapes = fixed_shapes() + [gen_shape(ctx.rng) for _ in range(ctx.n(40, 600))]
    nplain = len(cases)
    cases = cases + [{"kind": sh["kind"], "n": CALLEES[sh["callee"]][1], "pos": sh["pos"], "body": shape_body(sh), "shape": sh} for sh in shapes]
    # operator contexts: the wrapped call before / after one operator of every precedence level, unary prefixes, two operators
    octx = fixed_opctx() + [gen_opctx(ctx.rng) for _ in range(ctx.n(40, 1500))]
    for sq in octx:
        t, ty = opctx_valid(sq)
        cases.append({"kind": "op", "n": 1, "pos": "define", "body": opctx_body(sq, ty), "opctx": (sq, t, ty)})
    json.dump([{k: v for k, v in c.items() if k not in ("shape", "opctx")} for c in cases], open(os.path.join(d, "cases.json"), "w"))
    ctx.log("phase: gen + go build")
    skip, gobuild = [], {}
    for attempt in range(4):
        rc, out = ctx.run([impl, "gen", "-dir", d, "-cases", os.path.join(d, "cases.json"), "-skip", ",".join(map(str, skip))], cwd=d, timeout=300)
        if rc != 0:
            ctx.broken("correspondence(c03: compile the grid program with the real compiler)", out[-1500:])
            return
        st = json.load(open(os.path.join(d, "status.json")))
        status, sources, lines = st["status"], st["sources"], st["lines"]
        rc, out = ctx.run("go build -o prog . 2>&1", cwd=d, timeout=300)
        if rc == 0:
            break
        # the Go toolchain rejects what the compiler emitted: find the cases by line, leave them out, retry
        bad = set()
        for m in re.finditer(r"main\.xgo:(\d+):\d+: (.*)", out):
            ln = int(m.group(1))
            for k, (a, b) in enumerate(lines):
                if a <= ln <= b and a > 0:
                    bad.add(k)
                    gobuild.setdefault(k, m.group(2))
        if not bad or attempt == 3:
            ctx.broken("correspondence(c03: go build of the compiled grid program)", out[-1500:])
            return
        skip = sorted(set(skip) | bad)
    for k, msg in gobuild.items():
        status[k] = "go-build-error: " + msg
    ctx.log("phase: run + model")
    rc, out = ctx.run([os.path.join(d, "prog")], timeout=120)
    if rc != 0:
        ctx.broken("correspondence(c03: run of the grid program)", "rc=%d %s" % (rc, out[-800:]))
        return
    got = {}
    for l in out.splitlines():
        f = l.split("\t")
        if len(f) == 5 and f[0].isdigit():
            got[(int(f[0]), f[1] == "true")] = (f[2], f[3], f[4])

    mcases, keys = [], []
    for k, c in enumerate(cases):
        for failing in (False, True):
            if "opctx" in c:
                mcases.append("opctx %d %s %s" % (1 if failing else 0, c["opctx"][2], tree_model(c["opctx"][1])))
            elif "shape" in c:
                mcases.append(shape_model(c["shape"], failing))
            else:
                mcases.append("%s %d %s %d" % (KINDS[c["kind"]], c["n"], c["pos"], 1 if failing else 0))
            keys.append((k, failing))
    rc, mout = ctx.run([model], input="\n".join(mcases) + "\n")
    mres = mout.splitlines()
    if rc != 0 or len(mres) != len(mcases):
        ctx.broken("correspondence(c03: model run)", mout[-500:])
        return
    impl_v = []
    hist = {}
    nontriv = set()
    for (k, failing), mc in zip(keys, mcases):
        c = cases[k]
        tag = "%s n=%d %s" % (c["kind"], c["n"], c["pos"])
        if "opctx" in c:
            tag = "opctx " + " ".join(x if isinstance(x, str) else "".join(x[0]) + x[1][0] + (x[1][1] if x[1][0] in "WB" else "") for x in c["opctx"][0])
        elif "shape" in c:
            sh = c["shape"]
            tag = "shape %s %s %s %s" % (sh["kind"], sh["style"], CALLEES[sh["callee"]][2], "+".join(a[0] for a in sh["args"]) or "noargs")
        hist[tag] = hist.get(tag, 0) + 1
        if status[k] != "ok":
            impl_v.append("COMPILE-ERROR")
            if not failing:
                cls = "other"
                if c["kind"] == "?" and c["n"] >= 2:
                    cls = "quest-%d-values" % c["n"]
                elif c["kind"] == "?" and c["pos"] == "ifcond":
                    cls = "quest-in-if-condition"
                elif c["kind"] == "?" and c["pos"] == "stmt" and c["n"] == 1 and status[k].startswith("go-build-error"):
                    cls = "quest-value-discarded"
                key = "use:%s:%s" % (cls, c["pos"]) if cls != "other" else "use:%s:%d:%s" % (KINDS[c["kind"]], c["n"], c["pos"])
                ctx.fail(key, "`%s` with %d value(s) at position %s is rejected by the toolchain: %s" % (c["kind"], c["n"], c["pos"], status[k][:200]),
                         {"case": c, "source": sources[k], "status": status[k]})
            continue
        g = got.get((k, failing))
        if g is None:
            impl_v.append("MISSING")
            continue
        impl_v.append("%s\t%s" % g[:2])
        nontriv.add(mc)
        tr = g[1][len("trace=["):-1].split(" ") if g[1] != "trace=[]" else []
        # "wrapped with its source frame": the frame names the file and the line where the wrapped expression starts
        if g[0].endswith("E/1"):
            if "shape" in c:
                off = shape_frame_line(c["shape"], failing)
            else:
                off = next((i for i, ln in enumerate(sources[k].splitlines()) if re.search(r"\bf[012b]\(\)", ln)), None)
            want_frame = "frame=main.xgo:%d" % (lines[k][0] + off) if off is not None else None
            if want_frame is not None and g[2] != want_frame:
                ctx.fail("frame:" + vlib.sha(sources[k]), "the error's source frame is %s, the wrapped expression starts at %s in:\n%s" % (g[2], want_frame, sources[k]),
                         {"source": sources[k], "first_line_of_function": lines[k][0], "impl": list(g)})
        if "opctx" in c:
            sq, t, ty = c["opctx"]
            want, wtr = opctx_expected(t, ty, failing)
            if g[0] != want or tr != wtr:
                ctx.fail("opctx:" + vlib.sha(seq_text(sq)) + (":err" if failing else ":nil"),
                         "`x := %s` (wrapped calls %s): got %s %s, documented grouping %s gives %s [%s]"
                         % (seq_text(sq), "fail" if failing else "succeed", g[0], g[1], tree_model(t), want, " ".join(wtr)),
                         {"expr": seq_text(sq), "grouping": tree_model(t), "failing": failing, "source": sources[k], "impl": list(g)})
            continue
        if "shape" in c:
            want, wtr = shape_expected(c["shape"], failing)
            if g[0] != want or tr != wtr:
                ctx.fail("shape:" + vlib.sha(c["body"]) + (":err" if failing else ":nil"),
                         "wrapped call `%s` (wrapped call %s): got %s %s, documented %s [%s] (the callee logs id:number-of-arguments:values)"
                         % (c["body"].splitlines()[4].strip(), "fails" if failing else "succeeds", g[0], g[1], want, " ".join(wtr)),
                         {"shape": c["shape"], "failing": failing, "source": sources[k], "impl": list(g)})
            continue
        want, traces = expected(c["kind"], c["n"], c["pos"], failing)
        if g[0] != want or tr not in traces or tr.count("1:") != 1:
            ctx.fail("use:%s:%d:%s:%s" % (KINDS[c["kind"]], c["n"], c["pos"], "err" if failing else "nil"),
                     "`%s` with %d value(s) at %s, wrapped call %s: got %s %s, documented %s %s"
                     % (c["kind"], c["n"], c["pos"], "fails" if failing else "succeeds", g[0], g[1], want, traces[0]),
                     {"case": c, "failing": failing, "source": sources[k], "impl": list(g)})
    ctx.diff_lines("eval(case_prog)~compiled program", mcases, "\n".join(impl_v), "\n".join(mres))
    ctx.cover(evaluations=len(mcases), distinct_nontrivial=len(nontriv),
              samples=[{"case": mcases[i], "source": sources[keys[i][0]], "impl": impl_v[i], "model": mres[i]} for i in (3, 10, 25, len(mcases) - 1)],
              rule="exhaustive grid {!,?,?:} x {0,1,2} values x {stmt,define,assign,arg,nested,ifcond} restricted to well-typed uses (%d shapes) "
                   "+ %d seeded repeats; call shapes: %d fixed + %d seeded (parenthesised / command style `f! a, b` / bare `f!`, variadic ...any and ...int "
                   "callees with and without `xs...`, two-parameter callee, methods obj.m / obj.e, zero arguments, nested f1()! / f1()?:42 and probe calls as "
                   "arguments; callees log the number and values of the arguments they receive); operator contexts: %d fixed + %d seeded (`x := <flat expression>` "
                   "with f1()! / f1()? / f1()?:d / fb()... before and after one operator of every precedence level (* / %% << >> & &^ + - | ^ == != < <= > >= && ||), "
                   "unary - and !, two operators around the call; rendered without parentheses, the documented grouping computed by precedence climbing); each run with the wrapped call succeeding and failing, in ONE compiled program; "
                   "non-trivial = distinct (shape, outcome) that compiled and ran" % (len(set(json.dumps(c) for c in cases[:nplain])), nplain - len(set(json.dumps(c) for c in cases[:nplain])), len(fixed_shapes()), len(shapes) - len(fixed_shapes()), len(fixed_opctx()), len(octx) - len(fixed_opctx())),
              exhaustive=True, shape_histogram=hist)
    ctx.assume("errors.NewFrame(err, ...) wraps: errors.Unwrap reaches the original error (checked on the implementation by the harness through the Unwrap chain)",
               "the wrapped expression is stable: its evaluation does not depend on compiler-generated names (_gop_err, _gop_ret, _autoGo_N)")
    ctx.trust("modelled, not verified: cl/expr.go compileErrWrapExpr (hand-written lowering model, tied by the differential run), gogen's "
              "NewClosure / CallInlineClosureStart / ReturnErr (outside /repo; modelled as observed, including the forms it rejects), MiniGo rules for Go")
