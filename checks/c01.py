"""C01 — a valid Go program means the same thing when compiled as XGo (cl/compile.go, cl/stmt.go, cl/expr.go).

A  Props/C01.v: MiniGo + lower_go (marker constant, dropped parentheses, split struct field
   groups): lower_go_preserves for every program and fuel; emit_order (declarations in load order)
   is the identity without forward references to package-level variables and changes the
   initialisation order otherwise (refuted witness = known finding var-init-order).
B  K-diff (norm): generated declaration lists (struct types with grouped fields, package-level
   variables, functions referring to earlier AND later variables): the order of the variable
   declarations and the struct field groups in the Go the real compiler writes = emit_order /
   lower_go of the model.
C  direct oracle (the behavioural differential): generated well-typed deterministic Go programs
   are built twice in one temporary module — the source itself, and the Go that cl + gogen write
   for the same source saved as main.xgo — and run: stdout, exit status and panic value must agree.
"""
import json
import os
import shutil
from concurrent.futures import ThreadPoolExecutor

import vlib
from checks import g9gen, g9prog

CLAIM = {
    "level": "other",
    "text": "Kernel theorem in Coq over a MiniGo with structs, loops with labelled break/continue, panic, defer/recover, "
            "os.Exit, package-level initialisers and an output trace: the normalisations cl performs on plain Go (marker "
            "constant, dropped parentheses, split field groups) preserve the observable behaviour for all programs and fuels; "
            "emission of declarations in load order is harmless exactly when no function refers to a later package-level "
            "variable, and is shown to change the initialisation order otherwise. The declaration-order and field-splitting "
            "models are compared with the real compiler on every run. The rest is explored: generated typed Go programs are "
            "built as Go and as XGo (in-process cl + gogen WriteTo, then `go build`) and run; outputs, exit codes and panic "
            "values are compared.",
    "note": "Modelled, not verified: the three normalisations and the load-order emission. Explored only: everything else cl and "
            "gogen do with Go code, on the generated subset (ints, strings, bools, slices, sorted maps, structs, methods, closures, "
            "defer/recover and defer order, expression switches (tagged/tagless, init, default anywhere, fallthrough from case and default), "
            "type switches, select with default on buffered channels, labelled break/continue/goto, while/forever loops, range forms, "
            "closures capturing loop variables, method values and expressions, multiple assignment, shadowing, iota, arrays and pointers, "
            "variadic calls, package-level variables, exit codes, run-time and explicit panics). Not generated: generics, goroutines, "
            "println/print, `$` in literals, floats, embedding, non-gofmt spacing, functions referring to package-level variables declared later (known finding).",
}

VAR_INIT_ORDER = '''package main

import "fmt"

func tr(s string) int {
	fmt.Println("init", s)
	return len(s)
}

func f() int {
	return b
}

var a = tr("a")
var b = tr("b")

func main() {
	fmt.Println(a, b, f())
}
'''

DET_PROGRAMS = {
    # the known finding: a function declared before `var a`, `var b` refers to b -> b is emitted (and initialised) first
    "witness:var-init-order": VAR_INIT_ORDER,
    "det:init-funcs-and-vars": '''package main

import "fmt"

func tr(s string) int {
	fmt.Println("init", s)
	return len(s)
}

var a = tr("a")
var b, c = tr("b"), tr("cc")
var d = a + c

func init() {
	fmt.Println("init1", a, b, c, d)
}

type T struct {
	x, y int
	z    string
}

func (t T) String() string {
	return fmt.Sprint("T<", t.x, t.y, t.z, ">")
}

func init() {
	fmt.Println("init2")
}

func main() {
	defer fmt.Println("deferred 1")
	defer func() {
		r := recover()
		fmt.Println("recovered", r)
		panic(fmt.Sprint("again ", r))
	}()
	t := T{1, 2, "z"}
	fmt.Println(t, (a+b)*c, a+b*c, -(a - b), !(a < b) || a == b && c > 1)
	var arr [3]int
	idx := 5
	fmt.Println(arr[idx%3])
	panic(fmt.Errorf("boom %d", d))
}
''',
    "det:closures-and-shadowing": '''package main

import (
	"fmt"
	"os"
	"sort"
	"strings"
)

type acc struct {
	n     int
	items []string
}

func (a *acc) add(s string) *acc {
	a.n++
	a.items = append(a.items, s)
	return a
}

func counter() func() int {
	c := 0
	return func() int {
		c++
		return c
	}
}

func divmod(a, b int) (q, r int, err error) {
	defer func() {
		if e := recover(); e != nil {
			err = fmt.Errorf("recovered: %v", e)
		}
	}()
	q = a / b
	r = a % b
	return
}

func main() {
	next := counter()
	x := 1
	{
		x := x + 1
		x++
		fmt.Println("inner", x, next())
	}
	fmt.Println("outer", x, next())
	a := &acc{}
	a.add("b").add("a").add("c")
	sort.Strings(a.items)
	fmt.Println(a.n, strings.Join(a.items, ","))
	m := map[string][]int{"k": {1, 2}, "j": nil}
	keys := make([]string, 0)
	for k := range m {
		keys = append(keys, k)
	}
	sort.Strings(keys)
	for _, k := range keys {
		fmt.Println(k, len(m[k]), m[k])
	}
	fmt.Println(divmod(7, 2))
	fmt.Println(divmod(7, 0))
outer:
	for i := 0; i < 3; i++ {
		for j := 0; j < 3; j++ {
			switch {
			case j == 1:
				continue outer
			case i == 2:
				break outer
			}
			fmt.Println(i, j)
		}
	}
	var iface interface{} = a.n
	switch v := iface.(type) {
	case string:
		fmt.Println("string", v)
	case int:
		fmt.Println("int", v+1)
	}
	os.Exit(a.n)
}
''',
}


def decl_list(rng):
    """random declaration list for the norm K-diff -> (go source, model line)"""
    nstruct = rng.below(3)
    nvar = 1 + rng.below(5)
    nfun = 1 + rng.below(4)
    decls = []
    for t in range(1, nstruct + 1):
        groups, k = [], 1
        for _ in range(1 + rng.below(3)):
            g = []
            for _ in range(1 + rng.below(3)):
                g.append(k)
                k += 1
            groups.append(g)
        decls.append(("S", t, groups))
    vs = list(range(10, 10 + nvar))
    for v in vs:
        decls.append(("V", v, None))
    for f in range(1, nfun + 1):
        refs = []
        for _ in range(rng.below(4)):
            c = vs[rng.below(len(vs))]
            if c not in refs:
                refs.append(c)
        decls.append(("F", 100 + f, refs))
    # shuffle the declarations (functions may come before the variables they use)
    for i in range(len(decls) - 1, 0, -1):
        j = rng.below(i + 1)
        decls[i], decls[j] = decls[j], decls[i]
    src = ['package main\n\nimport "fmt"\n\nfunc tr(s string) int {\n\tfmt.Println("init", s)\n\treturn len(s)\n}\n']
    toks = []
    for kind, k, arg in decls:
        if kind == "S":
            src.append("type T%d struct {\n%s}\n" % (k, "".join("\t%s int\n" % ", ".join("f%d" % f for f in g) for g in arg)))
            toks.append("S%d:%s" % (k, ",".join(".".join(str(f) for f in g) for g in arg)))
        elif kind == "V":
            src.append('var v%d = tr("v%d")\n' % (k, k))
            toks.append("V%d" % k)
        else:
            body = " + ".join("v%d" % r for r in arg) or "0"
            src.append("func f%d() int {\n\treturn %s\n}\n" % (k, body))
            toks.append("F%d:%s" % (k, ".".join(str(r) for r in arg)))
    calls = ", ".join(["f%d()" % k for kind, k, _ in decls if kind == "F"] + ["v%d" % v for v in vs] +
                      ["T%d{}" % k for kind, k, _ in decls if kind == "S"])
    src.append("func main() {\n\tfmt.Println(%s)\n}\n" % calls)
    toks.append("F0:")
    return "\n".join(src), " ".join(toks)


def run_binary(ctx, path):
    """-> (exit code, stdout, panic/fatal header lines of stderr)"""
    d = path + ".run"
    os.makedirs(d, exist_ok=True)
    runsh = os.path.join(ctx.scratch, "run.sh")
    if not os.path.exists(runsh):
        open(runsh, "w").write('"$1" > out.txt 2> err.txt\necho $? > rc.txt\n')
    rc, out = ctx.run(["sh", runsh, path], cwd=d, timeout=30, mem_kb=4000000)
    try:
        code = open(os.path.join(d, "rc.txt")).read().strip()
        stdout = open(os.path.join(d, "out.txt"), errors="replace").read()
        err = open(os.path.join(d, "err.txt"), errors="replace").read()
    except Exception as e:
        return "norun", str(e), ""
    head = []
    for l in err.splitlines():
        if l.startswith("goroutine ") or l.startswith("exit status"):
            break
        head.append(l)
    return code, stdout, "\n".join(head).strip()


def run(ctx):
    ctx.level = CLAIM["level"]
    ctx.prove("C01")
    model = ctx.model("c01")
    impl = ctx.harness("c01")
    exports = g9gen.export_table(ctx, vlib)
    ctx.log("built")

    # ---------------- B: norm K-diff
    nn = ctx.n(300, 10000)
    fixed = [(VAR_INIT_ORDER.replace('var a = tr("a")', 'var v10 = tr("v10")').replace('var b = tr("b")', 'var v11 = tr("v11")')
              .replace("return b", "return v11").replace("func f() int", "func f101() int").replace("fmt.Println(a, b, f())", "fmt.Println(v10, v11, f101())"),
              "F101:11 V10 V11 F0:")]
    pairs = fixed + [decl_list(ctx.rng) for _ in range(nn)]
    lines = [json.dumps({"id": "n%d" % i, "src": s}) for i, (s, _) in enumerate(pairs)]
    rc1, out1 = ctx.run([impl, "-exports", exports, "-mode", "norm"], input="\n".join(lines) + "\n")
    rc2, out2 = ctx.run([model], input="\n".join(m for _, m in pairs) + "\n")
    if rc1 != 0 or rc2 != 0:
        ctx.broken("correspondence(c01:run)", "impl rc=%d model rc=%d %s %s" % (rc1, rc2, out1[-300:], out2[-300:]))
        return
    proj = [l.split("\t", 1)[1] if "\t" in l else l for l in out1.splitlines()]
    ctx.diff_lines("emit_order,split_fields~cl(declaration order, struct fields)", [m for _, m in pairs], "\n".join(proj), out2)
    reordered = sum(1 for (s, m), p in zip(pairs, proj)
                    if p.startswith("vars=") and p.split(";")[0][5:] != ",".join(t[1:] for t in m.split() if t.startswith("V")))
    ctx.log("norm: %d declaration lists (%d reordered by load order)" % (len(pairs), reordered))

    # ---------------- C: build and run both
    progs = []      # (id, src, features)
    for pid, src in DET_PROGRAMS.items():
        progs.append((pid, src, {}))
    # exhaustive small scope: every expression switch with 1-3 cases, default at every position or absent,
    # every fallthrough subset, tagged and tagless, run on every selecting value
    msrc, swspecs = g9prog.switch_matrix_program()
    nsw = len(swspecs)
    progs.append(("det:switch-matrix", msrc, {}))
    # every composite-literal form over structs whose field names differ only in the case of the first letter
    progs.append(("det:struct-literals", g9prog.struct_literal_program(), {}))
    # const groups with iota, bare `_` lines, typed/untyped, used as array lengths / shifts / case labels / literal indices
    progs.append(("det:const-iota", g9prog.const_iota_program(), {}))
    # every statement-kind template once, whatever the seed
    ksrc, kfeat = g9prog.statement_kinds_program(vlib.SplitMix(0xC01))
    progs.append(("det:statement-kinds", ksrc, kfeat))
    nprog = ctx.n(30, 200)
    feats = dict(kfeat)
    for i in range(nprog):
        src, feat = g9prog.go_program(ctx.rng)
        for k, v in feat.items():
            feats[k] = feats.get(k, 0) + v
        progs.append(("gen:%d" % i, src, feat))
    outdir = os.path.join(ctx.scratch, "c01")
    os.makedirs(outdir)
    ids = {}
    plines = []
    for k, (pid, src, _) in enumerate(progs):
        ids["p%d" % k] = pid
        plines.append(json.dumps({"id": "p%d" % k, "src": src}))
    rc, out = ctx.run([impl, "-exports", exports, "-mode", "emit", "-outdir", outdir], input="\n".join(plines) + "\n")
    if rc != 0:
        ctx.broken("differential(c01:emit)", "rc=%d %s" % (rc, out[-300:]))
        return
    clv = {}
    for l in out.splitlines():
        f = l.split("\t")
        if len(f) >= 2:
            clv[f[0]] = (f[1], f[2] if len(f) > 2 else "")
    open(os.path.join(outdir, "go.mod"), "w").write("module c01run\n\ngo 1.18\n")
    os.makedirs(os.path.join(outdir, "bin"))
    t_build = ctx.run("go build -ldflags='-s -w' -o bin/ ./... 2>&1", cwd=outdir, timeout=1500, mem_kb=24000000)
    ctx.log("go build of %d programs x 2: rc=%d" % (len(progs), t_build[0]))
    build_out = t_build[1]
    names = ["p%d" % k for k in range(len(progs))]

    def both(n):
        a = os.path.join(outdir, "bin", n + "_go")
        b = os.path.join(outdir, "bin", n + "_xgo")
        ra = run_binary(ctx, a) if os.path.exists(a) else ("nobinary", "", "")
        rb = run_binary(ctx, b) if os.path.exists(b) else ("nobinary", "", "")
        return n, ra, rb
    with ThreadPoolExecutor(max_workers=8) as ex:
        results = list(ex.map(both, names))
    # K-diff of the switch semantics: every line "<function> <value> <markers>" printed by the switch matrix, built as
    # Go and built as XGo, against the extracted switch_exec
    sw_lines, sw_expect_keys = [], []
    for (fn, ncase, clauses) in swspecs:
        enc = " ".join(("d:99:%d" % f) if kind == "default" else ("c%d:%d:%d" % (v, v, f)) for kind, v, f in clauses)
        for x in range(ncase + 1):
            sw_lines.append("SW %d %s" % (x, enc))
            sw_expect_keys.append("%d %d" % (fn, x))
    rcm, swout = ctx.run([model], input="\n".join(sw_lines) + "\n")
    sw_model = []
    for key, l in zip(sw_expect_keys, swout.splitlines()):
        marks = [("d" if m == "99" else "c" + m) for m in l.split()[1:]]
        sw_model.append((key + " " + "".join(m + " " for m in marks)).rstrip())
    for n, ra, rb in results:
        if ids[n] == "det:switch-matrix":
            for who, r in (("go", ra), ("xgo", rb)):
                got = [l.rstrip() for l in r[1].splitlines()]
                ctx.diff_lines("switch_exec~%s build of the switch matrix" % who, sw_expect_keys, "\n".join(got), "\n".join(sw_model))
    outcome = {}
    nontrivial = set()
    samples = []
    for n, ra, rb in results:
        pid = ids[n]
        src = progs[int(n[1:])][1]
        cv, detail = clv.get(n, ("missing", ""))
        if cv == "invalid-go":
            # go/types rejects the generated SOURCE: a generator bug, the program is not used (counted, reported)
            outcome["discarded:not-valid-go"] = outcome.get("discarded:not-valid-go", 0) + 1
            ctx.notes.setdefault("discarded_programs", []).append({"id": pid, "go_types": detail[:200]})
            continue
        key = pid.split(":", 1)[1] if pid.startswith("witness:") else "src:" + vlib.sha(src)
        kind = "same"
        if cv != "ok" and ra[0] == "nobinary":
            kind = "discarded:go-build-fails"    # go/types accepted it but `go build` does not: not used
            ctx.notes.setdefault("discarded_programs", []).append({"id": pid, "go_build": build_out[:300]})
        elif cv != "ok":
            kind = "xgo-compile-" + cv
            ctx.fail(key, "%s: valid Go program rejected when compiled as XGo (%s): %s" % (pid, cv, detail[:300]), {"go_source": src, "cl": detail})
        elif ra[0] == "nobinary":
            kind = "discarded:go-build-fails"  # the source itself does not build with the Go toolchain: not a valid Go program
            ctx.notes.setdefault("discarded_programs", []).append({"id": pid, "go_build": build_out[:300]})
        elif ra[0] == "nobinary" or rb[0] == "nobinary":
            kind = "build-differs"
            ctx.fail(key, "%s: builds as %s but not as %s: %s" % (pid, "Go" if rb[0] == "nobinary" else "XGo", "XGo" if rb[0] == "nobinary" else "Go", build_out[:500]),
                     {"go_source": src, "go_build_output": build_out[:3000]})
        elif ra[0] == "norun" and rb[0] == "norun":
            kind = "both-exceed-30s"      # neither binary finished in 30 s: nothing to compare (counted, not a failure)
        elif ra[0] == "norun" or rb[0] == "norun":
            kind = "behaviour-differs"
            ctx.fail(key, "%s: one of the two binaries did not finish within 30 s (Go: %s, XGo: %s)" % (pid, ra[0], rb[0]), {"go_source": src})
        elif ra != rb:
            kind = "behaviour-differs"
            what = "exit %s vs %s" % (ra[0], rb[0]) if ra[0] != rb[0] else ("stdout differs" if ra[1] != rb[1] else "panic value differs")
            la, lb = ra[1].splitlines(), rb[1].splitlines()
            for k in range(max(len(la), len(lb))):
                if k >= len(la) or k >= len(lb) or la[k] != lb[k]:
                    what += "; first difference at output line %d: Go %r, XGo %r" % (k + 1, la[k] if k < len(la) else None, lb[k] if k < len(lb) else None)
                    break
            ctx.fail(key, "%s: built as Go and as XGo the program behaves differently (%s)" % (pid, what),
                     {"go_source": src, "as_go": {"exit": ra[0], "stdout": ra[1][:2000], "stderr_head": ra[2][:500]},
                      "as_xgo": {"exit": rb[0], "stdout": rb[1][:2000], "stderr_head": rb[2][:500]}})
        else:
            ek = "exit" + ra[0] + ("+panic" if ra[2].startswith("panic") else "")
            kind = "same:" + ek
            if len(ra[1].splitlines()) >= 3:
                nontrivial.add(vlib.sha(src))
        outcome[kind] = outcome.get(kind, 0) + 1
        if len(samples) < 3 and pid.startswith("gen:"):
            samples.append({"id": pid, "lines_of_source": len(src.splitlines()), "exit": ra[0], "stdout_lines": len(ra[1].splitlines()), "stderr_head": ra[2][:80]})
    ctx.cover(evaluations=len(pairs) + len(progs) + 2 * len(sw_model), distinct_nontrivial=len(set(m for _, m in pairs)) + len(nontrivial),
              samples=[{"decls": pairs[1][1], "impl": proj[1]}] + samples,
              rule="norm K-diff: %d declaration lists (1 fixed + seeded: 0-2 struct types with grouped fields, 1-5 package-level variables, "
                   "1-4 functions referring to arbitrary variables, shuffled; %d of them are reordered by load order); behavioural "
                   "differential: %d programs (every generated source is first checked with go/types and discarded if it is not valid Go; %d deterministic: the "
                   "witness of the known finding, two hand-written ones, the struct-literal matrix (keyed / unkeyed / elided / pointer / slice / array / map "
                   "key and value / nested / anonymous / package-level literals over structs whose field names differ only in the case of the first letter, "
                   "both declaration orders, embedded structs with promoted fields, all fields printed), the const/iota program (bare `_` lines, skipped and "
                   "multi-name lines, typed/untyped, used as array lengths, shifts, case labels, literal indices), the exhaustive switch matrix "
                   "(110 switch functions: 1-3 cases x default first/middle/last/absent x every fallthrough subset x tagged/tagless, each run on "
                   "every selecting value) and one program with every statement-kind template; + %d seeded typed programs, %d-%d "
                   "source lines; statement kinds: see statement_kind_histogram) each built as Go and as XGo and run; non-trivial = distinct program with >= 3 output lines and identical "
                   "behaviour. The generator does not emit functions that refer to package-level variables declared later (known finding "
                   "var-init-order), nor the constructs listed in the CLAIM note."
                   % (len(pairs), reordered, len(progs), len(DET_PROGRAMS) + 4, nprog,
                      min(len(p[1].splitlines()) for p in progs), max(len(p[1].splitlines()) for p in progs)),
              explanation="kernel theorem on MiniGo normalisations + K-diff of declaration order / field splitting + build-and-run differential",
              outcome_histogram=outcome, feature_histogram=feats, programs=len(progs),
              statement_kind_histogram={k: v for k, v in sorted(feats.items())
                                        if k.startswith(("stmt:", "switch", "fallthrough", "label", "for", "range", "if", "defer", "closure", "method",
                                                         "assign", "op-assign", "incdec", "decl", "map-", "field-", "struct", "call", "exit", "uncaught",
                                                         "runtime", "package-var", "sorted-map"))},
              switch_matrix_functions=nsw, switch_semantics_lines_compared_per_build=len(sw_model))
    ctx.assume("the Go toolchain (go1.23.5) and the OS run both binaries deterministically; stderr is compared up to the goroutine trace",
               "//line comments are switched off (Config.NoFileLine) so that panic traces do not differ by file name")
    ctx.trust("modelled, not verified: marker constant, parenthesis dropping, struct field splitting, load-order emission; explored only: "
              "the rest of cl/gogen on the generated Go subset")
