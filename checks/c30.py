"""C30 — TPL result helpers fold lists left to right (tpl/tpl.go).

A  Props/C30.v : C30_list_flatten, C30_list_op_in_order, C30_range_op_in_order,
                 C30_binary_op_fold_left(_pure), C30_binary_op_r_nested, C30_binary_op_r_flat,
                 C30_binary_expr_fold_left, C30_binary_expr_r_nested, C30_calc_correct(_struct)
B  extracted helpers  vs  tpl.List/ListOp/RangeOp/BinaryOp/BinaryExpr on generated []any values:
   well-shaped results of R % sep (nested to depth 3), exhaustive small malformed shapes, random
   malformed shapes (panics compared as panics; RangeOp's partial call trace compared);
   extracted calculator vs a calculator grammar compiled with tpl.New + BinaryOp(true, …)
C  the property itself: helper output == independently computed left fold / flattening (python);
   calculator value == independent precedence-climbing evaluator (Go), also with parentheses
   and unary minus
"""
import itertools

from vlib import sha

CLAIM = {
    "level": "proof",
    "text": "Coq theorems over a line-by-line model of List, ListOp, RangeOp, BinaryOpNR/R and BinaryExprNR/R (type assertions "
            "and indexing as explicit Panic): on every result of R % sep the helpers return/visit the R results in source order, "
            "BinaryOp/BinaryExpr are the left fold with the separators in order, the recursive variants fold nested list "
            "results of any depth operand-first (= nx_eval), and the README calculator grammar folded with BinaryOp(true, …) "
            "equals a precedence-climbing reference evaluator for every operator/number sequence. The model is tied to the "
            "code by a differential run of the extracted helpers against the real ones (symbolic callbacks make the fold order "
            "and the call order observable), including malformed shapes.",
    "note": "Trusted: Coq kernel, extraction, harness. Callbacks are pure/symbolic in the model (fncall's panic-to-error wrapping "
            "is not modelled); which panic a malformed input raises is not distinguished. The link 'the matcher produces the "
            "mk_list shape for R % sep' is C29's model. calc division by zero is defined as 0 in the test callback.",
}


# ---- python reference (independent of both sides) ----
def show(r):
    if r is None:
        return "N"
    if isinstance(r, list):
        return "[" + "".join(" " + show(x) for x in r) + " ]"
    if isinstance(r, tuple):
        if r[0] == "A":
            return "(A %d %s %s )" % (r[1], show(r[2]), show(r[3]))
        return "%s%d" % r
    raise ValueError(r)


def mk_list(r0, pairs):
    return [r0, [[s, r] for s, r in pairs]]


def fold_r(x):
    """BinaryOp(true): x is a nested mk_list structure or a leaf."""
    if not isinstance(x, list):
        return x
    acc = fold_r(x[0])
    for s, r in x[1]:
        acc = ("A", s[1], acc, fold_r(r))
    return acc


def gen_leaf(rng, exprs):
    if exprs:
        return ("V", rng.below(50))
    k = rng.below(6)
    if k < 3:
        return ("V", rng.below(50))
    if k < 4:
        return None
    if k < 5:
        return ("T", 100 + rng.below(20))
    return ("A", 200 + rng.below(5), ("V", 1), ("V", 2))


def gen_nested(rng, depth, ctr, exprs=False):
    """a nested list result whose separators are tokens with fresh indices"""
    n = rng.below(4)
    if depth > 0 and rng.below(3) == 0:
        x0 = gen_nested(rng, depth - 1, ctr, exprs)
    else:
        x0 = gen_leaf(rng, exprs)
    pairs = []
    for _ in range(n):
        ctr[0] += 1
        s = ("T", ctr[0])
        if depth > 0 and rng.below(3) == 0:
            r = gen_nested(rng, depth - 1, ctr, exprs)
        else:
            r = gen_leaf(rng, exprs)
        pairs.append((s, r))
    return mk_list(x0, pairs)


def gen_any(rng, depth):
    k = rng.below(8)
    if depth == 0 or k < 3:
        return [("V", rng.below(9)), None, ("T", rng.below(9)), ("V", 3)][rng.below(4)]
    return [gen_any(rng, depth - 1) for _ in range(rng.below(4))]


def malform(rng, x):
    """break one place of a well-shaped nested list"""
    x = [x[0], [list(p) for p in x[1]]]
    k = rng.below(7)
    if k == 0:
        return x[:1]
    if k == 1:
        return [x[0], ("V", 7)]
    if k == 2 and x[1]:
        x[1][rng.below(len(x[1]))] = ("T", 9)
    elif k == 3 and x[1]:
        x[1][rng.below(len(x[1]))] = [("T", 9)]
    elif k == 4 and x[1]:
        x[1][rng.below(len(x[1]))][0] = ("V", 5)
    elif k == 5 and x[1]:
        x[1][rng.below(len(x[1]))][0] = None
    else:
        x[1].append([])
    return x


SMALL = [None, ("T", 0), ("V", 1), [], [("T", 1)], [("T", 1), ("V", 2)], [[("T", 1), ("V", 2)]], [("V", 1), []],
         [("V", 1), [[("T", 1), ("V", 2)]]]]
HELPERS = ["list", "listop", "rangeop", "bopnr", "bopr", "bexprnr", "bexprr"]


def run(ctx):
    ctx.prove("C30")
    model = ctx.model("c30")
    impl = ctx.harness("c30")
    rng = ctx.rng
    cases = []  # (category, helper, payload, expected)

    # well-shaped flat results: every helper, expectation from the python reference
    for _ in range(ctx.n(1200, 40000)):
        ctr = [0]
        exprs = rng.below(2) == 0
        x = gen_nested(rng, 0, ctr, exprs)
        r0, pairs = x[0], x[1]
        flat = [r0] + [p[1] for p in pairs]
        cases.append(("flat", "list", show(x), "OK " + show(flat)))
        cases.append(("flat", "listop", show(x), "OK " + show(flat)))
        cases.append(("flat", "rangeop", show(x), "TRACE [" + " ".join(show(v) for v in flat) + "] ok"))
        acc = r0
        for s, r in pairs:
            acc = ("A", s[1], acc, r)
        cases.append(("flat", "bopnr", show(x), "OK " + show(acc)))
        cases.append(("flat", "bopr", show(x), "OK " + show(acc)))
        if exprs:
            cases.append(("flat", "bexprnr", show(x), "OK " + show(acc)))
            cases.append(("flat", "bexprr", show(x), "OK " + show(acc)))
    # nested results
    for _ in range(ctx.n(1500, 60000)):
        ctr = [0]
        exprs = rng.below(2) == 0
        x = gen_nested(rng, 3, ctr, exprs)
        cases.append(("nested", "bopr", show(x), "OK " + show(fold_r(x))))
        if exprs:
            cases.append(("nested", "bexprr", show(x), "OK " + show(fold_r(x))))
        cases.append(("nested", "list", show(x), "OK " + show([x[0]] + [p[1] for p in x[1]])))
        cases.append(("nested", "bopnr", show(x), "-"))
    nwell = len(cases)
    # exhaustive small (mostly malformed) shapes: in = [a] , [a b], [a b c]
    for h in HELPERS:
        for n in (0, 1, 2, 3):
            for t in itertools.product(SMALL, repeat=n):
                if n == 3 and t[2] is not None:
                    continue
                cases.append(("small-exhaustive", h, show(list(t)), "-"))
    # random malformed
    for _ in range(ctx.n(1500, 60000)):
        ctr = [0]
        h = rng.choice(HELPERS)
        if rng.below(2) == 0:
            x = malform(rng, gen_nested(rng, 2, ctr, h.startswith("bexpr")))
        else:
            x = [gen_any(rng, 3) for _ in range(rng.below(4))]
        cases.append(("malformed", h, show(x), "-"))
    # calculator
    OPS = ["+", "-", "*", "/"]
    ncalc0 = len(cases)
    for n in (0, 1, 2):
        for ops in itertools.product(OPS, repeat=n):
            for nums in itertools.product([0, 2, 7], repeat=n + 1):
                ws = [str(nums[0])]
                for o, m in zip(ops, nums[1:]):
                    ws += [o, str(m)]
                cases.append(("calc-exhaustive", "calc", " ".join(ws), "-"))
    for _ in range(ctx.n(1500, 50000)):
        n = rng.below(9)
        ws = [str(rng.below(10))]
        for _ in range(n):
            ws += [rng.choice(OPS), str(rng.below(10))]
        cases.append(("calc-random", "calc", " ".join(ws), "-"))

    def rich(d):
        k = rng.below(6)
        if d == 0 or k < 2:
            return [str(rng.below(10))]
        if k == 2:
            return ["("] + rich_e(d - 1) + [")"]
        if k == 3:
            return ["-"] + rich(d - 1)
        return [str(rng.below(10))]

    def rich_e(d):
        ws = rich(d)
        for _ in range(rng.below(4)):
            ws += [rng.choice(OPS)] + rich(d)
        return ws
    for _ in range(ctx.n(800, 30000)):
        cases.append(("calc-rich", "calcx", " ".join(rich_e(3)), "-"))

    inp = "".join("%s\t%s\t%s\n" % (h, p, w) for _, h, p, w in cases)
    rc1, out1 = ctx.run([impl], input=inp)
    rc2, out2 = ctx.run([model], input=inp)
    if rc1 != 0 or rc2 != 0:
        ctx.broken("correspondence(c30:run)", "impl rc=%d model rc=%d %s %s" % (rc1, rc2, out1[-300:], out2[-300:]))
        return
    rows = [l.split("\t") for l in out1.split("\n")[:len(cases)]]
    mlines = out2.split("\n")[:len(cases)]
    if len(rows) != len(cases) or any(len(r) != 2 for r in rows) or len(mlines) != len(cases):
        ctx.broken("correspondence(c30:output)", "unexpected output shape")
        return
    # calcx is oracle-only (the model has no parenthesised operands): excluded from the diff
    idx = [i for i, c in enumerate(cases) if c[1] != "calcx"]
    ctx.diff_lines("helpers~tpl.go", ["%s %s" % (cases[i][1], cases[i][2]) for i in idx],
                   "\n".join(rows[i][0] for i in idx), "\n".join(mlines[i] for i in idx))
    for (cat, h, p, w), r in zip(cases, rows):
        if r[1] != "ok":
            ctx.fail("case:" + sha(h + "\t" + p), "%s(%s): %s -> %s (expected %s)" % (h, p[:200], r[1], r[0][:200], w[:200]),
                     {"helper": h, "input": p, "expected": w, "impl": r[0], "verdict": r[1], "category": cat})
    hist, outcome = {}, {}
    for (cat, h, _, _), r in zip(cases, rows):
        hist[cat + ":" + h] = hist.get(cat + ":" + h, 0) + 1
        o = r[0].split(" ")[0] + ("-panic" if r[0].endswith("] panic") else "")
        outcome[o] = outcome.get(o, 0) + 1
    nontriv = len(set((h, p) for _, h, p, _ in cases if p.count("[") >= 3 or p.count(" ") >= 4))
    ctx.cover(evaluations=len(cases), distinct_nontrivial=nontriv,
              samples=[{"helper": cases[i][1], "input": cases[i][2], "impl": rows[i][0][:300]} for i in (3, nwell - 2, nwell + 700, ncalc0 + 900, len(cases) - 3)],
              rule="well-shaped results of R %% sep (flat and nested to depth 3, 0-3 pairs per level, leaves: values, nil, tokens, "
                   "callback values) for all 7 helpers with a python-computed expectation (%d); exhaustive in-slices of length<=3 "
                   "over 9 small shapes; seeded malformed shapes; calculator: all sequences with <=2 operators over {0,2,7} + "
                   "random sequences (<=8 operators, digits) through tpl.New+BinaryOp(true) vs extracted model vs independent "
                   "evaluator; calcx (parentheses, unary minus) is compared with the independent evaluator only. "
                   "non-trivial = distinct case with >=3 lists or >=5 words." % nwell,
              category_histogram=hist, outcome_histogram=outcome)
    ctx.trust("modelled, not verified: tpl/tpl.go List/ListOp/RangeOp/BinaryOpNR/BinaryOpR/BinaryExprNR/BinaryExprR "
              "(hand-written Gallina model, tied by differential run with symbolic callbacks)")
    ctx.assume("callbacks passed to the helpers are pure (the model does not represent fncall's panic-to-error conversion)",
               "the calculator callback defines x/0 = 0 (test code, both sides)")
