"""C16 - the XGo scanner agrees with go/scanner on Go lexemes (scanner/scanner.go vs the
toolchain's go/scanner).

A  Props/C16.v over Model/Scan.v, dialects XGo and Go
B  both models against both real scanners (the Go dialect is tied to the installed go/scanner
   the same way the XGo dialect is tied to /repo): exhaustive short numeric spellings,
   string/char spellings with every escape form, seeded Go-lexeme sequences, a malformed stream
C  the property itself: the real XGo scanner against the real go/scanner (token codes, offsets,
   literals, inserted semicolons, set of error offsets) on every input of B on which the XGo
   scanner takes no extension branch, plus the deterministic set of known divergences
"""
import itertools

from checks import scan_common as sc

CLAIM = {
    "level": "proof",
    "text": "Coq theorems over one model text with a dialect switch (XGo scanner / installed go/scanner): if the XGo run takes no extension "
            "branch and none of the known divergent branches (decidable predicate go_like, evaluated by the model) both dialects return "
            "identical tokens and errors (C16_xgo_eq_go_on_go_lexemes); equal token numbering and keyword lookup; the divergence witnesses "
            "('~', newline after '!' and '...', implicit semicolon around a trailing comment, line numbers above 1<<30). Both dialects are "
            "tied to both real scanners on every run (exhaustive numeric/string spellings, token-level sequences, seeded lexeme "
            "sequences), the real scanners are compared directly, and wherever go_like holds they must be identical.",
    "note": "Trusted: Coq kernel, extraction, harness. 'No extension branch' in the direct comparison is decided from the XGo scanner's own "
            "output (no RAT/UNIT/CSTRING/PYSTRING/?/=>/->/<>/$ token, no '#' comment). Error offsets are compared as sets there (the XGo "
            "scanner reports the errors of a comment it looked ahead through twice); under go_like they must be the same sequence. go_like "
            "is slightly stronger than necessary in two stated places (block comment between two tokens of a line while a semicolon is "
            "pending; comment/illegal character right after '!' or '...'). The dimensions with known divergences are explored by a fixed set.",
}

NUM_ALPHA = [b"0", b"1", b"7", b"9", b"_", b".", b"x", b"b", b"o", b"e", b"p", b"+", b"-", b"i"]
ESC_ATOMS = [b"a", b"\\n", b"\\t", b"\\\\", b"\\'", b'\\"', b"\\x41", b"\\x4", b"\\xg", b"\\u00e9", b"\\u12", b"\\U0001F600",
             b"\\U00110000", b"\\ud800", b"\\777", b"\\101", b"\\400", b"\\8", b"\\0", b"\\q", b"\\", b"\xc3\xa9", b"\xff", b"\n",
             b"\r", b"\x00", b"$", b"'", b'"', b"`"]
EXT_TOKENS = {10, 91, 3, 96, 59, 11, 87, 89, 90}   # RAT UNIT CSTRING PYSTRING QUESTION DRARROW SRARROW BIDIARROW ENV

GO_NUMBERS = [n for n in sc.NUMBERS if not (n[-1:] in b"rmsyw")]
GO_STRINGS = [s for s in sc.STRINGS if not (s[:1] in b"cCp")]
GO_OPS = [o for o in sc.OPERATORS if o not in (b"?", b"=>", b"->", b"<>", b"$", b"~", b"@")]
GO_COMMENTS = [c for c in sc.COMMENTS if not c.startswith(b"#") and b"2000000000" not in c and b"18446744073709551616" not in c]
KW_NOSEMI = {b"if", b"for", b"func", b"go", b"var", b"type", b"map", b"chan", b"range", b"select"}
SEMI_OPS = {b")", b"]", b"}", b"++", b"--"}

# inputs of the dimensions on which the two real scanners are known to differ (DESIGN section 7);
# the same on every run; every one that fails must be listed in known_findings.txt
FINDING_SET = [
    b"~", b"a~b", b"~T",
    b"!\n", b"x!\n", b"!", b"a ! \n b", b"!//c\n",
    b"...\n", b"x...\n", b"...", b"f(a...\n)", b"a... \n",
    b"a//", b"a//c\n", b"a/**/\n", b"a /*c*/\n", b"a/*\n*/b", b"a /*c*/ //d\nb", b"1//\n", b") /* c */\n", b"a/*c*/",
    b"x /*\n\n*/ y", b"return // r\n", b"\"s\"/*\n*/",
    b"//line f:2000000000", b"/*line f:1:2000000000*/x", b"//line f:1073741825\n", b"//line f:1073741824\n",
]


def go_sequence(rng):
    """a sequence of Go lexemes with random separators that stays outside the dimensions of
    FINDING_SET and outside the XGo extensions; returns (bytes, shape)"""
    n = 1 + rng.below(8)
    out = bytearray()
    shape = []
    semi = False
    prev_cls, prev = None, b""
    last_sep = b"\n"
    force_plain_next = False
    for i in range(n):
        classes = ["ident", "number", "string", "operator", "comment", "odd"]
        cl = rng.choice(classes)
        if force_plain_next:
            cl = rng.choice(["ident", "number", "string"])     # a token that sets insertSemi itself
        if cl == "comment" and semi and b"\n" not in last_sep:
            cl = "ident"
        if cl == "ident":
            lx = rng.choice(sc.IDENTS)
        elif cl == "number":
            lx = rng.choice(GO_NUMBERS)
        elif cl == "string":
            lx = rng.choice(GO_STRINGS)
        elif cl == "operator":
            lx = rng.choice(GO_OPS)
            if lx in (b"!", b"...") and i == n - 1:
                lx = b"+"
        elif cl == "comment":
            lx = rng.choice(GO_COMMENTS)
        else:
            lx = rng.choice([o for o in sc.ODD])
        # adjacency hazards when the separator before was empty
        if last_sep == b"" and out:
            glue = False
            if prev_cls in ("number", "ident") and (lx[:1].isalnum() or lx[:1] in (b"_", b".") or lx[0] >= 0x80):
                glue = True      # would merge into one identifier / number / number+unit
            if prev_cls in ("ident", "number", "odd") and lx[:1] == b'"':
                glue = True
            if prev[-1:] in (b"-", b"<", b"=") and lx[:1] == b">":
                glue = True
            if prev[-1:] == b"." and lx[:1] == b".":
                glue = True
            if prev[-1:] == b"/" and lx[:1] in (b"/", b"*"):
                glue = True
            if prev_cls == "number" and prev[-1:] in b"eEpP" and lx[:1] in (b"+", b"-"):
                glue = True      # the sign would be taken into the exponent
            if glue:
                out += b" "
        out += lx
        shape.append(cl[0])
        force_plain_next = cl == "operator" and lx in (b"!", b"...")
        if cl in ("ident",):
            semi = lx not in KW_NOSEMI
        elif cl in ("number", "string"):
            semi = True
        elif cl == "operator":
            semi = lx in SEMI_OPS
        elif cl == "comment":
            semi = False if (not semi or b"\n" in last_sep) else semi
        sep = rng.choice(sc.SEPARATORS)
        if force_plain_next:
            sep = rng.choice([b"", b" "])
        if cl == "comment" and lx.startswith(b"//") and b"\n" not in sep:
            sep = b"\n"
        if b"\n" in sep and not (cl == "comment"):
            semi = False
        out += sep
        prev_cls, prev, last_sep = cl, lx, sep
    return bytes(out), "".join(shape)


def run(ctx):
    ctx.regen(["scantok", "scanconst"])
    sc.gen_notes(ctx)
    ctx.prove("C16")
    R = sc.Runner(ctx)
    # (name, [src], modes, dialects run, how the two real scanners are compared)
    #   "always": they must agree unless the XGo scanner takes an extension branch
    #   "go_like": they must agree wherever the hypothesis of C16_xgo_eq_go_on_go_lexemes holds
    groups = []
    num_alpha = [a for a in NUM_ALPHA if a not in (b"7", b"+")] if ctx.quick else NUM_ALPHA
    nums = [s for s in sc.exhaustive(num_alpha, ctx.n(4, 5)) if s]
    groups.append(("numeric", nums, (True,), "xg", "always"))
    strs = []
    for q in (b'"', b"'", b"`"):
        for k in (0, 1, 2):
            for t in itertools.product(ESC_ATOMS, repeat=k):
                body = b"".join(t)
                strs.append(q + body + q)
                strs.append(q + body)
    groups.append(("string", strs, (True,), "xg", "always"))
    for k, v in sc.boundary_family().items():
        # line directives above 1<<30 are a finding-set dimension: compared where go_like holds
        groups.append(("boundary-" + k, v, (True, False), "xg", "go_like" if k == "line" else "always"))
    seqs, shapes = [], {}
    for _ in range(ctx.n(5000, 200000)):
        s, sh = go_sequence(ctx.rng)
        seqs.append(s)
        k = "lexemes=%d" % len(sh)
        shapes[k] = shapes.get(k, 0) + 1
    groups.append(("go-lexeme-sequence", seqs, (True, False), "g", "always"))
    core = sc.tok_exhaustive(sc.TOK_CORE, ctx.n(5, 6))
    groups.append(("exhaustive-tokens-core", core, (True,), "g", "go_like"))
    wide = sc.tok_exhaustive(sc.TOK_WIDE, 3)
    groups.append(("exhaustive-tokens-wide", wide, (True, False), "g", "go_like"))
    st = [sc.stateful_sequence(ctx.rng, extra=(b"//c\n", b"/*c*/", b"/*\n*/", b"return", b"07", b"0x1p2"))[0] for _ in range(ctx.n(5000, 100000))]
    groups.append(("stateful-sequences", st, (True, False), "g", "go_like"))
    mal = [sc.random_sequence(ctx.rng, malformed=60)[0] for _ in range(ctx.n(3000, 100000))]
    groups.append(("malformed-or-extended", mal, (True, False), "xg", "go_like"))
    groups.append(("finding-set", list(FINDING_SET), (True, False), "g", "always"))

    cases, meta = [], []
    for name, srcs, modes, dialects, how in groups:
        for s in srcs:
            for m in modes:
                for d in dialects:
                    cases.append(sc.case(d, m, s))
                    meta.append((name, how))
    impl, model = R.correspond("scan(XGo)~scanner.Scan & scan(Go)~go/scanner.Scan", cases)
    # the hypothesis of C16_xgo_eq_go_on_go_lexemes, evaluated by the extracted model
    gidx = [i for i, c in enumerate(cases) if c[0] == "g" and meta[i][0] not in ("numeric", "string", "boundary-escape", "boundary-digit")]
    pred = dict(zip(gidx, R.run_pred(["x" + cases[i][1:] for i in gidx])))
    stats = {"compared": 0, "skipped_extension": 0, "skipped_ellipsis_dimension": 0, "go_like": 0, "go_like_compared": 0}
    per_group, gl_group, verd = {}, {}, {}
    for i, c in enumerate(cases):
        if c[0] != "g":
            continue
        name, how = meta[i]
        v = impl[i][1]
        verd[v] = verd.get(v, 0) + 1
        src = None
        g = pred.get(i, (False, False))[0]
        if g:
            stats["go_like"] += 1
            gl_group[name] = gl_group.get(name, 0) + 1
        fail = None
        if g:
            # theorem: equal results, errors included, in the same order
            stats["go_like_compared"] += 1
            if v != "eq":
                fail = "go_like holds in the model but the real scanners differ (%s)" % v
        if how == "always" and fail is None:
            src = sc.src_of(c)
            if v == "ext":
                stats["skipped_extension"] += 1
            elif name in ("numeric", "string") and b"..." in src:
                stats["skipped_ellipsis_dimension"] += 1
            else:
                stats["compared"] += 1
                per_group[name] = per_group.get(name, 0) + 1
                if v not in ("eq", "eqset"):
                    fail = "XGo scanner and go/scanner differ (%s)" % v
        if fail:
            src = src if src is not None else sc.src_of(c)
            mode = c[1]
            ctx.fail(sc.key_of("src", mode.encode() + src), "%s on %r (mode %s)" % (fail, src, mode),
                     {"src_repr": repr(src), "src_hex": src.hex(), "mode": mode, "group": name, "go": impl[i][0][:400], "verdict": v})
    ng = sum(1 for c in cases if c[0] == "g")
    ctx.cover(evaluations=len(cases), distinct_nontrivial=len(set(c[3:] for c in cases)),
              samples=[{"case": cases[k], "impl": impl[k][0][:160], "verdict": impl[k][1]} for k in (41, 2 * len(nums) + 201, len(cases) - 2 * len(FINDING_SET) - 9, len(cases) - 3)],
              rule="exhaustive: %d numeric spellings of <=%d symbols over %s; %d string/char/raw spellings (<=2 atoms of %d escape forms, closed "
                   "and unclosed); the deterministic boundary-value family (every numeric comparison of the scanners: escapes around D7FF/D800/DFFF/E000/"
                   "10FFFF/110000/377/400 in rune, string, c\"/py\" literals in both hex cases, UTF-8 boundary/overlong/surrogate encodings and BOM "
                   "placement, digit/radix/letter range edges after every number prefix, //line numbers around 0, 1<<30, 1<<63, 1<<64); token-level: all %d sequences of <=%d lexemes over ( ) ; ... ! newline a blank and all %d sequences of <=3 "
                   "lexemes over a %d-lexeme alphabet (state carried across tokens); %d seeded Go-lexeme sequences (safe generator: no XGo "
                   "extension, nothing of the finding-set dimensions); %d seeded stateful sequences of 4-12 lexemes; %d mutated/extended "
                   "sequences; the fixed finding set (%d inputs). K-diff on every case (both dialects for numeric/string/malformed, go/scanner "
                   "for the rest - the XGo dialect is tied on these sets by C15). The two real scanners are compared (a) on the numeric/"
                   "string/Go-sequence/finding sets unless the XGo output has an extension token (numeric/string spellings containing "
                   "'...' are left to the finding set), (b) on every case of the other sets where the model's go_like holds (then the "
                   "results must be identical, errors included). distinct = distinct source" %
                   (len(nums), ctx.n(4, 5), b" ".join(num_alpha).decode(), len(strs), len(ESC_ATOMS), len(core), ctx.n(5, 6), len(wide),
                    len(sc.TOK_WIDE), len(seqs), len(st), len(mal), len(FINDING_SET)),
              exhaustive_part=2 * (len(nums) + len(strs)) + len(core) + 2 * len(wide), compare_stats=stats, compared_per_group=per_group,
              go_like_per_group=gl_group, go_cases=ng, real_scanner_verdicts=verd, sequence_shape_histogram=dict(sorted(shapes.items())))
    ctx.trust("modelled, not verified: scanner/scanner.go and $GOROOT/src/go/scanner/scanner.go (one Gallina text with a dialect switch), "
              "each tied to its implementation by the differential run")
    ctx.assume("the installed toolchain's go/scanner is the reference (go version recorded by the harness build)")
