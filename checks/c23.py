"""C23 — import sorting keeps the import set (ast/import.go, format/format.go).

A  Props/C23.v: over a line-by-line model of SortImports/sortSpecs/collapse, for ALL spec lists and
   for EVERY sort function that returns a sorted permutation (sort.Slice is unstable): the set of
   (name, path) is kept, only comment-less exact duplicates are dropped, every run comes out sorted
   by path, records move whole, runs are the maximal successive-line groups; ties: the observable
   result does not depend on the sort's tie order unless key-equal specs differ in "has a comment".
B  K-diff: parser.ParseFile -> the spec records -> extracted model (stable insertion sort) vs
   d.Specs after the real ast.SortImports (name, path, comment, reassigned Pos/End), and the groups
   of the re-parsed format.Source output vs the model's sorted runs (same specs in the same order,
   every run boundary of the model is a group boundary of the output; the printer may split further).
C  direct oracle (harness): on the AST after SortImports and on the re-parsed format.Source output:
   no (name,path) added, none removed except duplicates, every successive-line group sorted by path;
   no panic; parsable input formats, formatted output parses.
"""
import itertools
import re

import vlib

CLAIM = {
    "level": "proof",
    "text": "Coq theorems over a line-by-line model of ast.SortImports / sortSpecs / collapse (run splitting on line gaps, "
            "sort key (path,name,comment text), adjacent dedup when the earlier spec has no comment, position reassignment), "
            "for all spec lists and every sort function returning a sorted permutation: (name,path) set preserved, only "
            "comment-less exact duplicates dropped (multiset statement), each run sorted by path and free of removable "
            "duplicates, spec records move whole (identity, name, path, comment stay together; only positions are "
            "reassigned, in order), independence of the sort's tie order; for the model WITH the token.File line table: the "
            "same for every line table whenever SortImports returns, and when every spec is on its own line and the closing "
            "parenthesis on a later one SortImports never panics and equals the layout-free result. Tied to the code by a differential run of the "
            "extracted model against ast.SortImports and against the groups of re-parsed format.Source output on "
            "exhaustive small blocks and seeded structured/malformed files.",
    "note": "sort.Slice is a parameter (any sorted permutation). The executed model carries the token.File line table "
            "(lineAt, MergeLine, the Rparen clean-up) and reproduces the known findings (groups glued / MergeLine panic when two "
            "specs share a line or the duplicate is on the last line of the file): those are stated as *_refuted theorems with "
            "vm_compute witnesses; the positive theorems hold for every line table whenever SortImports returns. Comment "
            "re-attachment and the printer are not modelled: that the formatted output shows the model's groups is checked by "
            "the differential run, not proved. Import comments whose Text() panics (one-byte '#' comment) are outside the "
            "model and a known finding. Trusted: Coq kernel, extraction, harness. The Go code is modelled, not verified.",
}

NAMES = ["", "", "", "x", "y", ".", "_"]
PATHS = ["a", "b", "c", "a/b", "fmt", "os", "a.b/c", "z", "A", "a-b"]
TRAIL = ["", "", "", "", "// c", "// d", "/* c */", "//", "/**/", "# h", "//c", "// c // d", "/* c */ // d", "//go:x y"]
LINEDIR = ["/*line gen.go:6*/", "/*line gen.go:1*/", "/*line a.xgo:3*/", "/*line gen.go:500*/", "/*line a.xgo:12:4*/", "/*line gen.go:2:1*/"]
LINEDIR1 = ["//line gen.go:1", "//line gen.go:77", "//line a.xgo:5", "//line a.xgo:100000", "//line gen.go:3:9"]   # column 1
DOCS = ["// doc", "/* doc */", "/* doc\n\t   more */", "# doc", "//"]
REST = ["", "var x = 1\n", "func f() {\n}\n", "echo 1\n", "type T int\n", "x := 1\nfunc g() {}\n", "// end\n"]

# small-scope alphabet: spec forms chosen to hit ties, duplicates with/without comments, names, quoting
SMALL = ['"a"', '"a" // c', '"a" //', 'x "a"', '"b"', '. "a"', '"a" /* c */', '`a`', '"a" // d']

# one-byte '#' comments on import lines (repaired in /repo: importComment skips them) stay as regression inputs
HASH_SET = [
    'import (\n\t"a" #\n\t"a"\n)\n',
    'import (\n\t"b"\n\tx "a"\n\tx "a" #\n)\n',
    'import (\n\t"a" #\n\t"a" //\n\t"a"\n)\n',
]
# line directives: SortImports must work on RAW file lines (PositionFor(pos, false)); the model's line_at IS the raw
# line (number of line starts <= offset), so a lineAt that follows //line or /*line*/ directives breaks the K-diff, and
# the direct oracle sees unsorted groups / a LineStart or MergeLine panic.  Directive before the block, between specs
# (column 1), trailing a spec (/*line f:N*/, /*line f:N:M*/), numbers smaller / larger than the real line and beyond the
# file's line count, same file / other file.
LINE_SET = [
    'package main\n\nimport (\n\t"os" /*line gen.go:6*/\n\t"fmt"\n\t"bytes"\n)\n\nfunc main() {}\n',
    'package main\n\nimport (\n\t"os" /*line gen.go:100*/\n\t"fmt"\n\t"bytes"\n)\n\nfunc main() {}\n',
    'import (\n\t"os" /*line a.xgo:1*/\n\t"fmt"\n\t"bytes"\n)\n',
    'import (\n\t"os" /*line a.xgo:9:3*/\n\t"fmt"\n\t"fmt"\n\t"bytes"\n)\n',
    '//line gen.go:50\nimport (\n\t"c"\n\t"b"\n\t"a"\n)\n',
    '//line a.xgo:1000\nimport (\n\t"c"\n\t"c"\n\t"a"\n)\nvar x = 1\n',
    'import (\n\t"c"\n//line gen.go:1\n\t"b"\n\t"a"\n)\n',
    'import (\n\t"c"\n//line gen.go:40\n\t"b"\n\t"b"\n\n\t"z"\n\t"a"\n)\n',
    'import (\n\t"c"\n\t/*line gen.go:7*/ "b"\n\t"a"\n)\n',
    'import (\n\t"c" /*line gen.go:2*/\n\n\t"b" /*line gen.go:3*/\n\t"a"\n)\n',
    'import (\n\t"c" /*line gen.go:3*/\n\t"c" /*line gen.go:30*/\n\t"a"\n\t"a"\n)\nimport (\n\t"e"\n\t"d"\n)\n',
    'import "x" /*line gen.go:90*/\nimport (\n\t"c"\n\t"b"\n\t"a"\n)\n',
]
# '#*' opens a BLOCK comment in the XGo scanner.  A trailing comment that ends on a later line is not re-attached by
# sortSpecs (it ends after the run's last line) and stays where it was while its spec moves; if that leaves it behind a
# general comment on the same line ("z" /**/ #* h ... */) the scanner's findLineEnd does not see the '#' comment, the
# implicit semicolon is lost and the formatted output does not parse (see known_findings.txt).  Deterministic set;
# the seeded/mutating generator stays out of '#*'.
HASHSTAR_SET = [
    'import (\n\t"z" /**/\n\t"a" #* h\n\tx */\n\t"b"\n)\n',
    'import (\n\t. "z" /**/\n\ty "a.b/c" #*/ h\n\tx `a` /* c */\n\t. "fmt" //go:x y\n)',
    'import (\n\t"z"\n\t"a" #* h\n\tx */\n\t"b"\n)\n',          # holds: no general comment in front
    'import (\n\t"z" /**/\n\t"a" /* h\n\tx */\n\t"b"\n)\n',    # holds: ordinary block comment
    'import (\n\t"a" #* h */\n\t"b"\n)\n',
]
# two specs on one line: sortSpecs merges one line per removed duplicate, which can swallow the blank
# line after the run and glue two groups together, or panic on the last line of the file (see
# known_findings.txt); deterministic set
SAMELINE_SET = [
    'import (\n\t"z"; "z"\n\n\t"a"\n)\n',
    'import (\n\t"y"\n\t"z"; "z"\n\n\t"a"\n)\n',
    'import (\n\t"z"; "z" // c\n\n\t"a"\n)\n',
    'import (\n\tx "z"; x "z"\n\n\tx "a"\n)\n',
    'import (\n\t"z"; "y"\n\t"y"\n\n\t"a"\n)\n',
    'import (\n\t"a"; "a"\n\n\t"c"\n\t"b"\n)\n',
    'import (\n\t"b"; "a"\n\n\t"a"\n)\n',
    'import (\n\t"z"; "z"; "z"\n\n\n\t"a"\n)\n',
    'import (\n\t"z"; "z"\n\t"z"; "z"\n\n\t"b"\n\n\t"a"\n)\n',
    'import ("b"; "a")\n', 'import ("b"; "a"\n"c"; "a")\n', 'import ("a"; "a")\n',
    'import (\n\t"z"; "z"; "z"; "z"\n\n\t"b"\n\n\t"a"\n)\n',     # the merges also glue the two LATER runs before they are sorted
    'import (\n\t"a"; "a"; "a"\n\n\t"b"\n\n\t"c"\n)\nvar x = 1\n',
    # the closing parenthesis on the line of the last spec, at the end of the file: the dropped duplicate is on the last line
    'import (\n"a" // c\n"a")\n', 'import (\n"a" // c\n"a")', 'import (\n"a"\n"a")\n', 'import (\n"a" // c\n"a")\nvar x = 1\n',
]
FIXED_SET = [
    "", "import ()\n", 'import "a"\n', 'import (\n\t"b"\n\t"a"\n)\n', 'import (\n\t"b"\n\t"a" #\n)\n',
    'import (\n\t"a" //\n\t"a"\n)\n', 'import (\n\t"a"\n\t"a" //\n)\n', 'import (\n\t"a" // x\n\t"a" // x\n)\n',
    'import (\n\t"b"\n\n\n\t"a"\n)\nimport (\n\t"d"\n\t"c"\n)\n',
    'package main\n\nimport (\n\t"b"\n\t// doc\n\t"a"\n)\n', 'import (\n\t/* l */ "b"\n\t"a"\n)\n',
    'import (\n\t"b" /* m\n\tl */\n\t"a"\n)\n', 'import "b"\nimport "a"\n', 'var x = 1\n', 'import (\n\t"b"\n\t"a"\n',
    'import (\n\t_ "a"\n\t. "a"\n\tx "a"\n\t"a"\n)\n', 'import (\n\t"a"\n\t`a`\n)\n', 'import (\n\t"b"\r\n\t"a"\r\n)\r\n',
    'import (\n\t"a"\n\t"a"\n\t"a"\n\n\t"c"\n\t"b"\n)\necho 1\n',
]


RPAREN_ON_SPEC_LINE = re.compile(rb'["`][^\n]*\)')


def gen_spec(rng, small_paths):
    name = rng.choice(NAMES)
    path = rng.choice(PATHS[:3] if small_paths else PATHS)
    q = '`%s`' % path if rng.below(8) == 0 else '"%s"' % path
    s = (name + " " if name else "") + q
    t = rng.choice(TRAIL)
    if rng.below(14) == 0:
        t = rng.choice(LINEDIR)
    if t:
        s += " " + t
    return s


def gen_block(rng):
    n = rng.choice([0, 1, 2, 2, 3, 3, 4, 5, 6, 8, 13, 14, 20, 30])
    small = rng.below(2) == 0
    lines = []
    for i in range(n):
        s = gen_spec(rng, small)
        lines.append("\t" + s)
        k = rng.below(12)
        if k == 0:
            lines.append("")
        elif k == 1:
            lines.append("")
            lines.append("")
        elif k == 2:
            lines.append("\t" + rng.choice(DOCS))
        elif k == 3 and rng.below(3) == 0:
            lines.append(rng.choice(LINEDIR1))
    return "import (\n" + "\n".join(lines) + ("\n" if lines else "") + ")\n"


def gen_file(rng):
    s = ""
    if rng.below(4) == 0:
        s += rng.choice(["package main\n\n", "package p\n", "// hdr\npackage main\n"])
    if rng.below(12) == 0:
        s += rng.choice(LINEDIR1) + "\n"
    for _ in range(rng.choice([1, 1, 1, 2, 3])):
        k = rng.below(6)
        if k == 0:
            s += "import " + gen_spec(rng, False) + "\n"
        elif k == 1 and rng.below(3) == 0:
            s += "import ()\n"
        else:
            s += gen_block(rng)
        if rng.below(3) == 0:
            s += "\n"
    s += rng.choice(REST)
    return s


EDIT = list("()\"`\n/*# \tax._") + ["import", "\r\n", "/*", "*/", "//", "(\n", ")\n", "\n\n"]


def mutate(rng, s):
    b = s.encode()
    for _ in range(1 + rng.below(2)):
        k = rng.below(4)
        p = rng.below(len(b) + 1)
        if k == 0 and b:
            b = b[:p] + b[min(len(b), p + 1 + rng.below(2)):]
        elif k == 1:
            b = b[:p] + rng.choice(EDIT).encode() + b[p:]
        elif k == 2:
            b = b[:p]
        else:
            b = b[:p] + bytes([rng.below(256)]) + b[p:]
    return b


def enc(b):
    return b.hex() or "-"


def strip_ids(rec):
    """after-record without the spec identities (key-equal specs are interchangeable)"""
    out = []
    for d in rec.split("|"):
        if ":" not in d:
            out.append(d)
            continue
        h, body = d.split(":", 1)
        out.append(h + ":" + ";".join(",".join(s.split(",")[1:]) for s in body.split(";") if s))
    return "|".join(out)


def strip_rp(rec):
    """I1,<rparen>:... -> I1:..."""
    return "|".join(d if ":" not in d else d.split(":", 1)[0].split(",")[0] + ":" + d.split(":", 1)[1] for d in rec.split("|"))


def coarse(rec, after):
    """tie-order-insensitive projection: per decl the sequence of distinct consecutive (name,path)"""
    out = []
    for d in rec.split("|"):
        if ":" not in d:
            out.append(d)
            continue
        h, body = d.split(":", 1)
        seq = []
        for s in body.replace("/", ";").split(";"):
            if not s:
                continue
            f = s.split(",")
            np = (f[1], f[2]) if after else (f[0], f[1])
            if not seq or seq[-1] != np:
                seq.append(np)
        out.append(h + ":" + ";".join("%s,%s" % np for np in seq))
    return "|".join(out)


def refine(impl, model):
    """The printer may split a run further (a comment that ends up on its own line is a line gap), which keeps
    every group sorted; what must not happen is two runs glued.  Returns the impl groups with only those
    boundaries kept that the model has too, and whether extra boundaries were dropped."""
    a, b = impl.split("|"), model.split("|")
    if len(a) != len(b):
        return impl, False
    out, extra = [], False
    for x, y in zip(a, b):
        if ":" not in x or ":" not in y or x[:3] != y[:3] or x.replace("/", ";") != y.replace("/", ";"):
            out.append(x)
            continue
        xs, ys = x[3:], y[3:]
        # same specs in the same order: walk both strings, keep '/' of impl only where model has '/'
        res, i, j = [], 0, 0
        while i < len(xs) and j < len(ys):
            if xs[i] == ys[j]:
                res.append(xs[i])
            elif xs[i] == "/" and ys[j] == ";":
                res.append(";")
                extra = True
            else:           # impl ';' where model has '/': glued
                res.append(xs[i])
            i += 1
            j += 1
        out.append(x[:3] + "".join(res))
    return "|".join(out), extra


def run(ctx):
    ctx.prove("C23")
    model = ctx.model("c23")
    impl = ctx.harness("c23")
    rng = ctx.rng
    ctx.log("built model and harness")
    cases, origin = [], {}

    def add(b, tag):
        if isinstance(b, str):
            b = b.encode()
        if b not in origin:
            origin[b] = tag
            cases.append(b)

    for s in HASH_SET:
        add(s, "hash-comment-set")
    for s in LINE_SET:
        add(s, "line-directive-set")
    for s in HASHSTAR_SET:
        add(s, "hashstar-set")
    for s in SAMELINE_SET:
        add(s, "sameline-set")
    for s in FIXED_SET:
        add(s, "fixed-set")
    N = ctx.n(3, 4)
    for n in range(1, N + 1):
        for specs in itertools.product(SMALL, repeat=n):
            for seps in itertools.product(["\n", "\n\n"], repeat=n - 1):
                body = "".join("\t" + sp + (seps[i] if i < n - 1 else "\n") for i, sp in enumerate(specs))
                add("import (\n" + body + ")\n", "exhaustive")
    n_ex = len(cases)
    n_excl = 0
    for i in range(ctx.n(7000, 300000)):
        k = i % 7
        if k < 4:
            add(gen_file(rng), "file")
        elif k < 6:
            add(gen_block(rng) + rng.choice(REST), "block")
        else:
            b = mutate(rng, gen_file(rng))
            # kept out of the mutating generator (dimensions with known findings, explored by the deterministic sets):
            # two specs on one line, '#*' block comments, a ')' on the line of a spec (duplicate on the last line of
            # the file); and a form feed (the printer drops the line break after a comment containing \f anywhere in a
            # file: "x := 1 /*\f*/\ny := 2" formats to unparsable text — not an import matter, reported for C19)
            if b";" in b or b"#*" in b or b"\x0c" in b or RPAREN_ON_SPEC_LINE.search(b):
                n_excl += 1
                continue
            add(b, "file-mutated")

    inp = "\n".join(enc(b) for b in cases) + "\n"
    rc, out = ctx.run([impl], input=inp, timeout=900)
    lines = out.splitlines()
    ctx.log("harness ran on %d inputs" % len(cases))
    if rc != 0 or len(lines) != len(cases):
        ctx.broken("correspondence(c23:harness-run)", "rc=%d lines=%d cases=%d %s" % (rc, len(lines), len(cases), out[-300:]))
        return
    F = [l.split("\t") for l in lines]
    bad = [i for i, f in enumerate(F) if len(f) != 7]
    if bad:
        ctx.broken("correspondence(c23:harness-output)", "malformed line for case %s: %s" % (enc(cases[bad[0]]), lines[bad[0]][:200]))
        return
    sel = [i for i, f in enumerate(F) if f[0] == "OK"]
    minp = "\n".join(F[i][1] + "\t" + F[i][2] for i in sel) + "\n"
    rc, mout = ctx.run([model], input=minp, timeout=900)
    mlines = mout.splitlines()
    ctx.log("model ran")
    if rc != 0 or len(mlines) != len(sel):
        ctx.broken("correspondence(c23:model-run)", "rc=%d lines=%d cases=%d %s" % (rc, len(mlines), len(sel), mout[-300:]))
        return
    G = [l.split("\t") for l in mlines]
    badm = [j for j, g in enumerate(G) if len(g) != 5]
    if badm:
        ctx.broken("correspondence(c23:model-output)", "malformed model line for case %s: %s" % (enc(cases[sel[badm[0]]]), mlines[badm[0]][:200]))
        return
    keys, ia, ma, il, ml, ig, mg = [], [], [], [], [], [], []
    n_mixed = n_split = n_dynamic = n_ties = 0
    incons = []
    for i, g in zip(sel, G):
        f = F[i]
        keys.append(enc(cases[i]))
        mixed = g[3] == "1"
        n_mixed += mixed
        if "L" not in g[4]:
            incons.append(keys[-1])
        if "S" not in g[4] and g[0] != "PANIC":
            n_dynamic += 1
        if mixed:      # tie order matters for which duplicate survives: compare the tie-insensitive projection
            ia.append(coarse(strip_rp(f[3]), True))
            ma.append(coarse(strip_rp(g[0]), True))
            il.append("(mixed ties)")
            ml.append("(mixed ties)")
            x, y = coarse(f[5], False), coarse(g[2], False)
        else:
            ia.append(strip_ids(f[3]))
            ma.append(strip_ids(g[0]))
            if "T" in g[4]:     # key-equal specs: an unstable sort may drop either one, i.e. merge a different line
                n_ties += 1     # (and then the Rparen clean-up merges a different number of lines): table not compared
                il.append("(ties)")
                ml.append("(ties)")
            else:
                il.append(f[4])
                ml.append(g[1])
            x, y = f[5], g[2]
        # declarations after the first non-import declaration are not touched by SortImports: the model prints "?"
        if "?" in y:
            a, b = x.split("|"), y.split("|")
            if len(a) == len(b):
                x = "|".join(p if q != "?" else "?" for p, q in zip(a, b))
        if origin[cases[i]] == "hashstar-set" and f[5] == "REPARSEERR":
            x = y = "(formatted output does not parse: known finding, judged by the direct oracle)"
        x, extra = refine(x, y)
        n_split += extra
        ig.append(x)
        mg.append(y)
    if incons:
        ctx.broken("assumption(lineAt)", "%d inputs: line/endline reported by the harness differ from line_at(lines0, pos); first %s" % (len(incons), incons[0][:200]))
    ctx.diff_lines("sort_imports_m~ast.SortImports(specs)", keys, "\n".join(ia), "\n".join(ma))
    ctx.diff_lines("sort_imports_m~ast.SortImports(line-table)", keys, "\n".join(il), "\n".join(ml))
    ctx.diff_lines("groups-after-sort~groups-of-format.Source-output", keys, "\n".join(ig), "\n".join(mg))
    # C: direct oracle
    for b, f in zip(cases, F):
        if f[6] != "ok":
            ctx.fail("src:" + vlib.sha(b), "format.Source/ast.SortImports(%r): %s" % (b[:120], f[6]),
                     {"src_hex": enc(b), "src": b.decode("utf-8", "replace"), "verdict": f[6], "origin": origin[b]})
    # evidence
    shapes, orig_h, status_h = {}, {}, {}
    nontriv = 0
    for b, f in zip(cases, F):
        orig_h[origin[b]] = orig_h.get(origin[b], 0) + 1
        status_h[f[0]] = status_h.get(f[0], 0) + 1
        if f[0] != "OK":
            continue
        nb = sum(len([s for s in d.split(":", 1)[1].split(";") if s]) for d in f[2].split("|") if d.startswith("I1"))
        na = sum(len([s for s in d.split(":", 1)[1].split(";") if s]) for d in f[3].split("|") if d.startswith("I1")) if f[3] != "PANIC" else -1
        changed = strip_ids(f[3]) != strip_ids(";".join(",".join(s.split(",")[:7]) for s in f[2].split(";")))
        ngroups = sum(d.count("/") + 1 for d in f[5].split("|") if d.startswith("I1") and len(d) > 3)
        k = "specs=%s dropped=%s groups=%s" % ("0" if nb == 0 else "1" if nb == 1 else "2-4" if nb <= 4 else "5-12" if nb <= 12 else ">12",
                                               min(nb - na, 3) if na >= 0 else "panic", min(ngroups, 4))
        shapes[k] = shapes.get(k, 0) + 1
        if nb >= 2 and changed:
            nontriv += 1
    pick = [i for i in sel if origin[cases[i]] == "file"][:3]
    ctx.cover(evaluations=len(cases), distinct_nontrivial=nontriv,
              samples=[{"src": cases[i].decode("utf-8", "replace")[:400], "after": F[i][3][:300], "fmt_groups": F[i][5][:200]} for i in pick],
              rule="deterministic: %d one-byte-'#'-comment + %d line-directive + %d fixed-set + every block of <=%d specs over %d spec forms x {newline, blank line} "
                   "separators (%d inputs); seeded: files with optional package clause, 1-3 import declarations (blocks of 0-30 specs, "
                   "single imports, empty blocks), named/dot/blank imports, raw-string paths, duplicates, trailing line/block/'#' comments "
                   "incl. empty ones, doc comment lines, blank-line runs, trailing code; byte-mutated files "
                   "(mostly unparsable: only 'fails without panic' is checked); //line and /*line*/ directives before, inside and trailing "
                   "specs of the blocks (the model's line_at is the RAW line). NOT generated in the seeded part (%d mutated candidates dropped): a form feed byte (printer defect independent of imports), a ')' on the line of a spec (sameline-set), '#*' block comments (deterministic hashstar-set of %d inputs) and two specs on one line (deterministic sameline-set of %d inputs; the line-table model "
                   "reproduces them, the direct oracle judges them). %d of the parsable inputs have key-equal specs differing in has-a-comment: compared on the "
                   "tie-insensitive projection (sequence of distinct (name,path)). non-trivial = distinct parsable file with >=2 specs in "
                   "blocks whose spec order/positions SortImports changed" % (len(HASH_SET), len(LINE_SET), len(FIXED_SET), N, len(SMALL), n_ex, n_excl, len(HASHSTAR_SET), len(SAMELINE_SET), n_mixed),
              origin_histogram=orig_h, status_histogram=status_h,
              shape_histogram=dict(sorted(shapes.items(), key=lambda kv: -kv[1])[:40]), model_compared=len(sel),
              output_splits_a_run_further=n_split, run_boundaries_changed_by_line_merges=n_dynamic,
              line_table_not_compared_because_of_key_ties=n_ties)
    ctx.assume("sort.Slice returns a permutation of its argument sorted for the less closure (any such function: parameter of the theorems); "
               "the executable model uses a stable insertion sort and the differential run compares tie-insensitive observables",
               "lineAt(fset, p) is the raw line of p = number of line starts <= offset(p) (PositionFor(p, false)): line directives do not count",
               "importPath/importName/importComment values are read from the parsed AST by the harness (strconv.Unquote, CommentGroup.Text are not modelled)")
    ctx.trust("modelled, not verified: ast/import.go SortImports, sortSpecs (sort key, dedup, position reassignment), collapse; "
              "format.Source = ParseFile + SortImports + printer: parser and printer are not modelled (their effect on import groups is "
              "covered by the differential run and the direct oracle only)")
