"""C22 — printing a synthesised tree preserves its structure (printer/nodes.go: expr1, binaryExpr).

A  Props/C22.v over Model/Expr.v (token-level printer + precedence-climbing parser, precedence table
   regenerated from token/token.go): termination, round trip for every well-formed tree but a lambda whose
   body prints with a leading "(" (lamokb), refutation witness for that shape.
B  K-diff on the same cases:  tokens(real printer output, real scanner) = pr e;
   parser.ParseExpr(text) ~ parse (pr e);  parser.ParseExpr(blank-separated tokens) ~ parse ts.
C  direct oracle: printer.Fprint -> parser -> structural compare (parentheses stripped), on every
   enumerated tree; a failing tree is keyed by its first operand position that violates `posok`
   (listed in known_findings.txt) or, if it has none, by the tree itself (unlisted).
"""
import hashlib

CLAIM = {
    "level": "proof",
    "text": "Coq theorems over a token-level model of printer.expr1/binaryExpr (as repaired in /repo 509854e) and of the expression parser "
            "reached from parser.ParseExpr (identifier, literal, unary, star, binary over the regenerated precedence table, parenthesis, call "
            "with/without '...', index, selector, error wrap with/without default, lambda): the parser model terminates on every token list "
            "(explicit fuel bound); for EVERY well-formed tree except a lambda whose single result expression prints with a leading '(' "
            "(decidable predicate lamokb), parse(print e) is e with exactly the printer's parentheses inserted, so stripping parentheses "
            "gives e back and printing again gives the same tokens; the shapes the unrepaired printer got wrong (ErrWrapExpr.X/.Default, "
            "StarExpr.X, lambda or 'x ?: d' as operand) are now proved instances.  For the excluded lambda shape the full statement is "
            "proved FALSE on the model and reproduced on the implementation (known finding).  Tie on every run: K-gen (precedence function, "
            "token codes, precedence constants, mayCombine - regenerated and checked by computation; the operand contexts of expr1 are "
            "regenerated and reported) and K-diff (exhaustive small scope + seeded: printer tokens, re-parse of printed text, parser on "
            "token streams).",
    "note": "Token level: blanks (cutoff/depth) and layout are not in the theorem; they are observed by scanning the real printer's text with "
            "the real scanner in the differential run (mayCombine itself is a checked table obligation).  XGo node kinds outside the model "
            "(range, command call, slice/composite/matrix literal, comprehension, env, domain text, number-unit, types, slices, type "
            "assertions) are explored by the direct oracle only; their remaining failures (x! before ':', '[...]' read as an array type, a "
            "lambda printed through p.expr as range operand / composite element / for-phrase condition) are listed known findings.  "
            "Trusted: Coq kernel, extraction, translator, harness.",
}

# ---------------------------------------------------------------------------------------------
# token codes come from the regenerated table (build/gen/tokens.json)

def toks(ctx):
    return ctx.gen_json("tokens")["xgo_"]["consts"]


class Gen:
    """Structured tree generator.  A tree is a nested tuple (head, *children) rendered by show()."""

    def __init__(self, T):
        self.T = T
        t = T
        # one representative binary operator per precedence level + the operators the blank rules look at
        self.bin_rep = [t["LOR"], t["LAND"], t["EQL"], t["ADD"], t["MUL"]]
        self.bin_more = [t["SUB"], t["QUO"], t["AND"], t["LSS"], t["SRARROW"], t["BIDIARROW"], t["AND_NOT"], t["OR"], t["SHL"],
                         t["NEQ"], t["LEQ"], t["GTR"], t["GEQ"], t["XOR"], t["REM"], t["SHR"]]
        self.un_rep = [t["SUB"], t["NOT"]]
        self.un_more = [t["ADD"], t["XOR"], t["AND"], t["ARROW"]]
        self.prec = {}
        for name, p in (("LOR", 1), ("LAND", 2)):
            self.prec[t[name]] = p
        # precedences are read from the generated function text at run time in run(); filled by caller

    # ---- the printer's context p and the parser's requirement req for every operand slot --------
    def plev(self, n):
        h = n[0]
        if h == "bin":
            return self.prec[n[1]]
        if h in ("un", "star", "ewd"):
            return 6
        if h in ("lam", "lam2"):
            return 0
        return 8

    def tlev(self, n):
        h = n[0]
        if h == "bin":
            return self.prec[n[1]]
        if h in ("un", "star", "ewd"):
            return 6
        if h in ("lam", "lam2"):
            return 0
        if h in ("rng", "kv", "cmd", "eell"):
            return -1          # only as a whole operand of their own context
        return 8

    def slots(self, n):
        """[(slot-name, child, printer ctx p, parser requirement req)] for the expression children of n."""
        h = n[0]
        if h == "bin":
            k = self.prec[n[1]]
            return [("X", n[2], k, k), ("Y", n[3], k + 1, k + 1)]
        if h == "un":
            return [("X", n[2], 6, 6)]
        if h == "star":
            return [("X", n[1], 6, 6)]
        if h == "par":
            return [("X", n[1], 0, 0)]
        if h in ("call", "calle"):
            return [("Fun", n[1], 7, 8)] + [("Arg", a, 0, 0) for a in n[2:]]
        if h == "cmd":
            return [("Fun", n[1], 7, 8)] + [("Arg", a, 0, 0) for a in n[2:]]
        if h == "idx":
            return [("X", n[1], 7, 8), ("Index", n[2], 0, 0)]
        if h == "idxl":
            return [("X", n[1], 7, 8)] + [("Index", a, 0, 0) for a in n[2:]]
        if h == "slice":
            return [("X", n[1], 7, 8)] + [("Index", a, 0, 0) for a in n[2:] if a != "_"]
        if h == "sel":
            return [("X", n[1], 7, 8)]
        if h == "ta":
            return [("X", n[1], 7, 8)]
        if h == "ew":
            return [("X", n[2], 7, 8)]
        if h == "ewd":
            return [("X", n[2], 7, 8), ("Default", n[3], 6, 6)]
        if h == "lam":
            i = list(n).index(":")
            return [("Rhs", a, 0, 0) for a in n[i + 1:]]
        if h == "rng":
            return [("Opd", a, 0, 1) for a in n[1:] if a != "_"]
        if h == "slit":
            return [("Elt", a[1] if a[0] == "eell" else a, 0, 0) for a in n[1:]]
        if h == "clit":
            # parseElement: a key or plain element is read by parseExpr(lhs=true) (no lambda); a value by parseExpr(false)
            out = []
            for a in n[2:]:
                if a[0] == "kv":
                    out += [("Key", a[1], 0, 1), ("Value", a[2], 0, 0)]
                else:
                    out.append(("Elt", a, 0, 1))
            return out
        if h == "mat":
            return [("Elt", a, 0, 0) for row in n[1:] for a in row[1:]]
        if h == "compr":
            return [("Elt", n[2], 0, 0), ("X", n[4], 0, 0)] + ([("Cond", n[5], 0, 1)] if n[5] != "_" else [])
        return []

    def right_edge(self, n, p=0):
        """the sub-expression whose last token ends the printed text of n in context p (n itself if parenthesised)"""
        if not isinstance(n, tuple) or self.plev(n) < p:
            return n
        h = n[0]
        if h == "bin":
            return self.right_edge(n[3], self.prec[n[1]] + 1)
        if h == "un":
            return self.right_edge(n[2], 6)
        if h == "star":
            return self.right_edge(n[1], 6)
        if h == "ewd":
            return self.right_edge(n[3], 6)
        if h == "lam":
            i = list(n).index(":")
            if n[2] == "0" and i + 1 < len(n):
                return self.right_edge(n[i + 1], 0)
        return n

    def first_violation(self, n):
        """pre-order search for an operand the printer leaves unparenthesised although the parser reads the
        position at a higher level (or reads the juxtaposition differently); None if every position is fine
        (the tree must then round-trip)."""
        if not isinstance(n, tuple):
            return None
        h = n[0]
        # a lambda body that starts with '(' is read as a parenthesised result list
        if h == "lam" and n[2] == "0":
            i = list(n).index(":")
            if i + 1 < len(n) and self.starts_with_paren(n[i + 1]):
                return "lam.Rhs=("
        # "[...]" directly followed by '(' , '*' or "[T, U]" is read as an array type
        if h in ("call", "calle", "idxl") and n[1][0] == "slit":
            return "%s.%s=slit" % (h, "Fun" if h != "idxl" else "X")
        if h == "bin" and n[1] == self.T["MUL"] and self.right_edge(n[2], self.prec[n[1]])[0] == "slit":
            return "bin*.X~slit"
        # "x!" / "x?" directly followed by the ':' of a range expression is read as "x ?: default"
        if h == "rng":
            for c in n[1:3]:
                if c != "_" and self.right_edge(c, 0)[0] == "ew":
                    return "rng.Opd~ew"
        if h == "clit":
            for a in n[2:]:
                if a[0] == "kv" and self.right_edge(a[1], 0)[0] == "ew":
                    return "kv.Key~ew"
        if h == "slice":
            idx = [a for a in n[2:]]
            for i, a in enumerate(idx[:-1]):
                if a != "_" and (i == 0 or idx[i + 1] != "_" or i + 1 < len(idx) - 1) and self.right_edge(a, 0)[0] == "ew":
                    if i == 0 or (i == 1 and idx[2] != "_"):
                        return "slice.Index~ew"
        # a composite literal with a bare type name in the condition of a for phrase (as in Go's control clauses)
        if h == "compr" and n[5] != "_" and n[5][0] == "clit":
            return "compr.Cond=clit"
        for name, c, p, req in self.slots(n):
            if not (self.plev(c) < p) and self.tlev(c) < req:
                return "%s.%s=%s" % (h, name, c[0])
        for name, c, p, req in self.slots(n):
            v = self.first_violation(c)
            if v:
                return v
        return None

    def starts_with_paren(self, n, p=0):
        """does the printed text of n in context p start with '(' ?"""
        h = n[0]
        if self.plev(n) < p:
            return True
        if h == "par":
            return True
        if h == "bin":
            return self.starts_with_paren(n[2], self.prec[n[1]])
        if h in ("call", "calle", "idx", "idxl", "slice", "sel", "ta", "cmd"):
            return self.starts_with_paren(n[1], 7)
        if h in ("ew", "ewd"):
            return self.starts_with_paren(n[2], 7)
        if h in ("lam", "lam2"):
            return n[1] == "1"
        return False


def show(n):
    if isinstance(n, tuple):
        return "(" + " ".join(show(x) for x in n) + ")"
    return str(n)


def depth(n):
    if not isinstance(n, tuple):
        return 0
    return 1 + max([depth(c) for c in n[1:]] + [0])


def sha(s):
    return hashlib.sha256(s.encode()).hexdigest()[:12]


def build_cases(ctx, T, g):
    t = T
    A, B1 = ("id", "a"), ("lit", t["INT"], "1")
    leaves = [A, B1]

    def layer(subs, unops, binops, full):
        """all trees whose children are taken from subs"""
        out = []
        for o in unops:
            out += [("un", o, x) for x in subs]
        out += [("star", x) for x in subs]
        for o in binops:
            out += [("bin", o, x, y) for x in subs for y in subs]
        out += [("sel", x, "f") for x in subs]
        out += [("idx", x, y) for x in subs for y in subs]
        out += [("call", x) for x in subs]
        out += [("call", x, y) for x in subs for y in subs]
        out += [("ew", t["NOT"], x) for x in subs] + [("ew", t["QUESTION"], x) for x in subs]
        out += [("ewd", t["QUESTION"], x, y) for x in subs for y in subs]
        out += [("lam", "0", "0", "x", ":", x) for x in subs]
        if full:
            out += [("calle", x, y) for x in subs for y in subs]
            out += [("call", x, y, y) for x in subs[:3] for y in subs]
            out += [("lam", "1", "0", "x", "y", ":", x) for x in subs] + [("lam", "0", "0", ":", x) for x in subs]
            out += [("lam", "1", "1", ":", x, x) for x in subs] + [("lam", "1", "0", "x", ":", x) for x in subs]
            out += [("ewd", t["NOT"], x, y) for x in subs[:3] for y in subs[:3]]
            # XGo / Go kinds outside the Coq model: direct oracle only
            out += [("slit", x) for x in subs] + [("slit", x, y) for x in subs[:4] for y in subs]
            out += [("clit", ("id", "T"), x) for x in subs] + [("clit", ("id", "T"), ("kv", ("id", "k"), x)) for x in subs]
            out += [("clit", ("arr", "_", ("id", "T")), x) for x in subs] + [("clit", ("map", ("id", "K"), ("id", "T")), ("kv", x, x)) for x in subs]
            out += [("slice", x, y, "_", "_") for x in subs for y in subs[:4]] + [("slice", x, "_", y, "_") for x in subs[:4] for y in subs]
            out += [("slice", x, y, y, y) for x in subs[:3] for y in subs[:4]]
            out += [("slice", ("id", "s"), ("ew", t["NOT"], x), ("id", "b"), "_") for x in subs[:3]]
            out += [("idxl", x, ("id", "T"), ("id", "U")) for x in subs]
            out += [("ta", x, ("id", "T")) for x in subs]
            out += [("compr", t["LBRACK"], x, "v", y, "_") for x in subs[:6] for y in subs[:6]]
            out += [("compr", t["LBRACK"], ("id", "v"), "v", ("id", "xs"), x) for x in subs]
            out += [("call", ("arr", "_", ("id", "T")), x) for x in subs]
            out += [("slit", ("id", "b"), ("eell", x)) for x in subs]
        return out

    xleaves = [("nu", t["INT"], "1", "m"), ("dtl", "json", "`a`"), ("env", "0", "name"), ("env", "1", "name"), ("flit",),
               ("lit", t["RAT"], "3r"), ("lit", t["STRING"], '"s"'), ("lit", t["FLOAT"], "1.5"), ("lit", t["CHAR"], "'c'"),
               ("lit", t["IMAG"], "2i"), ("lit", t["CSTRING"], '"s"'), ("slit",), ("clit", ("id", "T")), ("lam2", "0", "x"), ("lam2", "1", "x", "y")]
    d1 = leaves
    d2 = layer(leaves + xleaves, g.un_rep + g.un_more, g.bin_rep + g.bin_more, True)
    sub3 = [A] + layer([A], g.un_rep, g.bin_rep, False) + [("lit", t["INT"], "1"), ("nu", t["INT"], "1", "m"), ("slit", A), ("env", "1", "name")]
    d3 = layer(sub3, g.un_rep + [t["ARROW"], t["AND"]], g.bin_rep + [t["SUB"], t["QUO"], t["AND"], t["LSS"]], True)
    # depth 4, targeted: every operand slot over every prefix/postfix/lambda constructor over one representative of every level
    # (the parenthesised and unparenthesised branches of StarExpr / UnaryExpr / ErrWrapExpr / LambdaExpr print their operand
    # separately, so a wrong context there only shows two levels down: (*(a + b)).f)
    inner = [A] + [("bin", o, A, A) for o in g.bin_rep] + [("un", t["SUB"], A), ("star", A), ("ewd", t["QUESTION"], A, A),
                                                          ("lam", "0", "0", "x", ":", A), ("call", A), ("ew", t["NOT"], A)]
    mids = []
    for x in inner:
        mids += [("star", x), ("un", t["SUB"], x), ("un", t["NOT"], x), ("ew", t["NOT"], x), ("ewd", t["QUESTION"], x, A),
                 ("ewd", t["QUESTION"], A, x), ("lam", "0", "0", "x", ":", x), ("lam", "1", "1", "x", ":", x, A)]
    d4 = []
    for m in mids:
        d4 += [("sel", m, "f"), ("idx", m, A), ("idx", A, m), ("call", m), ("call", m, A), ("call", A, m), ("calle", m, A),
               ("ew", t["QUESTION"], m), ("ewd", t["QUESTION"], m, A), ("ewd", t["QUESTION"], A, m), ("un", t["SUB"], m), ("star", m),
               ("slice", m, A, "_", "_"), ("ta", m, ("id", "T")), ("idxl", m, ("id", "T"), ("id", "U")),
               ("lam", "0", "0", "x", ":", m)]
        for o in g.bin_rep:
            d4 += [("bin", o, m, A), ("bin", o, A, m)]
    trees = d1 + xleaves + d2 + d3 + d4
    cases = []
    seen = set()
    for n in trees:
        s = show(n)
        if s in seen:
            continue
        seen.add(s)
        cases.append(("E", n, s))
    # contexts of their own: range operand of a for phrase, command call as a statement
    opds = [A, B1] + layer([A], g.un_rep, g.bin_rep, False)
    for x in opds:
        for y in opds[:8]:
            cases.append(("R", ("rng", x, y, "_"), None))
        cases.append(("R", ("rng", "_", x, "_"), None))
        cases.append(("R", ("rng", x, A, x), None))
        cases.append(("R", x, None))
    for f in [("id", "f"), ("sel", ("id", "o"), "f"), ("ew", t["NOT"], ("id", "f"))]:
        for x in opds + xleaves[:6] + [("slit", A), ("clit", ("id", "T"), A), ("lam", "1", "0", "x", "y", ":", A)]:
            cases.append(("S", ("cmd", f, x), None))
            cases.append(("S", ("cmd", f, x, A), None))
            cases.append(("S", ("cmd", f, A, x), None))
        # (a matrix literal is rejected by parser.checkExpr wherever parseRHS is used - e.g. parser.ParseExpr("[a, b; c, d]") -
        #  so it is exercised as the argument of a command call only)
        for x in opds[:6]:
            cases.append(("S", ("cmd", f, ("mat", ("row", x, A), ("row", A, x))), None))
    out = []
    for c, n, s in cases:
        out.append((c, n, s or show(n)))
    return out


ALPHA18 = None


def token_cases(ctx, T, g, printed):
    """blank-separated token streams for the parser correspondence"""
    t = T
    sym = ["4:a", "5:1", str(t["ADD"]), str(t["MUL"]), str(t["SUB"]), str(t["LPAREN"]), str(t["RPAREN"]), str(t["LBRACK"]),
           str(t["RBRACK"]), str(t["PERIOD"]), str(t["COMMA"]), str(t["NOT"]), str(t["QUESTION"]), str(t["COLON"]),
           str(t["DRARROW"]), str(t["ELLIPSIS"]), str(t["ASSIGN"]), str(t["ARROW"])]
    more = [str(t[k]) for k in ("LOR", "LAND", "EQL", "LSS", "AND", "XOR", "QUO", "SRARROW", "AND_NOT", "LBRACE", "RBRACE", "FUNC",
                                "MAP", "CHAN", "STRUCT", "SEMICOLON", "DEFINE", "INC", "ENV", "GOTO", "TYPE", "RANGE")] + ["4:b", '9:"s"']
    out = []
    import itertools
    for n in range(0, 4):
        for tup in itertools.product(sym, repeat=n):
            out.append(" ".join(tup))
    small = sym[:3] + sym[5:7] + sym[9:13] + [sym[14]]
    for tup in itertools.product(small, repeat=4):
        out.append(" ".join(tup))
    nex = len(out)
    rng = ctx.rng
    # mutated printer output: delete / insert / replace / swap one token
    pool = [p for p in printed if p and p != "-"]
    for _ in range(ctx.n(12000, 300000)):
        ts = rng.choice(pool).split(" ")
        k = rng.below(5)
        if k == 0 and len(ts) > 1:
            del ts[rng.below(len(ts))]
        elif k == 1:
            ts.insert(rng.below(len(ts) + 1), rng.choice(sym + more))
        elif k == 2:
            ts[rng.below(len(ts))] = rng.choice(sym + more)
        elif k == 3 and len(ts) > 1:
            i = rng.below(len(ts) - 1)
            ts[i], ts[i + 1] = ts[i + 1], ts[i]
        # k == 4: unchanged
        out.append(" ".join(ts))
    for _ in range(ctx.n(6000, 200000)):
        n = 1 + rng.below(12)
        al = sym if rng.below(4) else sym + more
        out.append(" ".join(rng.choice(al) for _ in range(n)))
    return out, nex


def fill_prec(g, T):
    """the documented precedence table; used only to *predict* which shapes are findings (keys), never to decide
    pass/fail: the prediction itself is compared with the Coq predicate posokb over the regenerated table"""
    for names, p in ((("LOR",), 1), (("LAND",), 2), (("EQL", "NEQ", "LSS", "LEQ", "GTR", "GEQ", "SRARROW", "BIDIARROW"), 3),
                     (("ADD", "SUB", "OR", "XOR"), 4), (("MUL", "QUO", "REM", "SHL", "SHR", "AND", "AND_NOT"), 5)):
        for nm in names:
            g.prec[T[nm]] = p


REVIEWED_OPERANDS = [
    ("#possibleSelectorExpr", "x", "selectorExpr"), ("#possibleSelectorExpr", "expr", "prec1"), ("BinaryExpr", "x", "binaryExpr"),
    ("BinaryExpr#binaryExpr", "x", "expr0"), ("BinaryExpr#binaryExpr", "x.X", "prec"), ("BinaryExpr#binaryExpr", "x.Y", "prec + 1"),
    ("CallExpr", "x.Fun", "token.HighestPrec"), ("CallExpr", "x.Fun", "token.HighestPrec"), ("CallExpr", "x.Args", "exprList"),
    ("CallExpr", "x.Args", "exprList"), ("ErrWrapExpr", "x.X", "token.HighestPrec"), ("ErrWrapExpr", "x.Default", "token.UnaryPrec"),
    ("IndexExpr", "x.X", "token.HighestPrec"), ("IndexExpr", "x.Index", "expr0"), ("LambdaExpr", "x", "token.LowestPrec"), ("LambdaExpr", "x.Lhs", "identList"),
    ("LambdaExpr", "x.Lhs[0]", "expr"), ("LambdaExpr", "x.Rhs", "exprList"), ("LambdaExpr", "x.Rhs[0]", "expr"),
    ("ParenExpr", "x.X", "expr0"), ("ParenExpr", "x.X", "expr0"), ("SelectorExpr", "x", "selectorExpr"),
    ("SelectorExpr#selectorExpr", "x.X", "token.HighestPrec"), ("StarExpr", "x.X", "prec"), ("StarExpr", "x.X", "prec"),
    ("UnaryExpr", "x", "expr"), ("UnaryExpr", "x.X", "prec"),
]
REVIEWED_CONDS = [("BinaryExpr#binaryExpr", "prec < prec1"), ("ErrWrapExpr", "x.Default != nil && token.UnaryPrec < prec1"),
                  ("LambdaExpr", "token.LowestPrec < prec1"), ("LambdaExpr2", "token.LowestPrec < prec1"),
                  ("StarExpr", "prec < prec1"), ("UnaryExpr", "prec < prec1")]
MODELLED = set(k for k, _, _ in REVIEWED_OPERANDS) | {"Ident", "BasicLit"}


def static_contexts(ctx):
    """static half of the tie: the operand contexts of expr1 as written in the source vs the reviewed ones the model is built on.
    Informational (evidence key static_gen_*): a textual change of expr1 is decided by the differential run."""
    try:
        j = ctx.gen_json("printerexpr")
    except Exception as e:
        ctx.notes["static_gen"] = "not available: %s" % e
        return
    ops = [(o["Kind"], o["Field"], o["Ctx"]) for o in j.get("operands", []) if o["Kind"] in MODELLED]
    conds = [(c["Kind"], c["Ctx"]) for c in j.get("paren_conds", [])]
    ctx.notes["static_gen_operand_contexts"] = len(ops)
    if ops != REVIEWED_OPERANDS or conds != REVIEWED_CONDS:
        diff = [o for o in ops if o not in REVIEWED_OPERANDS] + [o for o in REVIEWED_OPERANDS if o not in ops] + \
               [c for c in conds if c not in REVIEWED_CONDS] + [c for c in REVIEWED_CONDS if c not in conds]
        ctx.notes["static_gen_changed"] = [list(d) for d in diff]
        ctx.log("static_gen: expr1 contexts differ from the reviewed ones:", str(diff)[:300])


def run(ctx):
    ctx.regen(["tokens", "printerexpr"])
    ok = ctx.prove("C22")
    static_contexts(ctx)
    model = ctx.model("expr")
    impl = ctx.harness("c22")
    T = toks(ctx)
    g = Gen(T)
    fill_prec(g, T)
    cases = build_cases(ctx, T, g)
    pin = "".join("P\t%s\t%s\n" % (c, s) for c, n, s in cases)
    rc1, out1 = ctx.run([impl], input=pin)
    rc2, out2 = ctx.run([model], input=pin)
    il, ml = out1.split("\n")[:-1], out2.split("\n")[:-1]
    if rc1 != 0 or rc2 != 0 or len(il) != len(cases) or len(ml) != len(cases):
        ctx.broken("correspondence(c22:run)", "impl rc=%d lines=%d model rc=%d lines=%d cases=%d %s" % (rc1, len(il), rc2, len(ml), len(cases), out1[-300:]))
        return
    # ---- B1: printer tokens, B2: parse of the printed text ----
    kc, ki, km = [], [], []
    pc, pi, pm = [], [], []
    vc, vi, vm = [], [], []
    proved = 0
    in_model = 0
    hist = {}
    printed = []
    for (c, n, s), a, b in zip(cases, il, ml):
        fa, fb = a.split("\t"), b.split("\t")
        hist[n[0] if isinstance(n, tuple) else "?"] = hist.get(n[0], 0) + 1
        if len(fa) < 4:
            ctx.broken("correspondence(c22:line)", "bad impl line for %s: %s" % (s, a[:200]))
            continue
        if fb[0] == "-" or c != "E":
            continue
        in_model += 1
        printed.append(fa[0])
        # the finding keys are derived from the same predicate the theorem assumes: posokb (Coq) ~ first_violation (here)
        if "v" in fb[3]:
            vc.append(s); vi.append("posok" if g.first_violation(n) is None else "violates"); vm.append("posok" if "p" in fb[3] else "violates")
            # theorem + correspondence: a valid tree satisfying posokb must round-trip on the implementation
            if "p" in fb[3] and fa[1] != "ok":
                ctx.fail("tree:" + s.replace(" ", "_"), "posokb holds but Fprint(%s) = %s re-parses as %s" % (s, fa[3], fa[2]), {"tree": s, "impl": a})
            if "p" in fb[3]:
                proved += 1
        kc.append(s); ki.append(fa[0]); km.append(fb[0])
        pc.append(s)
        pi.append("ERR" if fa[1] in ("parse-error",) else fa[2])
        pm.append(fb[2] if fb[2] != "UNSUP" else ("ERR" if fa[1] == "parse-error" else fa[2]))
    ctx.diff_lines("pr~printer.Fprint+scanner", kc, "\n".join(ki), "\n".join(km))
    ctx.diff_lines("parse(pr e)~parser.ParseExpr(Fprint e)", pc, "\n".join(pi), "\n".join(pm))
    ctx.diff_lines("posokb~finding-key predicate", vc, "\n".join(vi), "\n".join(vm))
    # ---- B3: parser on token streams ----
    tcases, nex = token_cases(ctx, T, g, printed)
    tin = "".join("T\t%s\n" % s for s in tcases)
    rc1, t1 = ctx.run([impl], input=tin)
    rc2, t2 = ctx.run([model], input=tin)
    a1, a2 = t1.split("\n")[:-1], t2.split("\n")[:-1]
    unsup = 0
    if rc1 != 0 or rc2 != 0 or len(a1) != len(tcases) or len(a2) != len(tcases):
        ctx.broken("correspondence(c22:tokens)", "impl rc=%d lines=%d model rc=%d lines=%d cases=%d" % (rc1, len(a1), rc2, len(a2), len(tcases)))
    else:
        cc, ci, cm = [], [], []
        okparse = 0
        for s, x, y in zip(tcases, a1, a2):
            if y == "UNSUP":
                unsup += 1
                continue
            if x != "ERR":
                okparse += 1
            cc.append(s); ci.append(x); cm.append(y)
        ctx.diff_lines("parse~parser.ParseExpr", cc, "\n".join(ci), "\n".join(cm))
        ctx.cover(evaluations=len(tcases), distinct_nontrivial=len(set(s for s, x in zip(tcases, a1) if x != "ERR")),
                  rule="parser correspondence: every token string of length<=3 over 18 symbols and length 4 over 10 symbols (%d, exhaustive) + "
                       "%d seeded (mutated printer outputs, token soup); %d streams leave the modelled fragment (model says UNSUP) and are "
                       "not compared; non-trivial = distinct stream the real parser accepts" % (nex, len(tcases) - nex, unsup),
                  token_streams_accepted=okparse, token_streams_unsupported=unsup)
    # ---- C: direct oracle ----
    nfail = 0
    fails = {}
    for (c, n, s), a in zip(cases, il):
        fa = a.split("\t")
        if len(fa) < 4 or fa[1] == "ok":
            continue
        nfail += 1
        v = g.first_violation(n)
        key = "shape:" + v if v else "tree:" + s.replace(" ", "_")
        if key not in fails:
            fails[key] = (s, fa)
    for key, (s, fa) in sorted(fails.items()):
        ctx.fail(key, "Fprint(%s) = %s re-parses as %s (%s)" % (s, fa[3], fa[2], fa[1]),
                 {"tree": s, "printed": fa[3], "reparsed": fa[2], "verdict": fa[1], "key": key})
    ctx.cover(evaluations=len(cases), distinct_nontrivial=len(set(s for c, n, s in cases if depth(n) >= 2)),
              samples=[{"tree": cases[i][2], "impl": il[i]} for i in (5, len(cases) // 3, len(cases) // 2, len(cases) - 7)],
              rule="direct oracle + printer correspondence: every tree of depth<=2 over all binary/unary operators and every XGo expression kind, "
                   "depth 3 over one operator per precedence level (+ - / & <) with a single leaf, depth 4 as operand-slot x prefix/postfix/lambda "
                   "constructor x one representative per level (%d trees, exhaustive, seed-independent); "
                   "%d of them are inside the Coq model and compared token by token; non-trivial = depth>=2; failing trees: %d "
                   "(all keyed by the first operand position violating posok)" % (len(cases), in_model, nfail),
              exhaustive_part=len(cases) + nex, node_kind_histogram=dict(sorted(hist.items(), key=lambda kv: -kv[1])),
              failing_trees=nfail, failing_shapes=sorted(fails), trees_in_model=in_model, trees_covered_by_theorem=proved)
    ctx.trust("modelled, not verified: printer/nodes.go expr1/binaryExpr/selectorExpr/exprList (token output, no positions) and "
              "parser/parser.go parseLambdaExpr..parseOperand for ParseExpr (Model/Expr.v), tied by exhaustive+seeded differential runs",
              "blank insertion (mayCombine, cutoff/depth) is observed through the real scanner, not modelled")
    ctx.assume("trees carry no positions (FileSet without files): the printer sees no line information",
               "identifier names are not keywords; literal texts are valid literals of their kind")
