#!/usr/bin/env python3
"""Regenerate MANIFEST.json from checks/registry.py (single source of truth)."""
import json, os, sys
HERE = os.path.dirname(os.path.abspath(__file__))
sys.path.insert(0, HERE)
sys.path.insert(0, os.path.join(HERE, "lib"))
import importlib
from checks.registry import NOT_APPLICABLE, HOOK_COMMITS
CHECKS = {}
for f in sorted(os.listdir(os.path.join(HERE, "checks"))):
    if f.startswith("c") and f.endswith(".py") and f[1:-3].isdigit():
        mod = importlib.import_module("checks." + f[:-3])
        if getattr(mod, "CLAIM", None):
            CHECKS[f[:-3].upper()] = mod.CLAIM
props = [json.loads(l) for l in open(os.path.join(HERE, "properties.jsonl"))]
ids = [p["id"] for p in props]
checks = []
for pid in ids:
    if pid not in CHECKS:
        continue
    c = CHECKS[pid]
    checks.append({
        "property_id": pid,
        "quick_cmd": "./check %s --tier quick" % pid,
        "thorough_cmd": "./check %s --tier thorough" % pid,
        "evidence_file": "/verif/evidence/%s.json" % pid,
        "replay_cmd_template": "./check %s --replay {path}" % pid,
        "engine": "coq+diff",
        "level_claimed": {"category": c["level"], "text": c["text"], "design_ref": "DESIGN.md section 13 (as built) and section 6 (plan), %s" % pid},
        "level_note": c["note"],
        "technique": c.get("technique", "machine-checked proof in Coq 8.16.1 over an executable Gallina model; model tied to /repo by translator-regenerated tables and/or differential correspondence (extracted OCaml model vs implementation)"),
    })
na = [{"property_id": pid, "reason": NOT_APPLICABLE.get(pid, "check not built yet (work in progress); see DESIGN.md")}
      for pid in ids if pid not in CHECKS]
m = {
    "version": 1,
    "setup_cmd": "./setup.sh",
    "hooks": {
        "guard": "verif",
        "enable": "go build -tags verif (the harness under /verif/harness is built with -tags verif against /repo via a replace directive)",
        "baseline_off_cmd": "cd /repo && env -u GOPROXY -u GOFLAGS go test -mod=mod -json -vet=off -count=1 -timeout 25m ./...",
        "source_commits": HOOK_COMMITS,
        "add_only": True,
    },
    "engines": [{"name": "coq+diff", "path": "/verif/check",
                 "serves_properties": [c["property_id"] for c in checks],
                 "kind_free_text": "Coq 8.16.1 proofs (coq/), translator (translator/), extracted OCaml models (ocaml/), Go harness (harness/), python driver (check, lib/vlib.py, checks/)"}],
    "checks": checks,
    "not_applicable": na,
    "notes": "Decision rule: DESIGN.md section 3. Known findings: known_findings.txt.",
}
json.dump(m, open(os.path.join(HERE, "MANIFEST.json"), "w"), indent=1)
print("MANIFEST: %d checks, %d not claimed" % (len(checks), len(na)))
